"""E2: fork/replay explorer over interpreter histories.

The state of the system is the Python interpreter itself (class attributes rewritten by lazy
loaders, per-atom instance dictionaries, imported submodules, module caches).  The coordinating
process imports the library and then NEVER executes an event: it stays in the initial state and is
the zygote.  To expand a state it forks a child that replays the state's event history on the real
library and then forks one grandchild per event, which executes the event, records the normalised
observation and the canonical key of the interpreter it ends in, and exits.  States are therefore
never copied or pickled - they are rebuilt from their history - and fork gives a constant-time
snapshot for each successor.  No threads anywhere.

Canonicalisation is validated, not trusted: every key reached through two different incoming edges
has a second representative expanded and compared (observations, successor keys, full digest)."""
import os, sys, pickle, json, subprocess, hashlib, traceback
from .common import Acc, pmap, MachineryError, VERIF, REPO


class Event(object):
    def __init__(self, name, code, expand=True, group=None):
        self.name, self.code, self.expand, self.group = name, code, expand, group

    def __repr__(self):
        return "Event(%s)" % self.name


def run_code(code, ns):
    """Execute an event's code (statements; the value of the last line is the observation)."""
    lines = code.strip().split("\n")
    body, last = lines[:-1], lines[-1]
    if body:
        exec(compile("\n".join(body), "<event>", "exec"), ns)
    try:
        c = compile(last, "<event>", "eval")
    except SyntaxError:
        exec(compile(last, "<event>", "exec"), ns)
        return None
    return eval(c, ns)


def in_fork(fn):
    """Run fn() in a forked child and return its (picklable) result; the caller's state is untouched."""
    r, w = os.pipe()
    sys.stdout.flush(); sys.stderr.flush()
    pid = os.fork()
    if pid == 0:
        code = 0
        try:
            os.close(r)
            try:
                out = ("ok", fn())
            except BaseException as e:
                out = ("err", "%r\n%s" % (e, traceback.format_exc()))
            with os.fdopen(w, "wb") as f:
                f.write(pickle.dumps(out, protocol=pickle.HIGHEST_PROTOCOL))
        except BaseException:
            code = 3
        finally:
            os._exit(code)
    os.close(w)
    chunks = []
    with os.fdopen(r, "rb") as f:
        while True:
            b = f.read(1 << 20)
            if not b:
                break
            chunks.append(b)
    _, status = os.waitpid(pid, 0)
    data = b"".join(chunks)
    if not data:
        raise MachineryError("forked child died with status %d" % status)
    kind, val = pickle.loads(data)
    if kind == "err":
        raise MachineryError("forked child failed: %s" % val)
    return val


class HistModel(object):
    """Subclass per property.  All methods run inside forked children except __init__/events()."""
    def namespace(self):
        raise NotImplementedError

    def events(self):
        raise NotImplementedError

    def enabled(self, hist, ev):
        return True

    def observe(self, ev, ns):
        """Execute one event; returns the normalised observation string."""
        raise NotImplementedError

    def key(self, ns):
        raise NotImplementedError

    def digest(self, ns, order):
        raise NotImplementedError


def expand_state(args):
    """Job (runs in a forked worker of the pristine coordinator): replay hist, then one
    grandchild per event of the slice.  Returns dict(hist, edges=[(event, obs, key)],
    probes=[(event, obs)], digests={order: d}, key)."""
    model, hist, digest_orders, expand_names, ev_slice = args[:5]
    with_probes = args[5] if len(args) > 5 else True
    ns = model.namespace()
    evs = dict((e.name, e) for e in model.events())
    for name in hist:
        model.observe(evs[name], ns)
    edges, probes = [], []
    todo = [e for e in model.events() if model.enabled(hist, e)]
    if not with_probes:
        todo = [e for e in todo if e.expand and (expand_names is None or e.name in expand_names)]
    if ev_slice is not None:
        i, n = ev_slice
        todo = todo[i::n]
    for e in todo:
        is_exp = e.expand and (expand_names is None or e.name in expand_names)
        def one(e=e, is_exp=is_exp):
            obs = model.observe(e, ns)
            return (obs, model.key(ns) if is_exp else None)
        obs, key = in_fork(one)
        if is_exp:
            edges.append((e.name, obs, key))
        else:
            probes.append((e.name, obs))
    digests = dict((o, in_fork(lambda o=o: model.digest(ns, o))) for o in digest_orders)
    own_key = in_fork(lambda: model.key(ns))
    return dict(hist=tuple(hist), edges=edges, probes=probes, digests=digests, key=own_key)


def expand_many(model, hists, jobs, expand_names, want_digest=True, label="E2-expand", with_probes=True):
    """Expand several states at once; the events of one state are sliced over several jobs when
    there are fewer states than workers.  Returns one merged result per history."""
    n_ev = len(model.events())
    nsl = max(1, min(n_ev, (2 * jobs) // max(1, len(hists))))
    items = []
    for hi, h in enumerate(hists):
        for i in range(nsl):
            items.append((hi, (model, h, (), expand_names, (i, nsl), with_probes)))
        if want_digest:
            for o in getattr(model, "digest_orders", (0, 1)):
                # slice (o, 10**9) selects at most one event: the job is essentially the digest alone
                items.append((hi, (model, h, (o,), expand_names, (o, 10 ** 9))))
    results = pmap(expand_state, [a for _, a in items], jobs, label, always_fork=True)
    merged = [dict(hist=tuple(h), edges={}, probes={}, digests={}, key=None, keys=set()) for h in hists]
    order = dict((e.name, i) for i, e in enumerate(model.events()))
    for (hi, _), r in zip(items, results):
        m = merged[hi]
        m["keys"].add(r["key"])
        m["key"] = r["key"]
        for ev, obs, k2 in r["edges"]:
            if ev in m["edges"] and m["edges"][ev] != (obs, k2):
                m["keys"].add("nondeterministic:" + ev)
            m["edges"][ev] = (obs, k2)
        for ev, obs in r["probes"]:
            if ev in m["probes"] and m["probes"][ev] != obs:
                m["keys"].add("nondeterministic:" + ev)
            m["probes"][ev] = obs
        m["digests"].update(r["digests"])
    out = []
    for m in merged:
        edges = sorted(((ev, o, k2) for ev, (o, k2) in m["edges"].items()), key=lambda t: order[t[0]])
        probes = sorted(m["probes"].items(), key=lambda t: order[t[0]])
        digs = [m["digests"][o] for o in sorted(m["digests"])] if m["digests"] else None
        out.append(dict(hist=m["hist"], edges=edges, probes=probes, digests=digs, key=m["key"],
                        deterministic=(len(m["keys"]) == 1)))
    return out


def fresh_replay(module, model_factory, hist, extra_events=()):
    """Replay a history in a brand-new interpreter (no fork, no zygote).  Returns the list of
    observations for hist + extra_events (each extra event after the whole history, cumulatively)."""
    prog = (
        "import sys, json\n"
        "sys.path.insert(0, %r); sys.path.insert(0, %r)\n"
        "import importlib\n"
        "m = importlib.import_module(%r)\n"
        "model = getattr(m, %r)()\n"
        "ns = model.namespace()\n"
        "evs = dict((e.name, e) for e in model.events())\n"
        "out = [model.observe(evs[n], ns) for n in json.loads(sys.argv[1])]\n"
        "print('\\n@@RESULT@@' + json.dumps(out))\n"
    ) % (VERIF, REPO, module, model_factory)
    env = dict(os.environ)
    p = subprocess.run([sys.executable, "-c", prog, json.dumps(list(hist) + list(extra_events))],
                       capture_output=True, text=True, env=env)
    if p.returncode != 0 or "@@RESULT@@" not in p.stdout:
        raise MachineryError("fresh replay failed: %s\n%s" % (p.stdout[-500:], p.stderr[-2000:]))
    return json.loads(p.stdout.split("@@RESULT@@")[-1])


class Explorer(object):
    """Level-synchronous BFS over keys; the coordinator never executes an event."""
    def __init__(self, model, jobs, log=lambda *a: None):
        self.model, self.jobs, self.log = model, jobs, log
        self.rep = {}        # key -> representative history (shortest, first found)
        self.rep_last = {}   # key -> last edge of the representative
        self.second = {}     # key -> second representative history (different last edge)
        self.succ = {}       # key -> {event: (obs, key')}
        self.probe = {}      # key -> {event: obs}
        self.digest = {}     # key -> digest
        self.transitions = 0
        self.second_checked = 0
        self.key_conflicts = []
        self.nondeterminism = []
        self.bad_states = 0
        self.level_of = {}

    def run(self, depth=None, expand_names=None, state_cap=None, on_state=None, probe_levels=None):
        """probe_levels: states at BFS levels >= probe_levels are expanded with the expansion alphabet
        only (their non-expansion probe events are skipped); None = probes everywhere."""
        # the root state is the pristine interpreter: compute its key in a fork
        ns_key = in_fork(lambda: self.model.key(self.model.namespace()))
        self.rep[ns_key] = ()
        self.rep_last[ns_key] = None
        frontier = [ns_key]
        level = 0
        completed = 0
        capped = False
        while frontier and (depth is None or level < depth) and not capped:
            results = expand_many(self.model, [self.rep[k] for k in frontier], self.jobs, expand_names,
                                  with_probes=(probe_levels is None or level < probe_levels))
            for k in frontier:
                self.level_of[k] = level
            nxt = []
            for k, res in zip(frontier, results):
                if res["key"] != k or not res["deterministic"]:
                    self.nondeterminism.append(dict(hist=list(res["hist"]), expected_key=k, got_key=res["key"]))
                self._record(k, res)
                bad = on_state(k, res) if on_state is not None else False
                if bad:
                    self.bad_states += 1
                    self.transitions += len(res["edges"])
                    continue       # successors of a violating state are not explored
                for (ev, obs, k2) in res["edges"]:
                    self.transitions += 1
                    if k2 not in self.rep:
                        self.rep[k2] = res["hist"] + (ev,)
                        self.rep_last[k2] = ev
                        nxt.append(k2)
                        if state_cap is not None and len(self.rep) >= state_cap:
                            capped = True
                    elif k2 not in self.second and self.rep_last[k2] != ev:
                        # a different way into the same key (self-loops included: "the same event again"
                        # and pure memo effects are then compared with the representative)
                        self.second[k2] = res["hist"] + (ev,)
            level += 1
            completed = level
            self.log("E2 level %d: %d states, %d transitions, frontier %d" %
                     (level, len(self.rep), self.transitions, len(nxt)))
            frontier = nxt
        self.unexpanded = list(frontier)
        self.closed = not frontier and not capped
        self.levels = completed
        self.capped = capped
        return self

    def _record(self, k, res):
        self.succ[k] = dict((ev, (obs, k2)) for ev, obs, k2 in res["edges"])
        self.probe[k] = dict(res["probes"])
        if res["digests"] is not None:
            self.digest[k] = res["digests"]

    def validate_seconds(self, expand_names=None, max_level=None, probe_levels=None, oracle=None):
        """Expand the second representative of every expanded key that has one; any difference in
        observations, successor keys or digests means the key is too coarse (machinery error)."""
        todo = [(k, h) for k, h in self.second.items() if k in self.succ
                and (max_level is None or self.level_of.get(k, 0) <= max_level)]
        if not todo:
            return 0
        results = []
        for lvl in sorted(set(self.level_of.get(k, 0) for k, h in todo)):
            part = [(k, h) for k, h in todo if self.level_of.get(k, 0) == lvl]
            r = expand_many(self.model, [h for k, h in part], self.jobs, expand_names, label="E2-second",
                            with_probes=(probe_levels is None or lvl < probe_levels))
            results += list(zip(part, r))
        todo = [p for p, r in results]
        results = [r for p, r in results]
        for (k, h), res in zip(todo, results):
            self.second_checked += 1
            if oracle is not None and oracle(k, res):
                continue       # the second representative itself violates the property: reported by the oracle
            a = self.succ[k]
            b = dict((ev, (obs, k2)) for ev, obs, k2 in res["edges"])
            pa, pb = self.probe[k], dict(res["probes"])
            if res["key"] != k or a != b or pa != pb or (k in self.digest and res["digests"] != self.digest[k]):
                diff = [ev for ev in a if a.get(ev) != b.get(ev)] + [ev for ev in pa if pa.get(ev) != pb.get(ev)]
                self.key_conflicts.append(dict(key=str(k)[:16], rep=list(self.rep[k]), second=list(h),
                                               differing_events=diff[:10],
                                               first=(None if not diff else (a.get(diff[0]), b.get(diff[0]), pa.get(diff[0]), pb.get(diff[0]))),
                                               key_differs=(res["key"] != k),
                                               digest_differs=(k in self.digest and res["digests"] != self.digest[k])))
        return len(todo)
