"""C16 - D2O contrast matching agrees with direct substitution of labile hydrogen
(E1 over compounds x fractions; complete over the fasta tables; DESIGN section 4, C16).

State  = (compound, input form, D2O fraction d, solute volume fraction v, wavelength).
Oracle = (1) v = 1: real and imaginary part of nsf.D2O_sld equal nsf.neutron_sld of the compound the
             reference (mc/ref/contrast.py) builds by direct substitution: the n labile H[1] become
             d*n D and (1-d)*n natural H, same cell volume, density scaled by the mass;
         (2) v = 0: they equal the H2O/D2O solvent mixture d*SLD(D2O) + (1-d)*SLD(H2O), the same
             solvent for every compound; WHICH densities the two waters have is not in the statement:
             they are measured once (from the real parts at d = 0 and d = 1 of a solute-free case) and
             only required to be liquid water at 20 C (H2O 0.9982 +- 0.1 %, D2O the same molar volume
             +- 1 %); everything else is then compared at 1e-9;
         (3) 0 < v < 1: v*(1) + (1-v)*(2);
         (4) D2O_match: at the reported fraction d* solute and solvent real SLD coincide (written as a
             residual, never as a quotient), the reported SLD is that common value and
             D2O_sld(., v, d*)[0] equals it for every v;
         (5) fasta.Molecule (every entry of every table): .sld / .Dsld equal the direct substitution at
             d = 0 / 1 in the molecule's cell volume, .D2Omatch/100 is a match point in the sense of (4)
             and the same one as nsf.D2O_match(labile_formula), .D2Osld(v, d) equals (1)-(3) and the
             real part of nsf.D2O_sld(labile_formula, v, d).
History = the same caller-side objects used for several calculations (section "histories" below): every call of
         a small alphabet (text / Formula of the default table / Formula of a private table with the same data;
         own density, density=, natural_density=; with and without table=) alone in a fresh process, then every
         ordered pair of them on the same objects, optionally with the caller's own in-place density update in
         between; after every call the caller's objects must be what they were, and every call whose meaning the
         statement fixes is judged by (1)-(4) for the density and table of THAT call.
Beam    = wavelength= and energy= (quick and thorough); a call with energy=E must also equal the same call with the
         equivalent wavelength= (own conversion), grid points and match point.  energy=E TOGETHER WITH wavelength=w in
         one call (w the wavelength of E, or another one): neutron_sld documents 'If energy is specified then wavelength
         is ignored', so the call is judged by (1)-(4) for the beam of E - every compound, form, molecule and grid
         point, the match point, and as calls of the histories.
Positional = D2O_sld(compound, v, d, ...) - the two fractions by position in the documented order - at every grid point
         of the first and the last probe of every item must give what the keywords give.
Construction histories = fasta.Molecule(name, X, cell_volume=V | density=d) with X an object somebody else owns (a
         Formula the caller parsed, with or without its own density; an atom dictionary; text; the labile_formula of
         an earlier molecule, of every table entry, of a Sequence): two constructions from the same object with
         every ordered pair of 2 cell volumes and 2 natural densities; X must come back unaltered, every new
         molecule is judged by (1)-(5) for ITS construction arguments, and every earlier molecule must report what
         it reported and still satisfy (1)-(5), nsf route on its labile_formula included."""
import itertools
import math
import os

from ..common import Acc, load_pt, chunks, rotate, MachineryError
from ..histmc import in_fork
from ..ref import contrast as R
from ..ref.neutron import wavelength_of_energy

META = dict(
    level="model_checking", engine="E1",
    technique="bounded-exhaustive grid over compounds x input forms x D2O fraction x volume fraction x "
              "wavelength on the real calculators, complete sweep of the biomolecule tables, and all two-call "
              "histories over a call alphabet (input object x density keyword x table keyword) on reused "
              "caller-side objects, against a direct-substitution reference",
    rule=("every compound of the list (0, 1, 3, 4, n labile H[1]; with/without ordinary H and D; isotopic "
          "'@d' and natural '@dn' density) in every input form (string with '@', string + density keyword, "
          "Formula object) and every Molecule of the eight fasta tables, crossed with the full grid of D2O "
          "fractions, volume fractions and wavelengths, plus the match point of every compound x wavelength; "
          "a case is non-trivial when the compound has labile hydrogen and d > 0 (a substitution really "
          "happens) or, for match-point cases, when the compound has labile hydrogen.  HISTORIES: a call = (D2O_sld at "
          "fixed fractions | D2O_match) x (text | Formula parsed with the default table | Formula parsed with a "
          "private table T holding the same data) x (own density | density= | natural_density=) x (no table= | "
          "table=T) x probe; every call alone in its own forked process; every history (first call, optional "
          "caller update 'formula.density = x', judged second call) on fresh objects; after every call the two "
          "Formula objects are compared with the caller's model of them (structure with atoms by identity, "
          "density, name, text); judged are text with or without table=, default-table Formula without table=, "
          "private-table Formula with table=T (the other two combinations leave the labile hydrogen "
          "unsubstituted - a documented TODO - and are executed as history only).  Every fasta molecule is judged "
          "a second time after five keyword-carrying calls on its labile_formula (an object shared by all users "
          "of the table).  A history is non-trivial when the compound has labile hydrogen.  BEAM: every grid point and "
          "match point computed with energy= is also computed with the equivalent wavelength= and the two must agree; "
          "probes ('both', E, w) pass energy=E and wavelength=w in ONE call (w = the wavelength of E | other wavelengths "
          "on either side) and are judged for the beam of E (documented precedence), after the energy-only probe of the "
          "same E so that a violation is named after the combination; the histories contain the combined call alone and "
          "before / after the default, wavelength= and energy= calls.  POSITIONAL: the grid points of the first and the last "
          "probe of every item are also computed as D2O_sld(compound, v, d, ...).  "
          "CONSTRUCTION HISTORIES: (argument kind: Formula | Formula with own density | atom dictionary | text) x "
          "(cell_volume a | b | natural density a | b) for the first molecule x (same object | first.labile_formula) x "
          "the same four for the second; after each construction the argument is compared with its state before, the "
          "new molecule is judged (5 with 1-4 on a 3 x 2 grid) for its own arguments, and the first molecule is read "
          "again and judged again; every table molecule and 3 Sequences: two variants derived from .labile_formula, "
          "then the existing molecule read and judged again"),
    bound=dict(
        quick="13 compounds (three with an energy-dependent scatterer: Gd, Sm, Eu) x 3 input forms + all 99 molecules of the 8 fasta tables; D2O fraction "
              "{0, 0.08, 0.25, 0.5, 1} x volume fraction {0, 0.3, 1} x {wavelength 1.798, 6 A, energy 5 meV (+ its equivalent wavelength), "
              "energy 5 meV together with wavelength 4.04 (its own) | 1.798 | 12 A}; fractions by position at the first and last probe; match point per "
              "compound x wavelength re-evaluated at volume fraction {0, 0.3, 1}.  Histories: 4 compounds (natural / "
              "isotopic density, D present, energy-dependent absorber) x [36 first calls x 24 judged second calls at "
              "the default beam (+ the two caller-update variants - 'f.density = x' and 'f = 2*f; f.density = x' - where the second call uses the object's own "
              "density) + 13 beam-only-differing histories (default / wavelength= / energy= / energy= with wavelength=) per judged call] = 1464 histories "
              "each, 120 calls alone; 99 molecules x 5 keyword calls + re-judgement; construction histories: 4 compounds x "
              "4 argument kinds x 4 x 2 x 4 = 512 two-molecule histories, 99 table molecules + 3 Sequences x 2 derived "
              "variants",
        thorough="16 compounds (adds nested groups, a hydrogen-free salt) x 3 input "
                 "forms + all 99 molecules; D2O fraction {0, 0.04, 0.08, 0.25, 0.5, 0.75, 1} x volume fraction "
                 "{0, 0.1, 0.3, 0.5, 0.9, 1} x {wavelength 0.5, 1.798, 6, 12 A, energy 5 meV, energy 5 meV together with "
                 "wavelength 4.04 (its own) | 0.5 | 1.798 | 12 A}; match points as in quick.  "
                 "Histories: all 16 compounds x [54 first calls x 36 judged second calls + variants] = 3060 histories "
                 "each (13 beam-only-differing ones per judged call included), 186 calls alone; molecules and "
                 "construction histories as in quick"),
    assumptions=[
        "atom masses and scattering lengths are the library's tables (C06/C07); the expected SLD of the substituted "
        "compound is the library's own neutron_sld on an atom dictionary and a density built by the reference "
        "(the second route the statement names), not Formula.replace / natural_density",
        "the statement does not say which densities the solvent waters have: they are measured from the "
        "implementation (real SLD at v=0, d=0 and d=1 of a hydrogen-free solute, divided by the real SLD of "
        "H2O / D2O at unit density) and required to lie within 0.1 % of 0.9982 g/cm3 (H2O, 20 C) and within 1 % "
        "of the density D2O has at the molar volume of that H2O (the measured 1.1050 g/cm3 is 0.4 % away); "
        "a slip of the solvent density smaller than that, made consistently in nsf and fasta, is not detected",
        "only the real and imaginary parts are judged (the statement names them; the docstring says the "
        "incoherent part is not consistent with a substituted compound)",
        "D2O fraction and volume fraction stay in [0, 1]; a match fraction outside [0, 1] is only used for real "
        "parts (the imaginary part is reported as a magnitude and is not linear through a sign change)",
        "compounds without a finite match point (labile hydrogen density equal to that of water, e.g. "
        "H[1]2O@0.9982n) are not in the alphabet; compounds without density (Formula.replace raises, C12) neither",
        "private tables appear only with the SAME data as the default table (then every reading of 'which table "
        "does the solvent / the substitution use' gives the same numbers) and only in the history unit; a default-"
        "table Formula passed with table=T, and a private-table Formula passed without, are never judged (the "
        "source marks this TODO; fasta documents that it ignores private tables), but they are executed: like every "
        "call they must leave the caller's objects alone and must not change what later calls return",
        "'the caller's object is unaltered' is judged on what a caller can read (structure with atoms by identity, "
        "density, name, text), not on private attributes; the caller's own update between two calls is "
        "'formula.density = x', or 'g = 2*formula; g.density = x' and going on with g (n*f copies f with whatever is "
        "attached to it; doubling every count does not change an SLD at given density); the later call is then judged for x",
        "a density= / natural_density= keyword given together with a Formula object is the density of that call "
        "(the docstrings say the keywords are passed to formula()); with text the keyword is only combined with "
        "text that carries no '@' density",
        "within one history worker earlier histories have run in the same process: a violation there is named "
        "after the last two calls although something older may be the cause; the worker stops at its first "
        "violation",
        "a Molecule built with cell_volume=V is the composition as written in a cell of V cubic Angstrom; built with "
        "density=d it has the natural density d (docstring of Molecule: 'density is the natural density'; H[1] counts "
        "as natural H); a Formula handed to Molecule is the caller's: its density (own or None) is not the molecule's "
        "and must not change; derived variants are built from the labile_formula of table entries, which every user "
        "of the table shares",
        "Molecule values are compared with the cell volume the Molecule reports (tables give cell volumes); "
        "empty molecules (gap, masked) have volume 0, density 0 and SLD 0",
        "keywords in combination: D2O_sld / D2O_match say '*wavelength* or *energy* select neutron wavelength or energy' "
        "and compute through neutron_sld, whose documentation fixes the precedence ('If energy is specified then "
        "wavelength is ignored'): energy= with wavelength= means the beam of the energy, and the reference is neutron_sld "
        "of the substituted compound with energy= alone.  Scalars only (the docstrings describe float beams; vectors are "
        "C03's).  density= together with natural_density= is NOT judged: no docstring (D2O_sld, D2O_match, formula) says "
        "which of the two wins",
        "positional passing: compound, volume_fraction, D2O_fraction of nsf.D2O_sld are described in that order and "
        "accepted by position; everything else travels in **kw and has no position.  Molecule.D2Osld documents no "
        "parameters and is called with keywords only",
    ],
    level_text="every member of the stated finite grid was executed on the real D2O_sld / D2O_match / Molecule "
               "code and compared with the direct-substitution reference; the identities are polynomial "
               "(bilinear in d and v at fixed cell volume), so agreement on 5 x 3 points per compound leaves "
               "no room for a different bilinear form; nothing is claimed for compounds outside the list "
               "except through the small-scope argument (one labile species, one solvent)",
    level_note="trusted: the 60-line reference mc/ref/contrast.py; nsf.neutron_sld on an explicit atom "
               "dictionary with explicit density (C03); the library's mass and b_c tables",
)

REL = 1e-9
H2O_20C = 0.9982          # g/cm^3, liquid water at 20 C to the digits anybody quotes
BAND_H2O = 1e-3
BAND_D2O = 1e-2

# label, formula text, composition as written, density kind, density value
COMPOUNDS = [
    ("SiO2@2.2", "SiO2", [("Si", 1), ("O", 2)], "iso", 2.2),
    ("C3H4H[1]NO@1.29n", "C3H4H[1]NO", [("C", 3), ("H", 4), ("H[1]", 1), ("N", 1), ("O", 1)], "nat", 1.29),
    ("C27H45H[1]O@1.05", "C27H45H[1]O", [("C", 27), ("H", 45), ("H[1]", 1), ("O", 1)], "iso", 1.05),
    ("D2O@1n", "D2O", [("D", 2), ("O", 1)], "nat", 1.0),
    ("CH[1]4@0.4", "CH[1]4", [("C", 1), ("H[1]", 4)], "iso", 0.4),
    ("C2D6O@0.9", "C2D6O", [("C", 2), ("D", 6), ("O", 1)], "iso", 0.9),
    ("H[1]2O@1", "H[1]2O", [("H[1]", 2), ("O", 1)], "iso", 1.0),
    ("C4H3DH[1]3N2O2@1.4n", "C4H3DH[1]3N2O2",
     [("C", 4), ("H", 3), ("D", 1), ("H[1]", 3), ("N", 2), ("O", 2)], "nat", 1.4),
    # an energy-dependent absorber: the only kind of atom whose imaginary SLD depends on the wavelength
    ("Gd(OH[1])3@5", "Gd(OH[1])3", [("Gd", 1), ("O", 3), ("H[1]", 3)], "iso", 5.0),
    # tritium is an isotope like any other: only the atoms written H[1] are labile
    ("T2O@1.21", "T2O", [("T", 2), ("O", 1)], "iso", 1.21),
    ("C3H3T3H[1]2NO2@1.4n", "C3H3T3H[1]2NO2", [("C", 3), ("H", 3), ("T", 3), ("H[1]", 2), ("N", 1), ("O", 2)], "nat", 1.4),
    # more energy-dependent scatterers (the compounds for which the beam matters at all): without labile hydrogen, and
    # with labile hydrogen at a natural density
    ("Sm2O3@8.35", "Sm2O3", [("Sm", 2), ("O", 3)], "iso", 8.35),
    ("EuC6H9H[1]6O9@1.9n", "EuC6H9H[1]6O9", [("Eu", 1), ("C", 6), ("H", 9), ("H[1]", 6), ("O", 9)], "nat", 1.9),
]
COMPOUNDS_THOROUGH = COMPOUNDS + [
    ("C2(H[1]2O)3@1.1", "C2(H[1]2O)3", [("C", 2), ("H[1]", 6), ("O", 3)], "iso", 1.1),
    ("(CH3)2CHOH[1]@0.786n", "(CH3)2CHOH[1]", [("C", 3), ("H", 7), ("O", 1), ("H[1]", 1)], "nat", 0.786),
    ("NaCl@2.16", "NaCl", [("Na", 1), ("Cl", 1)], "iso", 2.16),
]
FORMS = ("str", "kw", "obj")
TABLES = ("AMINO_ACID_CODES", "NUCLEIC_ACID_COMPONENTS", "CARBOHYDRATE_RESIDUES", "LIPIDS",
          "RNA_BASES", "DNA_BASES", "RNA_CODES", "DNA_CODES")
CANONICAL = 0       # index of the hydrogen-free compound used to measure the solvent

# ('both', E, w): energy=E AND wavelength=w in one call; w 'same' = the wavelength of E (own conversion).  They come
# after the energy-only probe of the same energy, so that a violation is named after the combination.
GRID = dict(
    quick=dict(d=(0, 0.08, 0.25, 0.5, 1), v=(0, 0.3, 1),
               probes=(("wavelength", 1.798), ("wavelength", 6), ("energy", 5.0),
                       ("both", 5.0, "same"), ("both", 5.0, 1.798), ("both", 5.0, 12))),
    thorough=dict(d=(0, 0.04, 0.08, 0.25, 0.5, 0.75, 1), v=(0, 0.1, 0.3, 0.5, 0.9, 1),
                  probes=(("wavelength", 0.5), ("wavelength", 1.798), ("wavelength", 6), ("wavelength", 12),
                          ("energy", 5.0),
                          ("both", 5.0, "same"), ("both", 5.0, 0.5), ("both", 5.0, 1.798), ("both", 5.0, 12))),
)


def grid_for(tier):
    """the grid of a tier with the 'same' wavelengths of the combined probes worked out"""
    g = dict(GRID[tier])
    g["probes"] = tuple((p[0], p[1], wavelength_of_energy(p[1])) if p[0] == "both" and p[2] == "same" else p
                        for p in g["probes"])
    return g


def compounds(tier):
    return COMPOUNDS if tier == "quick" else COMPOUNDS_THOROUGH


_PRIVATE = {}      # pid -> the private table of this process


class Env(object):
    def __init__(self):
        self.pt = pt = load_pt()
        from periodictable import nsf, fasta, formula, constants
        self.nsf, self.fasta, self.formula = nsf, fasta, formula
        self.NA = constants.avogadro_number
        self.H1, self.H, self.D, self.O = pt.H[1], pt.H, pt.D, pt.O
        self.water = {False: [(self.H, 2), (self.O, 1)], True: [(self.D, 2), (self.O, 1)]}
        self._solvent = {}
        self._private = None

    def private(self):
        """A private table with the same data as the default one (made once per worker process; names of
        tables are unique per process)."""
        if self._private is None:
            if os.getpid() not in _PRIVATE:
                from periodictable.core import PeriodicTable
                from periodictable import mass, density
                T = PeriodicTable("c16_private_%d" % os.getpid())
                mass.init(T)
                density.init(T)
                self.nsf.init(T)
                _PRIVATE.clear()
                _PRIVATE[os.getpid()] = T
            self._private = _PRIVATE[os.getpid()]
        return self._private

    def atom(self, key):
        if key == "H[1]":
            return self.H1
        return getattr(self.pt, key)

    def b_re(self, a):
        b = a.neutron.b_c
        return 0.0 if b is None else b

    def pyname(self, a):
        if hasattr(a, "isotope"):
            if a.symbol in ("D", "T"):
                return "pt.%s" % a.symbol
            return "pt.%s[%d]" % (a.element.symbol, a.isotope)
        return "pt.%s" % a.symbol


def _kw(probe):
    """Keywords of a probe; ('default', None) = neither wavelength nor energy is passed; ('both', E, w) = energy=E
    AND wavelength=w in the same call."""
    if probe[0] == "default":
        return {}
    if probe[0] == "both":
        return {"energy": probe[1], "wavelength": probe[2]}
    return {probe[0]: probe[1]}


def _beam(probe):
    """The beam a probe means.  neutron_sld / neutron_scattering document 'If energy is specified then wavelength is
    ignored': energy= together with wavelength= is the beam of that energy."""
    return ("energy", probe[1]) if probe[0] == "both" else tuple(probe)


def _kwsrc_probe(probe):
    return ", ".join("%s=%r" % kv for kv in sorted(_kw(probe).items()))


def _pair(x):
    """(real, imaginary) of an SLD result as plain floats."""
    return float(x[0]), float(x[1])


def _close_scaled(a, b, scale):
    if math.isnan(a) or math.isnan(b) or math.isinf(a) or math.isinf(b):
        return False
    return abs(a - b) <= REL * max(abs(scale), abs(a), abs(b)) + 1e-300


def _close_rel(a, b):
    if math.isnan(a) or math.isnan(b) or math.isinf(a) or math.isinf(b):
        return False
    return abs(a - b) <= REL * max(abs(a), abs(b)) + 1e-300


# ---------------------------------------------------------------------------------------------
# the compound under test: how to call the library with it, and what it is for the reference
class Item(object):
    """One compound in one input form."""
    def __init__(self, E, desc, tier):
        self.desc = desc
        kind = desc[0]
        self.molecule = None
        if kind == "design":
            _, idx, form = desc
            label, text, comp, dkind, dval = compounds(tier)[idx]
            self.label, self.form = label, form
            self.pairs = [(E.atom(k), n) for k, n in comp]
            self.rho = R.written_density(self.pairs, dkind, dval)
            self.dclass = dkind
            if form == "str":
                self.arg, self.kw = label, {}
                self.code = "%r" % label
            elif form == "kw":
                name = "density" if dkind == "iso" else "natural_density"
                self.arg, self.kw = text, {name: dval}
                self.code = "%r, %s=%r" % (text, name, dval)
                self.code_arg, self.code_kw = "%r" % text, ["%s=%r" % (name, dval)]
            elif form == "obj":
                self.arg, self.kw = E.formula(label), {}
                self.code = "formula(%r)" % label
            else:
                raise MachineryError("unknown form %r" % (form,))
        elif kind == "fasta":
            _, table, key = desc
            m = getattr(E.fasta, table)[key]
            self.molecule = m
            self.label, self.form = "%s[%r]" % (table, key), "molecule"
            f = m.labile_formula
            self.pairs = list(f.atoms.items())
            self.rho = R.density_from_volume(self.pairs, m.cell_volume, E.NA)
            self.dclass = "vol"
            self.arg, self.kw = f, {}
            self.code = "fasta.%s[%r].labile_formula" % (table, key)
        else:
            raise MachineryError("unknown item %r" % (desc,))
        self.n_labile = sum(n for a, n in self.pairs if a is E.H1)
        self.lclass = "labile=0" if self.n_labile == 0 else "labile>0"

    def case(self, probe, **extra):
        c = dict(item=list(self.desc), probe=list(probe))
        c.update(extra)
        return c


class Ref(object):
    """Reference values for one item at one probe (wavelength / energy)."""
    def __init__(self, E, item, probe, acc, rho=None):
        self.E, self.item, self.probe = E, item, _beam(probe)
        self.acc = acc
        self.rho = item.rho if rho is None else rho     # density of the compound as written, for this call
        self._direct = {}

    def direct(self, d):
        """(re, im, scale_re, atoms, density) of the directly substituted compound."""
        if d not in self._direct:
            E, it = self.E, self.item
            atoms, _ = R.substitute(it.pairs, E.H1, E.H, E.D, d)
            rho = R.substituted_density(it.pairs, self.rho, atoms)
            self.acc.evaluations += 1
            s = E.nsf.neutron_sld(atoms, density=rho, **_kw(self.probe))
            re, im = _pair(s)
            self._direct[d] = (re, im, R.re_scale(atoms, rho, E.NA, E.b_re), atoms, rho)
        return self._direct[d]


def measure_solvent(E, acc, tier, probe):
    """Densities of the two waters the implementation mixes (measured once per process), and the
    solvent reference (re, im, scale) of either water at this probe.  None if it cannot be measured."""
    if "rho" not in E._solvent:
        label = compounds(tier)[CANONICAL][0]
        rho = {}
        for heavy in (False, True):
            unit = E.nsf.neutron_sld(dict(E.water[heavy]), density=1.0)
            try:
                got = E.nsf.D2O_sld(label, volume_fraction=0, D2O_fraction=1 if heavy else 0)
                rho[heavy] = float(got[0]) / float(unit[0])
            except Exception as e:
                acc.violation("raises:D2O_sld:%s" % type(e).__name__,
                              dict(item=["design", CANONICAL, "str"], probe=["default", None], d=int(heavy), v=0),
                              expected="a solvent SLD", observed="%s: %s" % (type(e).__name__, e),
                              standalone="from periodictable import nsf\nprint(nsf.D2O_sld(%r, volume_fraction=0, "
                                         "D2O_fraction=%d))\n" % (label, int(heavy)))
                E._solvent["rho"] = None
                return None
        E._solvent["rho"] = rho
        m_h, m_d = R.mass(E.water[False]), R.mass(E.water[True])
        want = {False: H2O_20C, True: H2O_20C * m_d / m_h}
        for heavy, band, name in ((False, BAND_H2O, "H2O"), (True, BAND_D2O, "D2O")):
            if not abs(rho[heavy] - want[heavy]) <= band * want[heavy]:
                acc.violation("solvent-density:%s-not-water-at-20C" % name,
                              dict(item=["design", CANONICAL, "str"], probe=["default", None], d=int(heavy), v=0),
                              expected="%s at %.5g g/cm3 +- %g %%" % (name, want[heavy], 100 * band),
                              observed="SLD of %s at %.6g g/cm3" % (name, rho[heavy]),
                              standalone="from periodictable import nsf\nprint(nsf.D2O_sld(%r, volume_fraction=0, "
                                         "D2O_fraction=%d), nsf.neutron_sld(%r, density=%r))\n"
                                         % (label, int(heavy), name, want[heavy]))
        acc.info["max_solvent_density_H2O"] = rho[False]
        acc.info["max_solvent_density_D2O"] = rho[True]
    rho = E._solvent["rho"]
    if rho is None:
        return None
    probe = _beam(probe)
    key = tuple(probe)
    if key not in E._solvent:
        out = {}
        for heavy in (False, True):
            s = E.nsf.neutron_sld(dict(E.water[heavy]), density=rho[heavy], **_kw(probe))
            re, im = _pair(s)
            out[heavy] = (re, im, R.re_scale(dict(E.water[heavy]), rho[heavy], E.NA, E.b_re))
        E._solvent[key] = out
    return E._solvent[key]


def _snippet(E, item, probe, v, d, ref=None, match=False):
    lines = ["import periodictable as pt", "from periodictable import nsf, fasta, formula"]
    lines += list(getattr(item, "pre", []))
    pk = _kwsrc_probe(probe)
    if match:
        lines.append("d, sld = nsf.D2O_match(%s, %s)" % (item.code, pk))
        lines.append("print(d, sld, [nsf.D2O_sld(%s, volume_fraction=v, D2O_fraction=d, %s)[0] for v in (0, 0.3, 1)])"
                     % (item.code, pk))
    else:
        lines.append("print(nsf.D2O_sld(%s, volume_fraction=%r, D2O_fraction=%r, %s))" % (item.code, v, d, pk))
    if ref is not None:
        _, _, _, atoms, rho = ref.direct(d if not match else 0)
        ad = "{%s}" % ", ".join("%s: %r" % (E.pyname(a), n) for a, n in atoms.items())
        lines.append("# the compound with its labile H substituted directly, same cell volume%s:"
                     % (" (energy given: the wavelength is ignored)" if probe[0] == "both" else ""))
        lines.append("print(nsf.neutron_sld(%s, density=%r, %s))" % (ad, rho, _kwsrc_probe(_beam(probe))))
    if item.molecule is not None:
        m = item.code.replace(".labile_formula", "")
        lines.append("m = %s; print(m.sld, m.Dsld, m.D2Omatch, m.D2Osld(%r, %r))" % (m, v, d))
    return "\n".join(lines) + "\n"


def _mix_class(v):
    return "direct-substitution" if v == 1 else "solvent-mixture" if v == 0 else "volume-linear"


def check_item_probe(E, acc, item, probe, grid, tier, judge_molecule, positional=False):
    """All grid points, the match point and (once) the Molecule attributes of one item at one probe.
    Returns False after the first violation (no exploration beyond a violating state).
    A probe ('both', E, w) passes energy=E and wavelength=w in the same call; the reference is the beam of the
    energy (the caller runs the energy-only probe first and names violations after the combination).
    positional: every grid point is also computed as D2O_sld(compound, v, d, ...) - the two fractions by position,
    in the order the docstring gives them."""
    nsf = E.nsf
    if probe[0] == "both":
        acc = _Renamed(acc, "energy-and-wavelength-given:")
    solvent = measure_solvent(E, acc, tier, probe)
    if solvent is None:
        return False
    ref = Ref(E, item, probe, acc)
    pk = _kw(probe)
    (wre, wim, wsc), (hre, him, hsc) = solvent[False], solvent[True]
    m = item.molecule if judge_molecule else None

    def expected(v, d):
        dre, dim, dsc = ref.direct(d)[:3]
        sre = d * hre + (1 - d) * wre
        sim = d * him + (1 - d) * wim
        ssc = d * hsc + (1 - d) * wsc
        return (v * dre + (1 - v) * sre, v * dim + (1 - v) * sim, v * dsc + (1 - v) * ssc)

    # elementary relations first (pure solute, pure solvent), so that a violation is named after its cause
    v_order = sorted(grid["v"], key=lambda v: (0 if v == 1 else 1 if v == 0 else 2, v))
    for d in grid["d"]:
        for v in v_order:
            acc.states += 1
            if item.n_labile > 0 and d > 0:
                acc.nontrivial += 1
            ere, eim, esc = expected(v, d)
            case = item.case(probe, d=d, v=v)
            kw = dict(item.kw); kw.update(pk)
            acc.evaluations += 1
            acc.transitions += 1
            try:
                got = nsf.D2O_sld(item.arg, volume_fraction=v, D2O_fraction=d, **kw)
                gre, gim = _pair(got)
            except Exception as e:
                acc.violation("raises:D2O_sld:%s" % type(e).__name__, case,
                              expected=[ere, eim], observed="%s: %s" % (type(e).__name__, e),
                              standalone=_snippet(E, item, probe, v, d, ref))
                return False
            rule = _mix_class(v)
            cls = "%s:%s" % (item.lclass, item.dclass) if v != 0 else "any"
            if not _close_scaled(gre, ere, esc):
                acc.violation("%s:real:%s" % (rule, cls), case, expected=[ere, eim], observed=[gre, gim],
                              standalone=_snippet(E, item, probe, v, d, ref),
                              detail="scale of the real-part terms %.6g" % esc)
                return False
            if not _close_rel(gim, eim):
                acc.violation("%s:imag:%s" % (rule, cls), case, expected=[ere, eim], observed=[gre, gim],
                              standalone=_snippet(E, item, probe, v, d, ref))
                return False
            acc.outcome("%s:%s:ok" % (rule, item.lclass))
            if probe[0] == "both":
                acc.outcome("energy-and-wavelength-given:%s:%s:ok" % (
                    "same-beam" if _close_rel(wavelength_of_energy(probe[1]), probe[2]) else "other-wavelength", rule))
            if positional:
                acc.evaluations += 1
                acc.transitions += 1
                pcase = dict(case, positional=True)
                snip_p = (_snippet(E, item, probe, v, d, ref) + "print(nsf.D2O_sld(%s))\n" % ", ".join(
                    [getattr(item, "code_arg", item.code), repr(v), repr(d)] + list(getattr(item, "code_kw", []))
                    + ([_kwsrc_probe(probe)] if probe[0] != "default" else [])))
                try:
                    pre_, pim_ = _pair(nsf.D2O_sld(item.arg, v, d, **kw))
                except Exception as e:
                    acc.violation("positional-fractions:D2O_sld:raises:%s" % type(e).__name__, pcase,
                                  expected=[gre, gim], observed="%s: %s" % (type(e).__name__, e), standalone=snip_p)
                    return False
                if not _close_scaled(pre_, ere, esc) or not _close_rel(pim_, eim):
                    acc.violation("positional-fractions:D2O_sld:differs-from-keywords", pcase, expected=[gre, gim],
                                  observed=[pre_, pim_], standalone=snip_p,
                                  detail="expected = D2O_sld(compound, volume_fraction=%r, D2O_fraction=%r), observed = "
                                         "D2O_sld(compound, %r, %r)" % (v, d, v, d))
                    return False
                acc.outcome("positional-fractions:%s:ok" % ("distinguishing" if v != d else "v=d"))
            if probe[0] == "energy":
                # the same beam given as a wavelength (own conversion h^2 / (2 m_n lambda^2)) is the same calculation
                wl = wavelength_of_energy(probe[1])
                kw2 = dict(item.kw); kw2["wavelength"] = wl
                acc.evaluations += 1
                acc.transitions += 1
                snip2 = (_snippet(E, item, probe, v, d, ref) + "print(nsf.D2O_sld(%s, volume_fraction=%r, D2O_fraction=%r, "
                         "wavelength=%r))\n" % (item.code, v, d, wl))
                try:
                    wre_, wim_ = _pair(nsf.D2O_sld(item.arg, volume_fraction=v, D2O_fraction=d, **kw2))
                except Exception as e:
                    acc.violation("raises:D2O_sld:%s" % type(e).__name__, dict(case, equivalent_wavelength=wl),
                                  expected=[gre, gim], observed="%s: %s" % (type(e).__name__, e), standalone=snip2)
                    return False
                if not _close_scaled(wre_, gre, esc) or not _close_rel(wim_, gim):
                    acc.violation("energy-vs-equivalent-wavelength:D2O_sld:%s" %
                                  ("real" if not _close_scaled(wre_, gre, esc) else "imag"),
                                  dict(case, equivalent_wavelength=wl), expected=[wre_, wim_], observed=[gre, gim],
                                  standalone=snip2, detail="expected = the call with wavelength=%r, observed = the call "
                                  "with energy=%r" % (wl, probe[1]))
                    return False
                acc.outcome("energy-vs-equivalent-wavelength:%s:ok" % rule)
            if m is not None:
                acc.evaluations += 1
                acc.transitions += 1
                try:
                    mre = float(m.D2Osld(volume_fraction=v, D2O_fraction=d))
                except Exception as e:
                    acc.violation("molecule:D2Osld:raises:%s" % type(e).__name__, case, expected=ere,
                                  observed="%s: %s" % (type(e).__name__, e),
                                  standalone=_snippet(E, item, probe, v, d, ref))
                    return False
                if not _close_scaled(mre, ere, esc):
                    acc.violation("molecule:D2Osld:%s" % rule, case, expected=ere, observed=mre,
                                  standalone=_snippet(E, item, probe, v, d, ref))
                    return False
                acc.outcome("molecule:D2Osld:%s:ok" % rule)

    # ---- match point
    h0, s0 = ref.direct(0)[0], ref.direct(0)[2]
    h1, s1 = ref.direct(1)[0], ref.direct(1)[2]
    solute_scale, solvent_scale = max(s0, s1), max(wsc, hsc)
    slope = (h1 - h0) + (wre - hre)             # d(solute - solvent)/d(fraction), reference values
    degenerate = abs(slope) <= 1e-6 * (solute_scale + solvent_scale)

    def residual(p):
        """solute(p) - solvent(p) of the real parts and the scale of the terms involved."""
        solute = p * h1 + (1 - p) * h0
        solv = p * hre + (1 - p) * wre
        sc = (abs(p) + abs(1 - p)) * (solute_scale + solvent_scale)
        return solute, solv, sc

    if degenerate:
        acc.count("match_degenerate_not_judged")
    else:
        acc.states += 1
        if item.n_labile > 0:
            acc.nontrivial += 1
        case = item.case(probe, match=True)
        kw = dict(item.kw); kw.update(pk)
        acc.evaluations += 1
        acc.transitions += 1
        try:
            dstar, sstar = nsf.D2O_match(item.arg, **kw)
            dstar, sstar = float(dstar), float(sstar)
        except Exception as e:
            acc.violation("raises:D2O_match:%s" % type(e).__name__, case, expected="a match point",
                          observed="%s: %s" % (type(e).__name__, e),
                          standalone=_snippet(E, item, probe, 1, 0, ref, match=True))
            return False
        solute, solv, sc = residual(dstar)
        if not _close_scaled(solute, solv, sc):
            acc.violation("match-point:not-a-match:%s" % item.lclass, case,
                          expected="solute and solvent real SLD equal at the reported fraction",
                          observed=dict(fraction=dstar, solute=solute, solvent=solv),
                          standalone=_snippet(E, item, probe, 1, 0, ref, match=True))
            return False
        if not _close_scaled(sstar, solute, sc):
            acc.violation("match-point:reported-sld:%s" % item.lclass, case, expected=solute, observed=sstar,
                          standalone=_snippet(E, item, probe, 1, 0, ref, match=True))
            return False
        for v in grid["v"]:
            acc.evaluations += 1
            acc.transitions += 1
            try:
                g = float(nsf.D2O_sld(item.arg, volume_fraction=v, D2O_fraction=dstar, **kw)[0])
            except Exception as e:
                acc.violation("raises:D2O_sld-at-match:%s" % type(e).__name__, item.case(probe, match=True, v=v),
                              expected=sstar, observed="%s: %s" % (type(e).__name__, e),
                              standalone=_snippet(E, item, probe, 1, 0, ref, match=True))
                return False
            if not _close_scaled(g, sstar, sc):
                acc.violation("match-point:depends-on-volume-fraction", item.case(probe, match=True, v=v),
                              expected=sstar, observed=g,
                              standalone=_snippet(E, item, probe, 1, 0, ref, match=True))
                return False
        if probe[0] == "energy":
            wl = wavelength_of_energy(probe[1])
            kw2 = dict(item.kw); kw2["wavelength"] = wl
            acc.evaluations += 1
            acc.transitions += 1
            snip2 = (_snippet(E, item, probe, 1, 0, ref, match=True)
                     + "print(nsf.D2O_match(%s, wavelength=%r))\n" % (item.code, wl))
            try:
                d2, s2 = nsf.D2O_match(item.arg, **kw2)
                d2, s2 = float(d2), float(s2)
            except Exception as e:
                acc.violation("raises:D2O_match:%s" % type(e).__name__, dict(case, equivalent_wavelength=wl),
                              expected=[dstar, sstar], observed="%s: %s" % (type(e).__name__, e), standalone=snip2)
                return False
            if not (abs(d2 - dstar) * abs(slope) <= 2 * REL * sc and _close_scaled(s2, sstar, sc)):
                acc.violation("energy-vs-equivalent-wavelength:D2O_match", dict(case, equivalent_wavelength=wl),
                              expected=[d2, s2], observed=[dstar, sstar], standalone=snip2,
                              detail="expected = the call with wavelength=%r, observed = the call with energy=%r"
                                     % (wl, probe[1]))
                return False
        acc.outcome("match:%s:%s" % (item.lclass, "below-0" if dstar < 0 else "above-1" if dstar > 1 else "in-[0,1]"))

    # ---- the biomolecule class reports the same numbers
    if m is not None:
        case = item.case(probe, molecule=True)
        snip = _snippet(E, item, probe, 1, 0, ref)
        for name, want, sc in (("sld", h0, s0), ("Dsld", h1, s1)):
            acc.evaluations += 1
            acc.transitions += 1
            got = float(getattr(m, name))
            if not _close_scaled(got, want, sc):
                acc.violation("molecule:%s:%s" % (name, item.lclass), case, expected=want, observed=got, standalone=snip)
                return False
        acc.states += 1
        acc.evaluations += 1
        acc.transitions += 1
        p = float(m.D2Omatch) / 100
        solute, solv, sc = residual(p)
        if not _close_scaled(solute, solv, sc):
            acc.violation("molecule:D2Omatch:not-a-match:%s" % item.lclass, case,
                          expected="solute and solvent real SLD equal at D2Omatch/100",
                          observed=dict(D2Omatch=100 * p, solute=solute, solvent=solv), standalone=snip)
            return False
        if not degenerate and not abs(p - dstar) * abs(slope) <= 2 * REL * sc:
            acc.violation("molecule:D2Omatch:differs-from-D2O_match", case, expected=100 * dstar, observed=100 * p,
                          standalone=snip)
            return False
        acc.outcome("molecule:attributes:ok")
    return True


# ---------------------------------------------------------------------------------------------
# histories: the caller's objects are used for several calculations
#
# A call    = (function and fractions, target object, density keyword, table keyword, probe).
# A history = call 1 on fresh objects, an optional in-place update by the caller, call 2 on the same objects.
# Targets: S  the compound as text ('@' density, or plain text when a density keyword is given),
#          Fd a Formula parsed with the default table, Fp a Formula parsed with a private table T that holds the
#          same data.  Judged are the calls whose meaning the statement fixes: text (with or without table=T),
#          Fd without table=, Fp with table=T.  Fd with table=T and Fp without table= (the atoms of the formula are
#          not the H[1] of the table the substitution looks for) are executed as history only.
HIST = dict(
    quick=dict(compounds=(1, 2, 7, 8),
               first=(("sld", 0.3, 0.5), ("match",)), second=(("sld", 1, 0.5), ("match",))),
    thorough=dict(compounds=None,
                  first=(("sld", 0.3, 0.5), ("sld", 1, 1), ("match",)),
                  second=(("sld", 1, 0.5), ("sld", 0.3, 1), ("match",))),
)
H_TARGETS = ("S", "Fd", "Fp")
H_DENSITY = (("own", None), ("density", 2.0), ("natural_density", 0.8))
H_TABLE = ("none", "T")
H_JUDGED = (("S", "none"), ("S", "T"), ("Fd", "none"), ("Fp", "T"))
H_CALLER_DENSITY = 1.7


def _skey(structure):
    """A formula structure with its atoms by identity (the same atom of another table is another atom)."""
    return tuple((float(c), _skey(x) if isinstance(x, (tuple, list)) else (id(x), str(x))) for c, x in structure)


def formula_state(f):
    """What a caller can read of a Formula: structure (atoms by identity), density, name, text - not private
    attributes the library may keep on its own objects."""
    return dict(structure=_skey(f.structure), density=f.density, name=f.name, text=str(f))


def state_diff(before, after):
    return [k for k in ("structure", "density", "name", "text") if before[k] != after[k]]


def hist_calls(fns, probes, judged_only):
    out = []
    for fn in fns:
        for target in H_TARGETS:
            for dk, _ in H_DENSITY:
                for tk in H_TABLE:
                    if judged_only and (target, tk) not in H_JUDGED:
                        continue
                    for probe in probes:
                        out.append((fn, target, dk, tk, probe))
    return out


def call_class(call):
    _, target, dk, tk, _ = call
    return "%s/%s/%s" % (target, dk, "table" if tk == "T" else "no-table")


def kw_class(call):
    """Which kinds of keyword the call carries (density= and natural_density= are one kind)."""
    kws = ([] if call[2] == "own" else ["density"]) + (["table"] if call[3] == "T" else [])
    return "+".join(kws) or "none"


def differs_in(c1, c2):
    names = ("fn", "object", "density", "table", "probe")
    d = [n for n, a, b in zip(names, c1, c2) if a != b and n in ("object", "density", "table")]
    return "+".join(d) or "nothing"


class HObjects(object):
    """Fresh caller-side objects of one history and the model of what they are."""
    def __init__(self, E, comp):
        self.label, self.text = comp[0], comp[1]
        self.Fd = E.formula(self.label)
        self.Fp = E.formula(self.label, table=E.private())
        self.model = dict(Fd=formula_state(self.Fd), Fp=formula_state(self.Fp))

    def intact(self):
        """[(object, changed fields)] for every caller-owned object that is no longer what the caller made it."""
        out = []
        for name in ("Fd", "Fp"):
            d = state_diff(self.model[name], formula_state(getattr(self, name)))
            if d:
                out.append((name, d))
        return out


class HistCheck(object):
    """All histories of one compound."""
    def __init__(self, E, acc, idx, tier):
        self.E, self.acc, self.idx, self.tier = E, acc, idx, tier
        self.comp = compounds("thorough")[idx]
        self.item = Item(E, ("design", idx, "str"), "thorough")
        self.refs = {}
        self.written = {}

    # -- model
    def rho_of(self, objs_own, call):
        """Density of the compound as written that this call is about."""
        _, target, dk, _, _ = call
        if dk == "own":
            return self.item.rho if target == "S" else objs_own[target]
        value = dict(H_DENSITY)[dk]
        return R.written_density(self.item.pairs, "iso" if dk == "density" else "nat", value)

    def ref(self, rho, probe):
        key = (rho, tuple(probe))
        if key not in self.refs:
            self.refs[key] = Ref(self.E, self.item, probe, self.acc, rho=rho)
        return self.refs[key]

    # -- the real thing
    def execute(self, objs, call):
        E = self.E
        fn, target, dk, tk, probe = call
        kw = dict(_kw(probe))
        if target == "S":
            arg = objs.label if dk == "own" else objs.text
        else:
            arg = getattr(objs, target)
        if dk != "own":
            kw[dk] = dict(H_DENSITY)[dk]
        if tk == "T":
            kw["table"] = E.private()
        self.acc.evaluations += 1
        if fn[0] == "sld":
            return E.nsf.D2O_sld(arg, volume_fraction=fn[1], D2O_fraction=fn[2], **kw)
        return E.nsf.D2O_match(arg, **kw)

    def code(self, call, objname):
        fn, target, dk, tk, probe = call
        arg = ("%r" % (self.comp[0] if dk == "own" else self.comp[1])) if target == "S" else objname[target]
        kws = []
        if fn[0] == "sld":
            kws += ["volume_fraction=%r" % fn[1], "D2O_fraction=%r" % fn[2]]
        if dk != "own":
            kws.append("%s=%r" % (dk, dict(H_DENSITY)[dk]))
        if tk == "T":
            kws.append("table=T")
        if probe[0] != "default":
            kws.append(_kwsrc_probe(probe))
        return "nsf.%s(%s)" % ("D2O_sld" if fn[0] == "sld" else "D2O_match", ", ".join([arg] + kws))

    def snippet(self, calls, update=None, rho=None):
        lines = ["import periodictable as pt", "from periodictable import nsf, formula, mass, density",
                 "from periodictable.core import PeriodicTable",
                 "T = PeriodicTable('private'); mass.init(T); density.init(T); nsf.init(T)   # same data as the default table",
                 "Fd = formula(%r); Fp = formula(%r, table=T)" % (self.comp[0], self.comp[0])]
        names = dict(Fd="Fd", Fp="Fp")
        for k, c in enumerate(calls):
            if k == len(calls) - 1 and update:
                if update == "caller-derives-2x-and-sets-density":
                    lines.append("%s = 2*%s" % (c[1], c[1]))
                lines.append("%s.density = %r          # the caller's own update" % (c[1], H_CALLER_DENSITY))
            lines.append("print(%s)" % self.code(c, names))
            lines.append("print('  Fd:', Fd, Fd.density, 'has the H[1] of the default table:', pt.H[1] in Fd.atoms, "
                         "' Fp:', Fp, Fp.density, 'has the H[1] of T:', T.H[1] in Fp.atoms)")
        if rho is not None:
            last = calls[-1]
            d = last[0][2] if last[0][0] == "sld" else 0
            _, _, _, atoms, rr = self.ref(rho, last[4]).direct(d)
            ad = "{%s}" % ", ".join("%s: %r" % (self.E.pyname(a), n) for a, n in atoms.items())
            lines.append("# the compound of the last call with its labile H substituted directly, same cell volume:")
            lines.append("print(nsf.neutron_sld(%s, density=%r%s))"
                         % (ad, rr, "" if last[4][0] == "default" else ", " + _kwsrc_probe(_beam(last[4]))))
        return "\n".join(lines) + "\n"

    def verdict(self, call, rho, got):
        """None if the result is what the statement says for the compound at density rho, else
        (part, expected, observed)."""
        E, item = self.E, self.item
        fn, probe = call[0], call[4]
        solvent = measure_solvent(E, self.acc, "thorough", probe)
        if solvent is None:
            raise MachineryError("solvent cannot be measured")
        ref = self.ref(rho, probe)
        (wre, wim, wsc), (hre, him, hsc) = solvent[False], solvent[True]
        if fn[0] == "sld":
            _, v, d = fn
            gre, gim = _pair(got)
            dre, dim, dsc = ref.direct(d)[:3]
            ere = v * dre + (1 - v) * (d * hre + (1 - d) * wre)
            eim = v * dim + (1 - v) * (d * him + (1 - d) * wim)
            esc = v * dsc + (1 - v) * (d * hsc + (1 - d) * wsc)
            if not _close_scaled(gre, ere, esc):
                return ("real", [ere, eim], [gre, gim])
            if not _close_rel(gim, eim):
                return ("imag", [ere, eim], [gre, gim])
            return None
        h0, s0 = ref.direct(0)[0], ref.direct(0)[2]
        h1, s1 = ref.direct(1)[0], ref.direct(1)[2]
        solute_scale, solvent_scale = max(s0, s1), max(wsc, hsc)
        slope = (h1 - h0) + (wre - hre)
        if abs(slope) <= 1e-6 * (solute_scale + solvent_scale):
            self.acc.count("match_degenerate_not_judged")
            return None
        dstar, sstar = float(got[0]), float(got[1])
        solute = dstar * h1 + (1 - dstar) * h0
        solv = dstar * hre + (1 - dstar) * wre
        sc = (abs(dstar) + abs(1 - dstar)) * (solute_scale + solvent_scale)
        if not _close_scaled(solute, solv, sc):
            return ("match-fraction", "solute and solvent real SLD equal at the reported fraction",
                    dict(fraction=dstar, solute=solute, solvent=solv))
        if not _close_scaled(sstar, solute, sc):
            return ("match-sld", solute, sstar)
        return None

    def judged(self, call):
        return (call[1], call[3]) in H_JUDGED

    def run_call(self, objs, own, call, case, calls_so_far, update, signature):
        """Execute one call of a history; judge it if its meaning is fixed; the caller's objects must be intact.
        Returns False after a violation."""
        acc = self.acc
        acc.transitions += 1
        fname = "D2O_sld" if call[0][0] == "sld" else "D2O_match"
        rho = self.rho_of(own, call)
        try:
            got = self.execute(objs, call)
            err = None
        except Exception as e:
            got, err = None, "%s: %s" % (type(e).__name__, e)
        changed = objs.intact()
        if changed:
            name, fields = changed[0]
            which = "passed" if name == call[1] else "other"
            acc.violation("argument-altered:%s-formula-%s:keywords=%s" % (which, "+".join(fields), kw_class(call)),
                          case, expected=repr(dict((k, v) for k, v in objs.model[name].items() if k != "structure")),
                          observed=repr(dict((k, v) for k, v in formula_state(getattr(objs, name)).items()
                                             if k != "structure")),
                          standalone=self.snippet(calls_so_far + [call], update),
                          detail="changed: %s of %s (structure = atoms by identity: an atom of another table is "
                                 "another atom)" % (", ".join(fields), name))
            return False
        if not self.judged(call):
            acc.outcome("history-only-call:%s" % call_class(call))
            return True
        if err is not None:
            acc.violation(signature, dict(case, part="raises"), expected="a result", observed=err,
                          standalone=self.snippet(calls_so_far + [call], update, rho))
            return False
        bad = self.verdict(call, rho, got)
        if bad is not None:
            part, expected, observed = bad
            acc.violation(signature, dict(case, part=part), expected=expected, observed=observed,
                          standalone=self.snippet(calls_so_far + [call], update, rho))
            return False
        return True

    def case(self, first, update, second):
        c = dict(unit="history", compound=self.idx, label=self.comp[0])
        if first is not None:
            c["first"] = _call_json(first)
        if update:
            c["update"] = update
        c["second"] = _call_json(second)
        return c

    def single(self, call, signature=None):
        """The call alone on fresh objects."""
        objs = HObjects(self.E, self.comp)
        own = dict(Fd=self.item.rho, Fp=self.item.rho)
        self.acc.states += 1
        if self.judged(call) and self.item.n_labile > 0:
            self.acc.nontrivial += 1
        return self.run_call(objs, own, call, self.case(None, None, call), [], None,
                             signature or "single-call:%s" % call_class(call))

    def history(self, first, update, second):
        E, acc = self.E, self.acc
        objs = HObjects(E, self.comp)
        own = dict(Fd=self.item.rho, Fp=self.item.rho)
        acc.states += 1
        if self.item.n_labile > 0:
            acc.nontrivial += 1
        case = self.case(first, update, second)
        if not self.run_call(objs, own, first, case, [], None, "history:first-call-differs-from-the-call-alone"):
            return False
        if update:
            target = second[1]
            if update == "caller-derives-2x-and-sets-density":
                # the caller goes on with n*f (made by copying f, private attributes included); the SLD of a
                # compound at a given density does not change when every count is doubled
                g = 2 * getattr(objs, target)
                if g.atoms != dict((a, 2 * n) for a, n in getattr(objs, target).atoms.items()):
                    acc.count("histories_update_not_applicable_not_judged")     # formula arithmetic is C02's business
                    return True
                setattr(objs, target, g)
            getattr(objs, target).density = H_CALLER_DENSITY        # the caller's own, legitimate, update
            own[target] = H_CALLER_DENSITY
            objs.model[target] = formula_state(getattr(objs, target))
        sig = "history:result-depends-on-earlier-call:differs-in=%s%s" % (
            differs_in(first, second), ":after-%s" % update if update else "")
        ok = self.run_call(objs, own, second, case, [first], update, sig)
        if ok:
            acc.outcome("history:%s-after-%s:ok" % (call_class(second), call_class(first)))
        return ok


def _call_json(call):
    fn, target, dk, tk, probe = call
    return [list(fn), target, dk, tk, list(probe)]


def _call_from_json(j):
    return (tuple(j[0]), j[1], j[2], j[3], tuple(j[4]))


P0, P1, P2 = ("default", None), ("wavelength", 6), ("energy", 5.0)
P3 = ("both", 5.0, 6)            # energy= and wavelength= in one call: the beam of P2 with the wavelength of P1 to ignore


def hist_plan(tier):
    """(compound indices, calls executed alone, histories).  Histories: every first call x every judged second call
    at the default wavelength (with and without the caller's own density update where the second call uses the
    object's own density), plus, for every judged call, the histories that differ in the probe only."""
    h = HIST[tier]
    idxs = h["compounds"]
    if idxs is None:
        idxs = [i for i in range(len(compounds("thorough")))]
    firsts = hist_calls(h["first"], (P0,), judged_only=False)
    seconds = hist_calls(h["second"], (P0,), judged_only=True)
    hist = []
    for a in firsts:
        for b in seconds:
            hist.append((a, None, b))
            if b[1] in ("Fd", "Fp") and b[2] == "own":
                hist.append((a, "caller-sets-density", b))
                hist.append((a, "caller-derives-2x-and-sets-density", b))
    for b0 in seconds:
        b1 = b0[:4] + (P1,)
        b2 = b0[:4] + (P2,)
        b3 = b0[:4] + (P3,)
        hist += [(b0, None, b1), (b1, None, b0), (b1, None, b1),
                 (b0, None, b2), (b2, None, b0), (b1, None, b2), (b2, None, b1),
                 (b0, None, b3), (b3, None, b0), (b1, None, b3), (b3, None, b1), (b2, None, b3), (b3, None, b2)]
    alone = sorted(set(firsts) | set(seconds) | set(b[:4] + (P1,) for b in seconds)
                   | set(b[:4] + (P2,) for b in seconds) | set(b[:4] + (P3,) for b in seconds), key=repr)
    return list(idxs), alone, hist


def _alone_shard(args):
    """Every call of the alphabet ALONE: each in its own fork of this worker, which has not calculated anything,
    so that no earlier call can have left anything behind.  Returns (compound, calls that are wrong alone, Acc)."""
    idx, tier = args
    _, alone, _ = hist_plan(tier)
    acc = Acc()
    bad = []
    fine = set()
    for call in sorted(alone, key=lambda c: ((0 if c[4] == P0 else 2 if c[4][0] == "both" else 1), repr(c))):
        # a call that is right with the default beam and wrong with the beam given: the cause is the beam keyword;
        # right with energy= alone and wrong with energy= and wavelength= together: the cause is the combination
        sig = None
        if call[4][0] == "both" and call[:4] + (("energy", call[4][1]),) in fine:
            sig = "single-call:energy-and-wavelength-given"
        elif call[4] != P0 and call[:4] + (P0,) in fine:
            # (energy= alone already wrong: the combined call fails for the same reason)
            sig = "single-call:beam-given-as-%s" % ("energy" if call[4][0] == "both" else call[4][0])
        def one(call=call, sig=sig):
            a = Acc()
            return HistCheck(Env(), a, idx, tier).single(call, sig), a
        ok, a = in_fork(one)
        acc.merge(a)
        if ok:
            fine.add(call)
        else:
            bad.append(call)
    acc.traces = acc.transitions
    return idx, bad, acc


def _hist_shard(args):
    """A part of the histories of one compound.  Calls that are wrong alone are not used.  After the first
    violation the worker stops: whatever was left behind may be anywhere in this process."""
    idx, tier, part, nparts, alone_bad = args
    E = Env()
    acc = Acc()
    hc = HistCheck(E, acc, idx, tier)
    _, alone, hist = hist_plan(tier)
    bad = set(alone_bad)
    for first, update, second in hist[part::nparts]:
        if first in bad or second in bad:
            acc.count("histories_skipped_call_wrong_alone")
            continue
        if not hc.history(first, update, second):
            break
    if part == 0:
        acc.sample(dict(unit="history", label=hc.comp[0], calls=len(alone), histories=len(hist)))
    acc.traces = acc.transitions
    return acc


def argument_intact(E, acc, item, before, fname, kwclass, case, code=None):
    """The Formula object handed to the library (item.arg) is what it was."""
    fields = state_diff(before, formula_state(item.arg))
    if not fields:
        return True
    lines = ["import periodictable as pt", "from periodictable import nsf, fasta, formula, mass, density",
             "from periodictable.core import PeriodicTable",
             "T = PeriodicTable('private'); mass.init(T); density.init(T); nsf.init(T)   # same data as the default table",
             "f = %s" % item.code, "print(f, f.density, pt.H[1] in f.atoms)"]
    lines += code or ["for d in (0, 0.5, 1): nsf.D2O_sld(f, volume_fraction=0.3, D2O_fraction=d)", "nsf.D2O_match(f)"]
    lines.append("print(f, f.density, pt.H[1] in f.atoms)")
    acc.violation("argument-altered:passed-formula-%s:keywords=%s" % ("+".join(fields), kwclass), case,
                  expected=repr(dict((k, v) for k, v in before.items() if k != "structure")),
                  observed=repr(dict((k, v) for k, v in formula_state(item.arg).items() if k != "structure")),
                  standalone="\n".join(lines) + "\n",
                  detail="changed: %s (structure = atoms by identity: an atom of another table is another atom)"
                         % ", ".join(fields))
    return False


class _Renamed(object):
    """An Acc whose violation signatures get a prefix (the cause is the history that went before)."""
    def __init__(self, acc, prefix):
        object.__setattr__(self, "_acc", acc)
        object.__setattr__(self, "_prefix", prefix)

    def violation(self, signature, *a, **k):
        return self._acc.violation(self._prefix + signature, *a, **k)

    def __getattr__(self, name):
        return getattr(self._acc, name)

    def __setattr__(self, name, value):
        setattr(self._acc, name, value)


# calls with keywords on the labile formula of a table molecule (history only), then the molecule is judged again
MOLECULE_EVENTS = (
    ("D2O_match", dict(), ("table",)),
    ("D2O_sld", dict(volume_fraction=0.5, D2O_fraction=0.5), ("table",)),
    ("D2O_sld", dict(volume_fraction=1, D2O_fraction=0.5, density=1.1), ()),
    ("D2O_match", dict(natural_density=0.9), ()),
    ("D2O_sld", dict(volume_fraction=0.3, D2O_fraction=1, natural_density=1.3), ("table",)),
)
MOLECULE_REGRID = dict(d=(0, 0.5, 1), v=(1, 0.3), probes=(("wavelength", 1.798),))


def molecule_history(E, acc, item, tier):
    """The labile formula of a table molecule is an object shared by everybody who uses the table: after calls
    that carry table= / density= / natural_density= keywords it must be what it was, and the molecule, its
    labile formula and nsf must still agree on match point and SLDs."""
    f = item.arg
    T = E.private()
    for fname, kw, extra in MOLECULE_EVENTS:
        before = formula_state(f)
        kwargs = dict(kw)
        if "table" in extra:
            kwargs["table"] = T
        acc.evaluations += 1
        acc.transitions += 1
        try:
            getattr(E.nsf, fname)(f, **kwargs)
        except Exception:
            acc.count("molecule_history_call_raised_not_judged")
        kwclass = "+".join((["density"] if "density" in kw or "natural_density" in kw else []) + list(extra)) or "none"
        call = "nsf.%s(f, %s)" % (fname, ", ".join(["%s=%r" % kv for kv in sorted(kw.items())]
                                                   + ["table=T" for _ in extra]))
        if not argument_intact(E, acc, item, before, fname, kwclass,
                               dict(unit="molecule-history", item=list(item.desc), event=[fname, kwclass]), [call]):
            return False
    acc.states += 1
    if item.n_labile > 0:
        acc.nontrivial += 1
    ok = check_item_probe(E, _Renamed(acc, "after-keyword-calls-on-labile_formula:"), item, ("wavelength", 1.798),
                          MOLECULE_REGRID, tier, True)
    if ok:
        acc.outcome("molecule:after-keyword-calls:ok")
    return ok


# ---------------------------------------------------------------------------------------------
# construction histories: biomolecule objects built from objects that somebody else owns
#
# fasta.Molecule(name, formula, cell_volume=V | density=d) is handed a compound the CALLER owns (a Formula parsed
# once, with or without a density of its own; an atom dictionary; text) or the labile_formula of another molecule (an
# earlier one of the caller, a table entry that every user of the table shares, a Sequence).  A history = first
# construction, second construction from the same object (or from first.labile_formula) with every cell volume /
# natural density of a small list.  After every construction: the argument is what it was; the new molecule is
# judged by (1)-(5) with the composition as written and the cell volume / natural density of ITS construction;
# every earlier molecule reports what it reported before and is judged again, nsf route on its labile_formula included.
C_COMPOUNDS = (1, 2, 7, 0)
C_ARGS = ("formula", "formula+density", "atoms", "text")
C_SECOND = ("same-object", "first.labile_formula")
C_SPECS = (("cell_volume", 0), ("cell_volume", 1), ("density", 0), ("density", 1))
C_OWN_DENSITY = 0.77                       # the density the caller gave to his own Formula (not the molecule's)
C_NATURAL_DENSITY = (1.1, 1.35)
C_SEQUENCES = (("aa", "GAKKA"), ("dna", "ACGT"), ("rna", "ACGU"))
C_PROBE = ("wavelength", 1.798)            # Molecule attributes are defined at the default wavelength


def molecule_state(m):
    """What a user can read of a Molecule."""
    return dict(name=m.name, cell_volume=m.cell_volume, sld=m.sld, Dsld=m.Dsld, mass=m.mass, Dmass=m.Dmass,
                D2Omatch=m.D2Omatch, charge=m.charge, D2Osld=m.D2Osld(volume_fraction=0.3, D2O_fraction=0.5),
                labile_formula=formula_state(m.labile_formula), natural_formula=formula_state(m.natural_formula),
                same_formula=m.formula is m.labile_formula)


class MolItem(object):
    """A Molecule somebody constructed: what it is for the reference (composition as written, density from the
    arguments of its construction) and how the nsf route is called for it (its labile_formula)."""
    form, dclass, kw = "molecule", "vol", {}

    def __init__(self, E, m, pairs, rho, var, pre, case):
        self.molecule, self.pairs, self.rho = m, pairs, rho
        self.arg = m.labile_formula
        self.code = "%s.labile_formula" % var
        self.pre = pre
        self._case = case
        self.desc = ("built", var)
        self.label = var
        self.n_labile = sum(n for a, n in pairs if a is E.H1)
        self.lclass = "labile=0" if self.n_labile == 0 else "labile>0"

    def case(self, probe, **extra):
        return dict(self._case)


def _spec_kw(E, pairs, rho0, spec):
    """(keyword dict of the construction, density of the compound as written that it means)."""
    kind, k = spec
    if kind == "cell_volume":
        v0 = round(R.mass(pairs) / E.NA / rho0 * 1e24, 1)
        V = v0 if k == 0 else round(1.12 * v0, 1)
        return dict(cell_volume=V), R.density_from_volume(pairs, V, E.NA)
    d = C_NATURAL_DENSITY[k]
    return dict(density=d), R.written_density(pairs, "nat", d)


def _kwsrc(kw):
    return ", ".join("%s=%r" % kv for kv in sorted(kw.items()))


class Construction(object):
    """One history of constructions; stops at its first violation."""
    def __init__(self, E, acc, case):
        self.E, self.acc, self.case = E, acc, case
        self.pre = []
        self.built = []            # (variable, molecule, MolItem, state when built)

    def construct(self, var, arg, argsrc, argkind, owner_state, kw, pairs, rho):
        """-> the new molecule, or None after a violation.  owner_state() -> comparable state of the argument."""
        E, acc = self.E, self.acc
        before = owner_state() if owner_state else None
        acc.evaluations += 1
        acc.transitions += 1
        line = "%s = fasta.Molecule(%r, %s, %s)" % (var, var, argsrc, _kwsrc(kw))
        try:
            m = E.fasta.Molecule(var, arg, **kw)
        except Exception as e:
            acc.violation("molecule-construction:raises:%s:%s" % (type(e).__name__, argkind), self.case,
                          expected="a Molecule", observed="%s: %s" % (type(e).__name__, e),
                          standalone="\n".join(["import periodictable as pt", "from periodictable import nsf, fasta, formula"]
                                               + self.pre + [line]) + "\n")
            return None
        self.pre = self.pre + [line]
        if owner_state is not None:
            after = owner_state()
            if after != before:
                fields = [k for k in sorted(before) if before[k] != after.get(k)] if isinstance(before, dict) else ["items"]
                owner = "caller-formula" if argkind.startswith("formula") else argkind
                acc.violation("argument-altered:molecule-constructor:%s:%s" % (owner, "+".join(fields)), self.case,
                              expected=repr(dict((k, v) for k, v in before.items() if k != "structure")
                                            if isinstance(before, dict) else before),
                              observed=repr(dict((k, v) for k, v in after.items() if k != "structure")
                                            if isinstance(after, dict) else after),
                              standalone="\n".join(["import periodictable as pt", "from periodictable import nsf, fasta, formula"]
                                                   + self.pre + ["print(%s)" % (argsrc if argkind == "atoms" else
                                                                               "%s, %s.density, %s.name" % ((argsrc,) * 3))])
                                         + "\n",
                              detail="the object handed to fasta.Molecule is not what it was: %s" % ", ".join(fields))
                return None
        item = MolItem(E, m, pairs, rho, var, self.pre, self.case)
        if not self.judge(item, "new-molecule"):
            return None
        self.built.append((var, m, item, molecule_state(m)))
        return m

    def judge(self, item, which):
        item.pre = self.pre
        return check_item_probe(self.E, _Renamed(self.acc, "molecule-construction:%s:" % which), item, C_PROBE,
                                MOLECULE_REGRID, "thorough", True)

    def earlier_intact(self, which, upto=None):
        """every molecule built before the last construction reports what it reported and is still right"""
        for var, m, item, state in self.built[:upto]:
            now = molecule_state(m)
            if now != state:
                names = [k for k in sorted(state) if state[k] != now[k]]
                self.acc.violation("molecule-construction:%s:reports-changed:%s" % (which, "+".join(names)), self.case,
                                   expected=repr(dict((k, state[k]) for k in names)),
                                   observed=repr(dict((k, now[k]) for k in names)),
                                   standalone="\n".join(["import periodictable as pt",
                                                         "from periodictable import nsf, fasta, formula"] + self.pre
                                                        + ["print(%s.sld, %s.Dsld, %s.D2Omatch, %s.labile_formula.density, "
                                                           "nsf.D2O_match(%s.labile_formula))" % ((var,) * 5)]) + "\n")
                return False
            if not self.judge(item, which):
                return False
        return True


def construction_history(E, acc, idx, argkind, spec1, second, spec2):
    """Two molecules from one caller-owned object.  Returns False after a violation."""
    label, text, comp, dkind, dval = compounds("thorough")[idx]
    pairs = [(E.atom(k), n) for k, n in comp]
    rho0 = R.written_density(pairs, dkind, dval)
    case = dict(unit="construct", compound=idx, arg=argkind, first=list(spec1), second=[second, list(spec2)])
    acc.states += 1
    if sum(n for a, n in pairs if a is E.H1) > 0:
        acc.nontrivial += 1
    H = Construction(E, acc, case)
    if argkind == "formula":
        arg = E.formula(text)
        H.pre.append("f = formula(%r)" % text)
        state = lambda: formula_state(arg)
    elif argkind == "formula+density":
        arg = E.formula(text, density=C_OWN_DENSITY)
        H.pre.append("f = formula(%r, density=%r)" % (text, C_OWN_DENSITY))
        state = lambda: formula_state(arg)
    elif argkind == "atoms":
        arg = dict(pairs)
        H.pre.append("f = {%s}" % ", ".join("%s: %r" % (E.pyname(a), n) for a, n in pairs))
        state = lambda: tuple((id(a), n) for a, n in arg.items())
    elif argkind == "text":
        arg = text
        H.pre.append("f = %r" % text)
        state = None
    else:
        raise MachineryError("argument kind %r" % (argkind,))
    kw1, rho1 = _spec_kw(E, pairs, rho0, spec1)
    m1 = H.construct("m1", arg, "f", argkind, state, kw1, pairs, rho1)
    if m1 is None:
        return False
    kw2, rho2 = _spec_kw(E, pairs, rho0, spec2)
    if second == "same-object":
        m2 = H.construct("m2", arg, "f", argkind, state, kw2, pairs, rho2)
    elif second == "first.labile_formula":
        lf = m1.labile_formula
        m2 = H.construct("m2", lf, "m1.labile_formula", "labile_formula-of-a-molecule", lambda: formula_state(lf),
                         kw2, pairs, rho2)
    else:
        raise MachineryError("second argument %r" % (second,))
    if m2 is None:
        return False
    if not H.earlier_intact("earlier-molecule-after-later-construction", upto=1):
        return False
    acc.outcome("construction:%s/%s then %s/%s:ok" % (argkind, spec1[0], second, spec2[0]))
    return True


def derivation_history(E, acc, m, code, desc, tier):
    """A variant with another cell volume / natural density is built from the labile_formula of an existing
    molecule (table entry or Sequence); the existing molecule must stay what it was and stay right."""
    f = m.labile_formula
    pairs = list(f.atoms.items())
    if m.cell_volume == 0 or not pairs:
        acc.count("derivation_from_empty_molecule_not_judged")
        return True
    case = dict(unit="derive", item=list(desc))
    acc.states += 1
    if any(a is E.H1 for a, n in pairs):
        acc.nontrivial += 1
    H = Construction(E, acc, case)
    H.pre.append("m0 = %s" % code)
    rho = R.density_from_volume(pairs, m.cell_volume, E.NA)
    item0 = MolItem(E, m, pairs, rho, "m0", H.pre, case)
    if not H.judge(item0, "existing-molecule"):
        return False
    H.built.append(("m0", m, item0, molecule_state(m)))
    V = 1.12 * m.cell_volume
    for k, (kw, rho_k) in enumerate(((dict(cell_volume=V), R.density_from_volume(pairs, V, E.NA)),
                                     (dict(density=C_NATURAL_DENSITY[1]),
                                      R.written_density(pairs, "nat", C_NATURAL_DENSITY[1])))):
        v = H.construct("v%d" % (k + 1), f, "m0.labile_formula", "labile_formula-of-a-molecule",
                        lambda: formula_state(f), kw, pairs, rho_k)
        if v is None:
            return False
        if not H.earlier_intact("existing-molecule-after-derivation", upto=1):
            return False
    acc.outcome("derivation:%s:ok" % desc[0])
    return True


def construction_plan():
    return [(a, s1, b, s2) for a in C_ARGS for s1 in C_SPECS for b in C_SECOND for s2 in C_SPECS]


def _construct_shard(args):
    idx, argkind, tier = args
    E = Env()
    acc = Acc()
    for a, s1, b, s2 in construction_plan():
        if a != argkind:
            continue
        if not construction_history(E, acc, idx, a, s1, b, s2):
            break
    else:
        if idx == C_COMPOUNDS[0] and argkind == C_ARGS[0]:
            for typ, seq in C_SEQUENCES:
                m = E.fasta.Sequence("sequence", seq, type=typ)
                if not derivation_history(E, acc, m, "fasta.Sequence('sequence', %r, type=%r)" % (seq, typ),
                                          ("sequence", typ, seq), tier):
                    break
    acc.traces = acc.transitions
    return acc


def items_for(tier):
    E = Env()
    out = []
    for i in range(len(compounds(tier))):
        for form in FORMS:
            out.append(("design", i, form))
    for t in TABLES:
        for key in sorted(getattr(E.fasta, t)):
            out.append(("fasta", t, key))
    return out


def _shard(args):
    descs, tier, first = args
    E = Env()
    acc = Acc()
    grid = grid_for(tier)
    for desc in descs:
        item = Item(E, desc, tier)
        acc.outcome("compound:%s:%s:%s" % (item.form if item.molecule is None else "molecule",
                                           item.dclass, "labile=%g" % item.n_labile
                                           if item.n_labile in (0, 1, 3) else "labile=n"))
        ok = True
        before = formula_state(item.arg) if item.form in ("obj", "molecule") else None
        for k, probe in enumerate(grid["probes"]):
            # Molecule attributes are defined at the default wavelength only: judge them at 1.798
            jm = item.molecule is not None and tuple(probe) == ("wavelength", 1.798)
            # the fractions by position: once per item, and with energy= and wavelength= together
            ok = check_item_probe(E, acc, item, probe, grid, tier, jm,
                                  positional=(k == 0 or probe == grid["probes"][-1]))
            if not ok:
                break
        if ok and before is not None:
            ok = argument_intact(E, acc, item, before, "D2O_sld/D2O_match", "none", dict(item=list(desc), grid=True))
        if ok and item.molecule is not None:
            ok = molecule_history(E, acc, item, tier)
        if ok and item.molecule is not None:
            ok = derivation_history(E, acc, item.molecule, item.code.replace(".labile_formula", ""), desc, tier)
        if ok and len(acc.samples) < 2:
            acc.sample(dict(item=list(desc), labile=item.n_labile, density=item.rho))
    acc.traces = acc.transitions
    return acc


def _dispatch(job):
    kind, args = job
    return (_hist_shard(args) if kind == "hist" else _alone_shard(args) if kind == "alone"
            else _construct_shard(args) if kind == "construct" else _shard(args))


def run(ctx):
    tier = ctx.tier
    items = items_for(tier)
    n_mol = sum(1 for d in items if d[0] == "fasta")
    ctx.acc.info["compounds_listed"] = len(compounds(tier))
    ctx.acc.info["fasta_molecules"] = n_mol
    items = rotate(items, ctx.seed)
    nshards = 16 if ctx.quick else 48
    jobs = [(part, tier, i == 0) for i, part in enumerate(chunks(items, nshards))]
    idxs, alone, hist = hist_plan(tier)
    res = ctx.pmap(_dispatch, [("alone", (idx, tier)) for idx in idxs] + [("grid", j) for j in jobs]
                   + [("construct", (idx, a, tier)) for idx in C_COMPOUNDS for a in C_ARGS])
    ctx.acc.info["construction_compounds"] = len(C_COMPOUNDS)
    ctx.acc.info["construction_histories_per_compound"] = len(construction_plan())
    bad = {}
    for r in res:
        if isinstance(r, tuple):
            bad[r[0]] = r[1]
            ctx.acc.merge(r[2])
    nparts = 5 if ctx.quick else 4
    ctx.pmap(_dispatch, [("hist", (idx, tier, k, nparts, bad[idx])) for k in range(nparts) for idx in idxs])
    ctx.acc.info["history_compounds"] = len(idxs)
    ctx.acc.info["history_calls_alone"] = len(alone)
    ctx.acc.info["histories_per_compound"] = len(hist)
    ctx.acc.traces = ctx.acc.transitions
    # every worker measured the same two solvent densities (merged by max): report them once
    g = grid_for(tier)
    ctx.acc.info["grid"] = dict(d=list(g["d"]), v=list(g["v"]), probes=[list(p) for p in g["probes"]])


def replay(ctx, case, signature=None):
    E = Env()
    if case.get("unit") == "history":
        hc = HistCheck(E, ctx.acc, case["compound"], "thorough")
        second = _call_from_json(case["second"])
        if case.get("first") is None:
            hc.single(second)
        else:
            hc.history(_call_from_json(case["first"]), case.get("update"), second)
        return
    if case.get("unit") == "construct":
        construction_history(E, ctx.acc, case["compound"], case["arg"], tuple(case["first"]), case["second"][0],
                             tuple(case["second"][1]))
        return
    if case.get("unit") == "derive":
        desc = tuple(case["item"])
        if desc[0] == "sequence":
            m = E.fasta.Sequence("sequence", desc[2], type=desc[1])
            derivation_history(E, ctx.acc, m, "fasta.Sequence('sequence', %r, type=%r)" % (desc[2], desc[1]), desc,
                               "thorough")
        else:
            item = Item(E, desc, "thorough")
            derivation_history(E, ctx.acc, item.molecule, item.code.replace(".labile_formula", ""), desc, "thorough")
        return
    if case.get("unit") == "molecule-history":
        item = Item(E, tuple(case["item"]), "thorough")
        molecule_history(E, ctx.acc, item, "thorough")
        return
    desc = tuple(case["item"])
    if case.get("grid"):
        item = Item(E, desc, "thorough")
        before = formula_state(item.arg)
        for probe in grid_for("quick")["probes"]:
            if not check_item_probe(E, ctx.acc, item, probe, grid_for("quick"), "thorough", False):
                return
        argument_intact(E, ctx.acc, item, before, "D2O_sld/D2O_match", "none", dict(item=list(desc), grid=True))
        return
    probe = tuple(case["probe"])
    # replay in the tier whose compound list contains the item (thorough is a superset)
    tier = "thorough"
    if probe[0] == "default":
        measure_solvent(E, ctx.acc, tier, ("wavelength", 1.798))
        return
    item = Item(E, desc, tier)
    grid = GRID["thorough"] if ctx.tier == "thorough" else GRID["quick"]
    # make sure the recorded point is on the grid that is replayed
    d, v = case.get("d"), case.get("v")
    grid = dict(d=tuple(sorted(set(grid["d"]) | ({d} if d is not None else set()))),
                v=tuple(sorted(set(grid["v"]) | ({v} if v is not None else set()))), probes=(probe,))
    check_item_probe(E, ctx.acc, item, probe, grid, tier,
                     item.molecule is not None and probe == ("wavelength", 1.798),
                     positional=bool(case.get("positional")))
