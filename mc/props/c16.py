"""C16 - D2O contrast matching agrees with direct substitution of labile hydrogen
(E1 over compounds x fractions; complete over the fasta tables; DESIGN section 4, C16).

State  = (compound, input form, D2O fraction d, solute volume fraction v, wavelength).
Oracle = (1) v = 1: real and imaginary part of nsf.D2O_sld equal nsf.neutron_sld of the compound the
             reference (mc/ref/contrast.py) builds by direct substitution: the n labile H[1] become
             d*n D and (1-d)*n natural H, same cell volume, density scaled by the mass;
         (2) v = 0: they equal the H2O/D2O solvent mixture d*SLD(D2O) + (1-d)*SLD(H2O), the same
             solvent for every compound; WHICH densities the two waters have is not in the statement:
             they are measured once (from the real parts at d = 0 and d = 1 of a solute-free case) and
             only required to be liquid water at 20 C (H2O 0.9982 +- 0.1 %, D2O the same molar volume
             +- 1 %); everything else is then compared at 1e-9;
         (3) 0 < v < 1: v*(1) + (1-v)*(2);
         (4) D2O_match: at the reported fraction d* solute and solvent real SLD coincide (written as a
             residual, never as a quotient), the reported SLD is that common value and
             D2O_sld(., v, d*)[0] equals it for every v;
         (5) fasta.Molecule (every entry of every table): .sld / .Dsld equal the direct substitution at
             d = 0 / 1 in the molecule's cell volume, .D2Omatch/100 is a match point in the sense of (4)
             and the same one as nsf.D2O_match(labile_formula), .D2Osld(v, d) equals (1)-(3) and the
             real part of nsf.D2O_sld(labile_formula, v, d)."""
import math

from ..common import Acc, load_pt, chunks, rotate, MachineryError
from ..ref import contrast as R

META = dict(
    level="model_checking", engine="E1",
    technique="bounded-exhaustive grid over compounds x input forms x D2O fraction x volume fraction x "
              "wavelength on the real calculators, complete sweep of the biomolecule tables, against a "
              "direct-substitution reference",
    rule=("every compound of the list (0, 1, 3, 4, n labile H[1]; with/without ordinary H and D; isotopic "
          "'@d' and natural '@dn' density) in every input form (string with '@', string + density keyword, "
          "Formula object) and every Molecule of the eight fasta tables, crossed with the full grid of D2O "
          "fractions, volume fractions and wavelengths, plus the match point of every compound x wavelength; "
          "a case is non-trivial when the compound has labile hydrogen and d > 0 (a substitution really "
          "happens) or, for match-point cases, when the compound has labile hydrogen"),
    bound=dict(
        quick="9 compounds (one with an energy-dependent absorber) x 3 input forms + all 99 molecules of the 8 fasta tables; D2O fraction "
              "{0, 0.08, 0.25, 0.5, 1} x volume fraction {0, 0.3, 1} x wavelength {1.798, 6} A; match point per "
              "compound x wavelength re-evaluated at volume fraction {0, 0.3, 1}",
        thorough="12 compounds (adds nested groups, a hydrogen-free salt) x 3 input "
                 "forms + all 99 molecules; D2O fraction {0, 0.04, 0.08, 0.25, 0.5, 0.75, 1} x volume fraction "
                 "{0, 0.1, 0.3, 0.5, 0.9, 1} x {wavelength 0.5, 1.798, 6, 12 A, energy 5 meV}; match points as in quick"),
    assumptions=[
        "atom masses and scattering lengths are the library's tables (C06/C07); the expected SLD of the substituted "
        "compound is the library's own neutron_sld on an atom dictionary and a density built by the reference "
        "(the second route the statement names), not Formula.replace / natural_density",
        "the statement does not say which densities the solvent waters have: they are measured from the "
        "implementation (real SLD at v=0, d=0 and d=1 of a hydrogen-free solute, divided by the real SLD of "
        "H2O / D2O at unit density) and required to lie within 0.1 % of 0.9982 g/cm3 (H2O, 20 C) and within 1 % "
        "of the density D2O has at the molar volume of that H2O (the measured 1.1050 g/cm3 is 0.4 % away); "
        "a slip of the solvent density smaller than that, made consistently in nsf and fasta, is not detected",
        "only the real and imaginary parts are judged (the statement names them; the docstring says the "
        "incoherent part is not consistent with a substituted compound)",
        "D2O fraction and volume fraction stay in [0, 1]; a match fraction outside [0, 1] is only used for real "
        "parts (the imaginary part is reported as a magnitude and is not linear through a sign change)",
        "compounds without a finite match point (labile hydrogen density equal to that of water, e.g. "
        "H[1]2O@0.9982n) are not in the alphabet; compounds without density (Formula.replace raises, C12) neither",
        "private tables are not in the alphabet (fasta documents that it ignores them; nsf marks the solvent "
        "table as TODO)",
        "Molecule values are compared with the cell volume the Molecule reports (tables give cell volumes); "
        "empty molecules (gap, masked) have volume 0, density 0 and SLD 0",
    ],
    level_text="every member of the stated finite grid was executed on the real D2O_sld / D2O_match / Molecule "
               "code and compared with the direct-substitution reference; the identities are polynomial "
               "(bilinear in d and v at fixed cell volume), so agreement on 5 x 3 points per compound leaves "
               "no room for a different bilinear form; nothing is claimed for compounds outside the list "
               "except through the small-scope argument (one labile species, one solvent)",
    level_note="trusted: the 60-line reference mc/ref/contrast.py; nsf.neutron_sld on an explicit atom "
               "dictionary with explicit density (C03); the library's mass and b_c tables",
)

REL = 1e-9
H2O_20C = 0.9982          # g/cm^3, liquid water at 20 C to the digits anybody quotes
BAND_H2O = 1e-3
BAND_D2O = 1e-2

# label, formula text, composition as written, density kind, density value
COMPOUNDS = [
    ("SiO2@2.2", "SiO2", [("Si", 1), ("O", 2)], "iso", 2.2),
    ("C3H4H[1]NO@1.29n", "C3H4H[1]NO", [("C", 3), ("H", 4), ("H[1]", 1), ("N", 1), ("O", 1)], "nat", 1.29),
    ("C27H45H[1]O@1.05", "C27H45H[1]O", [("C", 27), ("H", 45), ("H[1]", 1), ("O", 1)], "iso", 1.05),
    ("D2O@1n", "D2O", [("D", 2), ("O", 1)], "nat", 1.0),
    ("CH[1]4@0.4", "CH[1]4", [("C", 1), ("H[1]", 4)], "iso", 0.4),
    ("C2D6O@0.9", "C2D6O", [("C", 2), ("D", 6), ("O", 1)], "iso", 0.9),
    ("H[1]2O@1", "H[1]2O", [("H[1]", 2), ("O", 1)], "iso", 1.0),
    ("C4H3DH[1]3N2O2@1.4n", "C4H3DH[1]3N2O2",
     [("C", 4), ("H", 3), ("D", 1), ("H[1]", 3), ("N", 2), ("O", 2)], "nat", 1.4),
    # an energy-dependent absorber: the only kind of atom whose imaginary SLD depends on the wavelength
    ("Gd(OH[1])3@5", "Gd(OH[1])3", [("Gd", 1), ("O", 3), ("H[1]", 3)], "iso", 5.0),
    # tritium is an isotope like any other: only the atoms written H[1] are labile
    ("T2O@1.21", "T2O", [("T", 2), ("O", 1)], "iso", 1.21),
    ("C3H3T3H[1]2NO2@1.4n", "C3H3T3H[1]2NO2", [("C", 3), ("H", 3), ("T", 3), ("H[1]", 2), ("N", 1), ("O", 2)], "nat", 1.4),
]
COMPOUNDS_THOROUGH = COMPOUNDS + [
    ("C2(H[1]2O)3@1.1", "C2(H[1]2O)3", [("C", 2), ("H[1]", 6), ("O", 3)], "iso", 1.1),
    ("(CH3)2CHOH[1]@0.786n", "(CH3)2CHOH[1]", [("C", 3), ("H", 7), ("O", 1), ("H[1]", 1)], "nat", 0.786),
    ("NaCl@2.16", "NaCl", [("Na", 1), ("Cl", 1)], "iso", 2.16),
]
FORMS = ("str", "kw", "obj")
TABLES = ("AMINO_ACID_CODES", "NUCLEIC_ACID_COMPONENTS", "CARBOHYDRATE_RESIDUES", "LIPIDS",
          "RNA_BASES", "DNA_BASES", "RNA_CODES", "DNA_CODES")
CANONICAL = 0       # index of the hydrogen-free compound used to measure the solvent

GRID = dict(
    quick=dict(d=(0, 0.08, 0.25, 0.5, 1), v=(0, 0.3, 1),
               probes=(("wavelength", 1.798), ("wavelength", 6))),
    thorough=dict(d=(0, 0.04, 0.08, 0.25, 0.5, 0.75, 1), v=(0, 0.1, 0.3, 0.5, 0.9, 1),
                  probes=(("wavelength", 0.5), ("wavelength", 1.798), ("wavelength", 6), ("wavelength", 12),
                          ("energy", 5.0))),
)


def compounds(tier):
    return COMPOUNDS if tier == "quick" else COMPOUNDS_THOROUGH


class Env(object):
    def __init__(self):
        self.pt = pt = load_pt()
        from periodictable import nsf, fasta, formula, constants
        self.nsf, self.fasta, self.formula = nsf, fasta, formula
        self.NA = constants.avogadro_number
        self.H1, self.H, self.D, self.O = pt.H[1], pt.H, pt.D, pt.O
        self.water = {False: [(self.H, 2), (self.O, 1)], True: [(self.D, 2), (self.O, 1)]}
        self._solvent = {}

    def atom(self, key):
        if key == "H[1]":
            return self.H1
        return getattr(self.pt, key)

    def b_re(self, a):
        b = a.neutron.b_c
        return 0.0 if b is None else b

    def pyname(self, a):
        if hasattr(a, "isotope"):
            if a.symbol in ("D", "T"):
                return "pt.%s" % a.symbol
            return "pt.%s[%d]" % (a.element.symbol, a.isotope)
        return "pt.%s" % a.symbol


def _kw(probe):
    return {probe[0]: probe[1]}


def _pair(x):
    """(real, imaginary) of an SLD result as plain floats."""
    return float(x[0]), float(x[1])


def _close_scaled(a, b, scale):
    if math.isnan(a) or math.isnan(b) or math.isinf(a) or math.isinf(b):
        return False
    return abs(a - b) <= REL * max(abs(scale), abs(a), abs(b)) + 1e-300


def _close_rel(a, b):
    if math.isnan(a) or math.isnan(b) or math.isinf(a) or math.isinf(b):
        return False
    return abs(a - b) <= REL * max(abs(a), abs(b)) + 1e-300


# ---------------------------------------------------------------------------------------------
# the compound under test: how to call the library with it, and what it is for the reference
class Item(object):
    """One compound in one input form."""
    def __init__(self, E, desc, tier):
        self.desc = desc
        kind = desc[0]
        self.molecule = None
        if kind == "design":
            _, idx, form = desc
            label, text, comp, dkind, dval = compounds(tier)[idx]
            self.label, self.form = label, form
            self.pairs = [(E.atom(k), n) for k, n in comp]
            self.rho = R.written_density(self.pairs, dkind, dval)
            self.dclass = dkind
            if form == "str":
                self.arg, self.kw = label, {}
                self.code = "%r" % label
            elif form == "kw":
                name = "density" if dkind == "iso" else "natural_density"
                self.arg, self.kw = text, {name: dval}
                self.code = "%r, %s=%r" % (text, name, dval)
            elif form == "obj":
                self.arg, self.kw = E.formula(label), {}
                self.code = "formula(%r)" % label
            else:
                raise MachineryError("unknown form %r" % (form,))
        elif kind == "fasta":
            _, table, key = desc
            m = getattr(E.fasta, table)[key]
            self.molecule = m
            self.label, self.form = "%s[%r]" % (table, key), "molecule"
            f = m.labile_formula
            self.pairs = list(f.atoms.items())
            self.rho = R.density_from_volume(self.pairs, m.cell_volume, E.NA)
            self.dclass = "vol"
            self.arg, self.kw = f, {}
            self.code = "fasta.%s[%r].labile_formula" % (table, key)
        else:
            raise MachineryError("unknown item %r" % (desc,))
        self.n_labile = sum(n for a, n in self.pairs if a is E.H1)
        self.lclass = "labile=0" if self.n_labile == 0 else "labile>0"

    def case(self, probe, **extra):
        c = dict(item=list(self.desc), probe=list(probe))
        c.update(extra)
        return c


class Ref(object):
    """Reference values for one item at one probe (wavelength / energy)."""
    def __init__(self, E, item, probe, acc):
        self.E, self.item, self.probe = E, item, probe
        self.acc = acc
        self._direct = {}

    def direct(self, d):
        """(re, im, scale_re, atoms, density) of the directly substituted compound."""
        if d not in self._direct:
            E, it = self.E, self.item
            atoms, _ = R.substitute(it.pairs, E.H1, E.H, E.D, d)
            rho = R.substituted_density(it.pairs, it.rho, atoms)
            self.acc.evaluations += 1
            s = E.nsf.neutron_sld(atoms, density=rho, **_kw(self.probe))
            re, im = _pair(s)
            self._direct[d] = (re, im, R.re_scale(atoms, rho, E.NA, E.b_re), atoms, rho)
        return self._direct[d]


def measure_solvent(E, acc, tier, probe):
    """Densities of the two waters the implementation mixes (measured once per process), and the
    solvent reference (re, im, scale) of either water at this probe.  None if it cannot be measured."""
    if "rho" not in E._solvent:
        label = compounds(tier)[CANONICAL][0]
        rho = {}
        for heavy in (False, True):
            unit = E.nsf.neutron_sld(dict(E.water[heavy]), density=1.0)
            try:
                got = E.nsf.D2O_sld(label, volume_fraction=0, D2O_fraction=1 if heavy else 0)
                rho[heavy] = float(got[0]) / float(unit[0])
            except Exception as e:
                acc.violation("raises:D2O_sld:%s" % type(e).__name__,
                              dict(item=["design", CANONICAL, "str"], probe=["default", None], d=int(heavy), v=0),
                              expected="a solvent SLD", observed="%s: %s" % (type(e).__name__, e),
                              standalone="from periodictable import nsf\nprint(nsf.D2O_sld(%r, volume_fraction=0, "
                                         "D2O_fraction=%d))\n" % (label, int(heavy)))
                E._solvent["rho"] = None
                return None
        E._solvent["rho"] = rho
        m_h, m_d = R.mass(E.water[False]), R.mass(E.water[True])
        want = {False: H2O_20C, True: H2O_20C * m_d / m_h}
        for heavy, band, name in ((False, BAND_H2O, "H2O"), (True, BAND_D2O, "D2O")):
            if not abs(rho[heavy] - want[heavy]) <= band * want[heavy]:
                acc.violation("solvent-density:%s-not-water-at-20C" % name,
                              dict(item=["design", CANONICAL, "str"], probe=["default", None], d=int(heavy), v=0),
                              expected="%s at %.5g g/cm3 +- %g %%" % (name, want[heavy], 100 * band),
                              observed="SLD of %s at %.6g g/cm3" % (name, rho[heavy]),
                              standalone="from periodictable import nsf\nprint(nsf.D2O_sld(%r, volume_fraction=0, "
                                         "D2O_fraction=%d), nsf.neutron_sld(%r, density=%r))\n"
                                         % (label, int(heavy), name, want[heavy]))
        acc.info["max_solvent_density_H2O"] = rho[False]
        acc.info["max_solvent_density_D2O"] = rho[True]
    rho = E._solvent["rho"]
    if rho is None:
        return None
    key = tuple(probe)
    if key not in E._solvent:
        out = {}
        for heavy in (False, True):
            s = E.nsf.neutron_sld(dict(E.water[heavy]), density=rho[heavy], **_kw(probe))
            re, im = _pair(s)
            out[heavy] = (re, im, R.re_scale(dict(E.water[heavy]), rho[heavy], E.NA, E.b_re))
        E._solvent[key] = out
    return E._solvent[key]


def _snippet(E, item, probe, v, d, ref=None, match=False):
    lines = ["import periodictable as pt", "from periodictable import nsf, fasta, formula"]
    pk = "%s=%r" % (probe[0], probe[1])
    if match:
        lines.append("d, sld = nsf.D2O_match(%s, %s)" % (item.code, pk))
        lines.append("print(d, sld, [nsf.D2O_sld(%s, volume_fraction=v, D2O_fraction=d, %s)[0] for v in (0, 0.3, 1)])"
                     % (item.code, pk))
    else:
        lines.append("print(nsf.D2O_sld(%s, volume_fraction=%r, D2O_fraction=%r, %s))" % (item.code, v, d, pk))
    if ref is not None:
        _, _, _, atoms, rho = ref.direct(d if not match else 0)
        ad = "{%s}" % ", ".join("%s: %r" % (E.pyname(a), n) for a, n in atoms.items())
        lines.append("# the compound with its labile H substituted directly, same cell volume:")
        lines.append("print(nsf.neutron_sld(%s, density=%r, %s))" % (ad, rho, pk))
    if item.molecule is not None:
        m = item.code.replace(".labile_formula", "")
        lines.append("m = %s; print(m.sld, m.Dsld, m.D2Omatch, m.D2Osld(%r, %r))" % (m, v, d))
    return "\n".join(lines) + "\n"


def _mix_class(v):
    return "direct-substitution" if v == 1 else "solvent-mixture" if v == 0 else "volume-linear"


def check_item_probe(E, acc, item, probe, grid, tier, judge_molecule):
    """All grid points, the match point and (once) the Molecule attributes of one item at one probe.
    Returns False after the first violation (no exploration beyond a violating state)."""
    nsf = E.nsf
    solvent = measure_solvent(E, acc, tier, probe)
    if solvent is None:
        return False
    ref = Ref(E, item, probe, acc)
    pk = _kw(probe)
    (wre, wim, wsc), (hre, him, hsc) = solvent[False], solvent[True]
    m = item.molecule if judge_molecule else None

    def expected(v, d):
        dre, dim, dsc = ref.direct(d)[:3]
        sre = d * hre + (1 - d) * wre
        sim = d * him + (1 - d) * wim
        ssc = d * hsc + (1 - d) * wsc
        return (v * dre + (1 - v) * sre, v * dim + (1 - v) * sim, v * dsc + (1 - v) * ssc)

    # elementary relations first (pure solute, pure solvent), so that a violation is named after its cause
    v_order = sorted(grid["v"], key=lambda v: (0 if v == 1 else 1 if v == 0 else 2, v))
    for d in grid["d"]:
        for v in v_order:
            acc.states += 1
            if item.n_labile > 0 and d > 0:
                acc.nontrivial += 1
            ere, eim, esc = expected(v, d)
            case = item.case(probe, d=d, v=v)
            kw = dict(item.kw); kw.update(pk)
            acc.evaluations += 1
            acc.transitions += 1
            try:
                got = nsf.D2O_sld(item.arg, volume_fraction=v, D2O_fraction=d, **kw)
                gre, gim = _pair(got)
            except Exception as e:
                acc.violation("raises:D2O_sld:%s" % type(e).__name__, case,
                              expected=[ere, eim], observed="%s: %s" % (type(e).__name__, e),
                              standalone=_snippet(E, item, probe, v, d, ref))
                return False
            rule = _mix_class(v)
            cls = "%s:%s" % (item.lclass, item.dclass) if v != 0 else "any"
            if not _close_scaled(gre, ere, esc):
                acc.violation("%s:real:%s" % (rule, cls), case, expected=[ere, eim], observed=[gre, gim],
                              standalone=_snippet(E, item, probe, v, d, ref),
                              detail="scale of the real-part terms %.6g" % esc)
                return False
            if not _close_rel(gim, eim):
                acc.violation("%s:imag:%s" % (rule, cls), case, expected=[ere, eim], observed=[gre, gim],
                              standalone=_snippet(E, item, probe, v, d, ref))
                return False
            acc.outcome("%s:%s:ok" % (rule, item.lclass))
            if m is not None:
                acc.evaluations += 1
                acc.transitions += 1
                try:
                    mre = float(m.D2Osld(volume_fraction=v, D2O_fraction=d))
                except Exception as e:
                    acc.violation("molecule:D2Osld:raises:%s" % type(e).__name__, case, expected=ere,
                                  observed="%s: %s" % (type(e).__name__, e),
                                  standalone=_snippet(E, item, probe, v, d, ref))
                    return False
                if not _close_scaled(mre, ere, esc):
                    acc.violation("molecule:D2Osld:%s" % rule, case, expected=ere, observed=mre,
                                  standalone=_snippet(E, item, probe, v, d, ref))
                    return False
                acc.outcome("molecule:D2Osld:%s:ok" % rule)

    # ---- match point
    h0, s0 = ref.direct(0)[0], ref.direct(0)[2]
    h1, s1 = ref.direct(1)[0], ref.direct(1)[2]
    solute_scale, solvent_scale = max(s0, s1), max(wsc, hsc)
    slope = (h1 - h0) + (wre - hre)             # d(solute - solvent)/d(fraction), reference values
    degenerate = abs(slope) <= 1e-6 * (solute_scale + solvent_scale)

    def residual(p):
        """solute(p) - solvent(p) of the real parts and the scale of the terms involved."""
        solute = p * h1 + (1 - p) * h0
        solv = p * hre + (1 - p) * wre
        sc = (abs(p) + abs(1 - p)) * (solute_scale + solvent_scale)
        return solute, solv, sc

    if degenerate:
        acc.count("match_degenerate_not_judged")
    else:
        acc.states += 1
        if item.n_labile > 0:
            acc.nontrivial += 1
        case = item.case(probe, match=True)
        kw = dict(item.kw); kw.update(pk)
        acc.evaluations += 1
        acc.transitions += 1
        try:
            dstar, sstar = nsf.D2O_match(item.arg, **kw)
            dstar, sstar = float(dstar), float(sstar)
        except Exception as e:
            acc.violation("raises:D2O_match:%s" % type(e).__name__, case, expected="a match point",
                          observed="%s: %s" % (type(e).__name__, e),
                          standalone=_snippet(E, item, probe, 1, 0, ref, match=True))
            return False
        solute, solv, sc = residual(dstar)
        if not _close_scaled(solute, solv, sc):
            acc.violation("match-point:not-a-match:%s" % item.lclass, case,
                          expected="solute and solvent real SLD equal at the reported fraction",
                          observed=dict(fraction=dstar, solute=solute, solvent=solv),
                          standalone=_snippet(E, item, probe, 1, 0, ref, match=True))
            return False
        if not _close_scaled(sstar, solute, sc):
            acc.violation("match-point:reported-sld:%s" % item.lclass, case, expected=solute, observed=sstar,
                          standalone=_snippet(E, item, probe, 1, 0, ref, match=True))
            return False
        for v in grid["v"]:
            acc.evaluations += 1
            acc.transitions += 1
            try:
                g = float(nsf.D2O_sld(item.arg, volume_fraction=v, D2O_fraction=dstar, **kw)[0])
            except Exception as e:
                acc.violation("raises:D2O_sld-at-match:%s" % type(e).__name__, item.case(probe, match=True, v=v),
                              expected=sstar, observed="%s: %s" % (type(e).__name__, e),
                              standalone=_snippet(E, item, probe, 1, 0, ref, match=True))
                return False
            if not _close_scaled(g, sstar, sc):
                acc.violation("match-point:depends-on-volume-fraction", item.case(probe, match=True, v=v),
                              expected=sstar, observed=g,
                              standalone=_snippet(E, item, probe, 1, 0, ref, match=True))
                return False
        acc.outcome("match:%s:%s" % (item.lclass, "below-0" if dstar < 0 else "above-1" if dstar > 1 else "in-[0,1]"))

    # ---- the biomolecule class reports the same numbers
    if m is not None:
        case = item.case(probe, molecule=True)
        snip = _snippet(E, item, probe, 1, 0, ref)
        for name, want, sc in (("sld", h0, s0), ("Dsld", h1, s1)):
            acc.evaluations += 1
            acc.transitions += 1
            got = float(getattr(m, name))
            if not _close_scaled(got, want, sc):
                acc.violation("molecule:%s:%s" % (name, item.lclass), case, expected=want, observed=got, standalone=snip)
                return False
        acc.states += 1
        acc.evaluations += 1
        acc.transitions += 1
        p = float(m.D2Omatch) / 100
        solute, solv, sc = residual(p)
        if not _close_scaled(solute, solv, sc):
            acc.violation("molecule:D2Omatch:not-a-match:%s" % item.lclass, case,
                          expected="solute and solvent real SLD equal at D2Omatch/100",
                          observed=dict(D2Omatch=100 * p, solute=solute, solvent=solv), standalone=snip)
            return False
        if not degenerate and not abs(p - dstar) * abs(slope) <= 2 * REL * sc:
            acc.violation("molecule:D2Omatch:differs-from-D2O_match", case, expected=100 * dstar, observed=100 * p,
                          standalone=snip)
            return False
        acc.outcome("molecule:attributes:ok")
    return True


def items_for(tier):
    E = Env()
    out = []
    for i in range(len(compounds(tier))):
        for form in FORMS:
            out.append(("design", i, form))
    for t in TABLES:
        for key in sorted(getattr(E.fasta, t)):
            out.append(("fasta", t, key))
    return out


def _shard(args):
    descs, tier, first = args
    E = Env()
    acc = Acc()
    grid = GRID[tier]
    for desc in descs:
        item = Item(E, desc, tier)
        acc.outcome("compound:%s:%s:%s" % (item.form if item.molecule is None else "molecule",
                                           item.dclass, "labile=%g" % item.n_labile
                                           if item.n_labile in (0, 1, 3) else "labile=n"))
        ok = True
        for probe in grid["probes"]:
            # Molecule attributes are defined at the default wavelength only: judge them at 1.798
            jm = item.molecule is not None and tuple(probe) == ("wavelength", 1.798)
            ok = check_item_probe(E, acc, item, probe, grid, tier, jm)
            if not ok:
                break
        if ok and len(acc.samples) < 2:
            acc.sample(dict(item=list(desc), labile=item.n_labile, density=item.rho))
    acc.traces = acc.transitions
    return acc


def run(ctx):
    tier = ctx.tier
    items = items_for(tier)
    n_mol = sum(1 for d in items if d[0] == "fasta")
    ctx.acc.info["compounds_listed"] = len(compounds(tier))
    ctx.acc.info["fasta_molecules"] = n_mol
    items = rotate(items, ctx.seed)
    nshards = 16 if ctx.quick else 48
    jobs = [(part, tier, i == 0) for i, part in enumerate(chunks(items, nshards))]
    ctx.pmap(_shard, jobs)
    ctx.acc.traces = ctx.acc.transitions
    # every worker measured the same two solvent densities (merged by max): report them once
    g = GRID[tier]
    ctx.acc.info["grid"] = dict(d=list(g["d"]), v=list(g["v"]), probes=[list(p) for p in g["probes"]])


def replay(ctx, case, signature=None):
    E = Env()
    desc = tuple(case["item"])
    probe = tuple(case["probe"])
    # replay in the tier whose compound list contains the item (thorough is a superset)
    tier = "thorough"
    if probe[0] == "default":
        measure_solvent(E, ctx.acc, tier, ("wavelength", 1.798))
        return
    item = Item(E, desc, tier)
    grid = GRID["thorough"] if ctx.tier == "thorough" else GRID["quick"]
    # make sure the recorded point is on the grid that is replayed
    d, v = case.get("d"), case.get("v")
    grid = dict(d=tuple(sorted(set(grid["d"]) | ({d} if d is not None else set()))),
                v=tuple(sorted(set(grid["v"]) | ({v} if v is not None else set()))), probes=(probe,))
    check_item_probe(E, ctx.acc, item, probe, grid, tier,
                     item.molecule is not None and probe == ("wavelength", 1.798))
