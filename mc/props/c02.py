"""C02 - composition arithmetic is additive (E1, operator graph; DESIGN section 4, C02).

State  = the list of all formulas created so far on the path (operands included), each with an
         exact-Fraction reference composition maintained by the reference semantics.
Events = r=s+g, r=n*s, s+=g, r=formula(s), r=formula(s.atoms), r=s+t, s+=t over live formulas s,t
         and fresh base operands g.
Oracle = after every transition: the new/modified formula has reference atoms, mass, charge and
         mass fractions; every other live formula's structure is identical to its snapshot.

String derivations (second component): "built from a string" is enumerated by DERIVATION, not by a
hand-picked list: a derivation tree  element = atom token x own count,  implicit group = leading
count x 1..3 adjacent elements,  explicit group = '(' composite ')' x group count,  composite =
groups joined by '', ' ', '+' or ' + '  is rendered to text by this module and weighed by this module
(exact Fractions); the library parses the text.  Every tree of the tier lists (str_tiers) is
run; the single groups are also the roots of a depth-1 operator walk.  A wrong string is attributed to
its smallest sub-derivation that is wrong on its own; the signature names that shape (atoms
abstracted): 'atoms:str:nXm' = leading count in front of one element carrying its own count.
The count cross (count_cross) adds, for every count position and nesting depth, every spelling of a count
(SHAPES) followed by everything that can follow it; its cells are the lists 'cross:<position><depth>:<follower>'.

Argument histories (third component, class ArgModel): one caller-owned argument object, formula(c)
called repeatedly with the caller updating c in place in between; see META rule (3)."""
from fractions import Fraction
from .. import explore
from ..common import Acc, load_pt, close, chunks, rotate, jdump

META = dict(
    level="model_checking", engine="E1",
    rule=("(1) breadth-first exploration of the operator graph over formulas built by every "
          "constructor kind; a state is the tuple of all live formulas (structure + alias pattern); "
          "non-trivial = reached by >= 1 operator.  (2) string derivations: every derivation tree of the "
          "tier lists (element = atom token x own count; implicit group = leading count x adjacent elements; "
          "explicit group = parenthesised composite x group count, nested twice; composite = groups joined by "
          "'', ' ', '+', ' + '), each tree rendered to text and weighed by the module, parsed by the library; "
          "distinct = distinct text; non-trivial = at least one written count or two parts.  Count cross: every count "
          "position (leading count, element count, group count; at top level, after another group, and nested inside one "
          "/ two parenthesised groups) x every count spelling of SHAPES (2, 12, 0.5, .5, 2.5, 12.5, '2.', 10.25) x every "
          "follower (end of string or ')' + enclosing count, next atom, '(' group, and atom / group after ' ', '+', ' + ', "
          "the follower's own leading / group count running over the spellings too), as far as joinable.  Every single-group "
          "string (bare and parenthesised) is also the root of a depth-1 operator walk.  (3) argument histories: for "
          "one caller-owned argument object c of every initializer kind (mapping, nested list, tuple holding a list, "
          "formula, string, blank string, None, atom) every sequence of the events formula(c) / c updated in place by "
          "the caller (3 ways per kind) / first result += g; after every event c is what the caller made it, every "
          "earlier result keeps its composition, a new result has the composition of c as it is now."),
    bound=dict(quick="all operator sequences of depth <= 2 over the full alphabet and depth 3 over the "
                     "reduced operand alphabet; string derivations: lists of str_tiers('quick') - leading count "
                     "{-, 2, 0.5, 3} x 8 atom tokens (element, D, isotope, ions, isotope ion) x own count {-, 2, 0.5} "
                     "for one and two elements per group in full, two groups x 3 separators, parenthesised and "
                     "twice nested forms over reduced alphabets; count_cross('quick'): 3 positions x 8 spellings x 9 followers "
                     "x 4 counted atom kinds at top level (follower leading count: all spellings), inside one parenthesised group "
                     "over reduced context (enclosing count: all spellings where it follows directly); argument histories of <= 5 events",
               thorough="all operator sequences of depth <= 3 over the "
                        "full alphabet, depth 4 over the reduced one, second atom alphabet (T, isotope ions); string "
                        "derivations: str_tiers('thorough') (count spellings 3, 1.5, 10, '.5' added, three elements per "
                        "group, larger reduced alphabets) and count_cross('thorough') (full context also inside one group, inside two "
                        "groups, every cell also after another group, two follower atoms) over both atom alphabets; "
                        "argument histories of <= 6 events"),
    assumptions=["neutral element / isotope masses are read from the library (their correctness is C06)",
                 "multipliers are dyadic rationals, so exact Fraction counts equal float counts to 1e-12",
                 "a formula is a value: after it has been built it does not follow later in-place changes that the caller "
                 "makes to the list / mapping / formula it was built from (the library copies with _immutable)",
                 "strings: 'n X_m' is n times the part 'X_m'; a leading count belongs to the adjacent elements that "
                 "follow it up to the next separator, parenthesis or white space (the library's documented grouping rule)",
                 "count spellings are those of the guide's grammar (count :: number | fraction, fraction :: ([1-9][0-9]* | 0)? "
                 "'.' [0-9]*), so '2.' is the count 2 and '.5' the count 0.5; a bare '.' and counts with leading zeros are left out",
                 "strings left out because the text does not say how they split into parts: an unseparated group after "
                 "a group with a leading count ('2H2(OH)'), a leading count directly after ')' or after ') ' without a "
                 "group count ('(HO)2H' is generated only as group count; '(HO) 2H' is not generated), a space between a "
                 "count and its element, mixtures ('%wt', '//') and density tags (C11, C12)"],
)

MULTS = (0, 0.5, 1, 2, 3, 2.5)


def _env(alphabet=0):
    pt = load_pt()
    from periodictable import formula, constants
    H, O, D, Fe, Cl, T, C = pt.H, pt.O, pt.D, pt.Fe, pt.Cl, pt.T, pt.C
    if alphabet == 0:
        atoms = dict(H=H, O=O, D=D, O18=O[18], Fe2=Fe.ion[2], Fe56_3=Fe[56].ion[3], Clm=Cl.ion[-1],
                     Fe3=Fe.ion[3])        # Fe2/Fe3 differ only in charge, Fe3/Fe56_3 only in isotope
    else:
        atoms = dict(H=T, O=C[13], D=H[1], O18=O[16].ion[-2], Fe2=Fe[54].ion[2], Fe56_3=Fe.ion[3],
                     Clm=D.ion[1], Fe3=Fe[54].ion[3])
    return pt, formula, constants, atoms


def atom_mass(constants, a):
    """Reference mass of an atom: neutral (element or isotope) mass less charge electrons."""
    q = getattr(a, "charge", 0)
    base = a.element if q != 0 else a
    return base.mass - q * constants.electron_mass


class Bases(object):
    """Every way of constructing a base formula; each entry: (label, code, builder, refdict)."""
    def __init__(self, alphabet=0):
        pt, formula, constants, A = _env(alphabet)
        self.pt, self.formula, self.constants, self.A = pt, formula, constants, A
        a = A
        F = Fraction
        n = lambda x: self._name(x)
        L = []
        def add(label, code, build, ref):
            L.append((label, code, build, dict((k, F(v)) for k, v in ref.items())))
        add("empty", "formula()", lambda: formula(), {})
        for k in sorted(a):
            at = a[k]
            add("atom:" + n(at), "formula(%s)" % self._pyname(at), (lambda at=at: formula(at)), {at: 1})
        if alphabet == 0:
            add("str:H2O", "formula('H2O')", lambda: formula("H2O"), {a["H"]: 2, a["O"]: 1})
            add("str:D2O", "formula('D2O')", lambda: formula("D2O"), {a["D"]: 2, a["O"]: 1})
            add("str:H0.5", "formula('H0.5')", lambda: formula("H0.5"), {a["H"]: F(1, 2)})
            add("str:(H2O)3", "formula('(H2O)3')", lambda: formula("(H2O)3"), {a["H"]: 6, a["O"]: 3})
            add("str:2H2O+D2O", "formula('2H2O+D2O')", lambda: formula("2H2O+D2O"),
                {a["H"]: 4, a["O"]: 3, a["D"]: 2})
            add("str:FeCl2ion", "formula('Fe{2+}Cl{-}2')", lambda: formula("Fe{2+}Cl{-}2"),
                {a["Fe2"]: 1, a["Clm"]: 2})
            add("str:Fe56", "formula('Fe[56]{3+}O[18]1.5')", lambda: formula("Fe[56]{3+}O[18]1.5"),
                {a["Fe56_3"]: 1, a["O18"]: F(3, 2)})
            add("str:magnetite", "formula('Fe{2+}Fe{3+}2O4')", lambda: formula("Fe{2+}Fe{3+}2O4"),
                {a["Fe2"]: 1, a["Fe3"]: 2, a["O"]: 4})
            add("str:nested", "formula('Fe{2+}2((OH)2(H2O)0.5)3')",
                lambda: formula("Fe{2+}2((OH)2(H2O)0.5)3"),
                {a["Fe2"]: 2, a["O"]: F(15, 2), a["H"]: 9})
        add("dict:2", "formula({%s: 2, %s: 1})" % (self._pyname(a["H"]), self._pyname(a["O"])),
            lambda: formula({a["H"]: 2, a["O"]: 1}), {a["H"]: 2, a["O"]: 1})
        add("dict:charges", "formula({%s: 1, %s: 2, %s: 4})" % (self._pyname(a["Fe2"]), self._pyname(a["Fe3"]), self._pyname(a["O"])),
            lambda: formula({a["Fe2"]: 1, a["Fe3"]: 2, a["O"]: 4}), {a["Fe2"]: 1, a["Fe3"]: 2, a["O"]: 4})
        add("dict:half", "formula({%s: 0.5})" % self._pyname(a["D"]),
            lambda: formula({a["D"]: 0.5}), {a["D"]: F(1, 2)})
        add("list:nested", "formula([(1, %s), (2, [(1, %s), (1, %s)])])"
            % (self._pyname(a["Fe2"]), self._pyname(a["O"]), self._pyname(a["H"])),
            lambda: formula([(1, a["Fe2"]), (2, [(1, a["O"]), (1, a["H"])])]),
            {a["Fe2"]: 1, a["O"]: 2, a["H"]: 2})
        add("tuple:nested", "formula(((2.5, %s), (3, ((2, %s), (1, %s)))))"
            % (self._pyname(a["Clm"]), self._pyname(a["H"]), self._pyname(a["O18"])),
            lambda: formula(((2.5, a["Clm"]), (3, ((2, a["H"]), (1, a["O18"]))))),
            {a["Clm"]: F(5, 2), a["H"]: 6, a["O18"]: 3})
        add("list:repeat", "formula([(1, %s), (2, %s), (3, %s)])"
            % (self._pyname(a["H"]), self._pyname(a["O"]), self._pyname(a["H"])),
            lambda: formula([(1, a["H"]), (2, a["O"]), (3, a["H"])]), {a["H"]: 4, a["O"]: 2})
        add("copy", "formula(formula([(2, %s), (1, %s)]))" % (self._pyname(a["H"]), self._pyname(a["O"])),
            lambda: formula(formula([(2, a["H"]), (1, a["O"])])), {a["H"]: 2, a["O"]: 1})
        self.items = L
        self.index = dict((b[0], i) for i, b in enumerate(L))
        # reduced operand alphabet for the deepest level
        self.reduced = [l for l in ("empty", "atom:" + n(a["Fe2"]), "dict:half", "list:nested")]

    def _name(self, at):
        return str(at)

    def _pyname(self, at):
        """python expression naming the atom, for the standalone snippet."""
        q = getattr(at, "charge", 0)
        base = at.element if q else at
        if hasattr(base, "isotope"):
            s = "pt.%s[%d]" % (base.element.symbol, base.isotope)
        else:
            s = "pt.%s" % base.symbol
        return s + (".ion[%d]" % q if q else "")


# ---------------------------------------------------------------- string derivations
# atom key (see _env) -> the token this module writes for it; written by hand, not printed by the library
TOK = {0: dict(H="H", O="O", D="D", O18="O[18]", Fe2="Fe{2+}", Fe56_3="Fe[56]{3+}", Clm="Cl{-}", Fe3="Fe{3+}"),
       1: dict(H="T", O="C[13]", D="H[1]", O18="O[16]{2-}", Fe2="Fe[54]{2+}", Fe56_3="Fe{3+}", Clm="D{+}",
               Fe3="Fe[54]{3+}")}
ALL8 = ("H", "O", "D", "O18", "Fe2", "Fe56_3", "Clm", "Fe3")
KINDS5 = ("H", "O18", "Fe2", "Fe56_3", "Fe3")    # element, isotope, ion, isotope ion, + an ion differing only in charge / isotope
KINDS4 = ("H", "O18", "Fe2", "Fe56_3")
KINDS2 = ("H", "Fe56_3")
SEPS3 = (" ", "+", " + ")

# A tree is a nested tuple (JSON-able):
#   ("e", atomkey, m)            element with its own count text m ("" = none written)
#   ("i", n, (e, ...))           implicit group: leading count text n, adjacent elements
#   ("x", (g, ...), (sep, ...), c)   explicit group: parenthesised composite, group count text c
#   ("c", (g, ...), (sep, ...))  composite (top level): groups joined by the separators


def t_text(tree, tok):
    k = tree[0]
    if k == "e":
        return tok[tree[1]] + tree[2]
    if k == "i":
        return tree[1] + "".join(t_text(e, tok) for e in tree[2])
    if k == "x":
        return "(" + _join(tree[1], tree[2], tok) + ")" + tree[3]
    if k == "c":
        return _join(tree[1], tree[2], tok)
    raise ValueError(tree)


def _join(groups, seps, tok):
    out = t_text(groups[0], tok)
    for sep, g in zip(seps, groups[1:]):
        out += sep + t_text(g, tok)
    return out


def t_count(tree):
    """Reference weight of a derivation: {atomkey: Fraction}; a written count multiplies the part it is written on."""
    k = tree[0]
    if k == "e":
        return {tree[1]: Fraction(tree[2]) if tree[2] else Fraction(1)}
    if k == "i":
        n = Fraction(tree[1]) if tree[1] else Fraction(1)
        return _rmul(_rsum(t_count(e) for e in tree[2]), n)
    if k == "x":
        c = Fraction(tree[3]) if tree[3] else Fraction(1)
        return _rmul(_rsum(t_count(g) for g in tree[1]), c)
    if k == "c":
        return _rsum(t_count(g) for g in tree[1])
    raise ValueError(tree)


def _rsum(parts):
    out = {}
    for p in parts:
        for k, v in p.items():
            out[k] = out.get(k, 0) + v
    return out


def t_shape(tree):
    """The shape of a derivation with the atoms and the count values abstracted (signature class)."""
    k = tree[0]
    if k == "e":
        return "X" + ("m" if tree[2] else "")
    if k == "i":
        if len(tree[2]) > 1:         # several adjacent elements: one class, 'm' if any of them carries a count
            return ("n" if tree[1] else "") + "XX" + ("m" if any(e[2] for e in tree[2]) else "")
        return ("n" if tree[1] else "") + t_shape(tree[2][0])
    if k in ("x", "c"):
        out = t_shape(tree[1][0])
        for sep, g in zip(tree[2], tree[1][1:]):
            out += sep.replace(" ", "_") + t_shape(g)
        return "(" + out + ")" + ("c" if tree[3] else "") if k == "x" else out
    raise ValueError(tree)


def t_subtrees(tree):
    """Proper sub-derivations that are strings of the space on their own, smallest last."""
    k = tree[0]
    if k == "e":
        return []
    if k == "i":
        subs = [("i", "", (e,)) for e in tree[2]] if (tree[1] or len(tree[2]) > 1) else []
        if tree[1] and len(tree[2]) > 1:
            subs += [("i", tree[1], (e,)) for e in tree[2]]
            subs.append(("i", "", tree[2]))
        return subs
    groups = list(tree[1])
    subs = []
    if k == "x":
        subs.append(("c", tree[1], tree[2]))
    elif len(groups) > 1:
        subs += [("c", (g,), ()) for g in groups]
    elif len(groups) == 1:
        g = groups[0]
        return t_subtrees(g) if g[0] == "i" else [("c", g[1], g[2])]
    return subs


def t_nontrivial(tree):
    k = tree[0]
    if k == "e":
        return bool(tree[2])
    if k == "i":
        return bool(tree[1]) or len(tree[2]) > 1 or any(t_nontrivial(e) for e in tree[2])
    return (k == "x" and bool(tree[3])) or len(tree[1]) > 1 or any(t_nontrivial(g) for g in tree[1])


def _first_atom(tree):
    return tree[1] if tree[0] == "e" else _first_atom((tree[2] if tree[0] == "i" else tree[1])[0])


def _tt(x):
    return tuple(_tt(y) for y in x) if isinstance(x, (list, tuple)) else x


def joinable(prev, sep, nxt):
    """Separators for which the text says how the string splits into parts (see META assumptions)."""
    if sep == "":
        if nxt[0] == "x":
            return prev[0] == "x" or not prev[1]        # 'H2(OH)2', '(OH)2(H2O)'; not '2H2(OH)'
        return prev[0] == "x" and not nxt[1]            # '(OH)2H', '(OH)H'; never two implicit groups unseparated
    if sep == " ":
        return not (prev[0] == "x" and not prev[3] and nxt[0] == "i" and nxt[1])     # not '(HO) 2H'
    return True


def elems(atoms, M):
    return [("e", a, m) for a in atoms for m in M]


def igroups(N, *elem_lists):
    out = []
    for n in N:
        for es in _product(elem_lists):
            out.append(("i", n, tuple(es)))
    return out


def _product(lists):
    if not lists:
        return [()]
    rest = _product(lists[1:])
    return [(x,) + r for x in lists[0] for r in rest]


def composites(glists, seps):
    """All joinable sequences g1 sep g2 ... with gi from glists[i]."""
    out = []
    def rec(i, groups, used):
        if i == len(glists):
            out.append((tuple(groups), tuple(used)))
            return
        for g in glists[i]:
            if i == 0:
                rec(1, [g], [])
            else:
                for sep in seps:
                    if joinable(groups[-1], sep, g):
                        rec(i + 1, groups + [g], used + [sep])
    rec(0, [], [])
    return out


def xgroups(comps, C):
    return [("x", gs, ss, c) for gs, ss in comps for c in C]


def tops(comps):
    return [("c", gs, ss) for gs, ss in comps]


def str_tiers(tier):
    """[(name, walk operators?, [tree, ...])] - the lists of derivations of the tier, in a fixed order."""
    q = tier == "quick"
    M = ("", "2", "0.5") if q else ("", "2", "0.5", "3", "1.5", "10", ".5")
    N = ("", "2", "0.5", "3") if q else ("", "2", "0.5", "3", "1.5", "10", ".5")
    C = ("", "2", "0.5") if q else ("", "2", "0.5", "3", "1.5")
    Mr, Nr, Cr = ("", "2"), ("", "2"), ("", "2", "0.5")            # reduced count alphabets
    if not q:
        Mr, Nr = ("", "2", "0.5"), ("", "2", "0.5")
    E8 = elems(ALL8, M)
    G1 = igroups(N, E8)                                           # n X m, full product
    E5 = elems(KINDS5, M)
    G1k = igroups(N, E5)
    E4r = elems(KINDS4, Mr)
    G1r = igroups(Nr, E4r)                                        # reduced single groups
    G1s = igroups(Nr, elems(KINDS2, Mr))                          # small single groups
    L = []
    L.append(("one-element-group", True, tops(composites([G1], ()))))
    L.append(("two-element-group", False, tops(composites([igroups(N, E8, E8 if q else E5)], ()))))
    if not q:
        L.append(("three-element-group", False, tops(composites([igroups(Nr, E4r, E4r, E4r)], ()))))
    L.append(("two-groups", False, tops(composites([G1k, G1k] if q else [G1, igroups(N, E5)], SEPS3))))
    L.append(("three-groups", False, tops(composites([G1s, G1s, G1s] if q else [G1r, G1s, G1r], (" ", "+")))))
    L.append(("paren-one-element", True, tops(composites([xgroups(composites([G1], ()), C)], ()))))
    L.append(("paren-two-elements", False,
              tops(composites([xgroups(composites([igroups(N, E4r, E4r)], ()), C)], ()))))
    L.append(("paren-two-groups", False,
              tops(composites([xgroups(composites([G1r, G1r], (" ", "+") if q else SEPS3), Cr)], ()))))
    X1r = xgroups(composites([G1r], ()), Cr)
    X2s = xgroups(composites([igroups(Nr, elems(KINDS2, Mr), elems(KINDS2, Mr))], ()), Cr)
    X1s = xgroups(composites([G1s], ()), Cr)
    bs = ("", " ") if q else ("", " ", "+")
    L.append(("paren-beside-group", False,
              tops(composites([X1r, G1r], bs)) + tops(composites([G1r, X1r], bs))
              + tops(composites([X2s, G1s], bs)) + tops(composites([G1s, X2s], bs))))
    L.append(("paren-beside-paren", False, tops(composites([X1s, X1s] if q else [X1r, X1r], bs))))
    inner = composites([X1s, G1s], ("", " ")) + composites([G1s, X1s], ("", " ")) + composites([X1s], ())
    L.append(("nested-paren", False, tops(composites([xgroups(inner, Cr)], ()))))
    if not q:
        inner2 = composites([xgroups(inner, ("", "2"))], ())
        L.append(("nested-paren-3", False, tops(composites([xgroups(inner2, ("", "0.5"))], ()))))
    return L


# Count cross: every count POSITION x every count SHAPE x everything that can FOLLOW the counted part.
# The spellings of a count (guide: count :: number | fraction, fraction :: ([1-9][0-9]* | 0)? '.' [0-9]*):
# integer, several digits, fraction below one with and without the leading zero, decimal with an integer part of one
# and of two digits, trailing point, two decimals.  All values are dyadic, so the Fraction weight is exact in floats.
SHAPES = ("2", "12", "0.5", ".5", "2.5", "12.5", "2.", "10.25")
CROSS_POSITIONS = ("lead", "elem", "group")
CROSS_FOLLOWS = ("end", "atom", "paren", "blank-atom", "plus-atom", "blank-plus-blank-atom",
                 "blank-paren", "plus-paren", "blank-plus-blank-paren")
_FSEP = {"blank": " ", "plus": "+", "blank-plus-blank": " + "}


def _ig(n, *es):
    return ("i", n, tuple(es))


def cross_carriers(pos, s, atoms, others):
    """The part that carries the count s in the position: leading count 's X o', element count 'o X s',
    group count '(X o) s' (o = the one other count of the part, from the reduced alphabet)."""
    if pos == "lead":
        return [_ig(s, ("e", a, o)) for a in atoms for o in others]
    if pos == "elem":
        return [_ig(o, ("e", a, s)) for a in atoms for o in others]
    if pos == "group":
        return [("x", (_ig("", ("e", a, o)),), (), s) for a in atoms for o in others]
    raise ValueError(pos)


def cross_follow(T, follow, b_atoms, M2, N2, C2):
    """Composites (groups, seps) that start with the carrier T and continue with the follower, as far as the text says
    how the string splits (joinable)."""
    if follow == "end":
        return [((T,), ())]
    es = [("e", b, m) for b in b_atoms for m in M2]
    kind = follow.rsplit("-", 1)[-1]
    sep = _FSEP[follow.rsplit("-", 1)[0]] if "-" in follow else ""
    if follow == "atom" and T[0] == "i":                 # the next element of the same implicit group: '2.5HO', 'H2.5O'
        return [((_ig(T[1], *(T[2] + (e,))),), ()) for e in es]
    if kind == "atom":
        nxt = [_ig(n, e) for n in (N2 if sep else ("",)) for e in es]
    else:
        nxt = [("x", (_ig("", e),), (), c) for e in es for c in C2]
    return [((T, g), (sep,)) for g in nxt if joinable(T, sep, g)]


def count_cross(tier):
    """[(cell name, [tree, ...])]: position (leading / element / group count) x nesting depth (top level, inside one
    parenthesised group = the nested counts, inside two) x count shape x follower.  Inside parentheses 'end' means that
    ')' and the count of the enclosing group follow; that count then runs over all shapes as well."""
    q = tier == "quick"
    S = ("",) + SHAPES
    A = KINDS4                                       # the counted atom: element, isotope, ion, isotope ion ('H2.5', 'O[18]2.5', 'Fe{2+}2.5')
    Bq = ("O",) if q else ("O", "Clm")               # the atom that follows; differs from every counted atom
    O2 = ("", "2")
    out = []
    for pos in CROSS_POSITIONS:
        for depth in (0, 1) if q else (0, 1, 2):
            deep = depth > 0 and (q or depth > 1)    # reduced context in the deeper levels
            for follow in CROSS_FOLLOWS:
                if q and depth > 0 and follow.startswith("blank-plus-blank"):
                    continue
                trees = []
                for s in SHAPES:
                    N2 = ("", "2", ".5", "2.5") if deep else S          # leading count of the follower: the count pair 's sep n'
                    C2 = ("", "2.5") if deep else ("", "2", "2.5")
                    for T in cross_carriers(pos, s, KINDS2 if deep else A, O2):
                        for gs, ss in cross_follow(T, follow, Bq[:1] if deep else Bq, O2, N2, C2):
                            if depth == 0:
                                trees.append(("c", gs, ss))
                                if not q or "-" not in follow:          # the same after another group: 'D 2.5H', 'D (H)2.5O'
                                    trees.append(("c", (_ig("", ("e", "D", "")),) + gs, (" ",) + ss))
                                continue
                            # the count of the enclosing group: every shape where it follows the position directly
                            W = S if follow == "end" else ("", "2") if q else ("", "2", "2.5")
                            for w in W:
                                X = ("x", gs, ss, w)
                                if depth == 2:
                                    for w2 in ("", "2.5"):
                                        trees.append(("c", (("x", (X,), (), w2),), ()))
                                        trees.append(("c", (("x", (_ig("", ("e", "D", "")), X), (" ",), w2),), ()))
                                else:
                                    trees.append(("c", (X,), ()))
                if trees:
                    out.append(("cross:%s%d:%s" % (pos, depth, follow), trees))
    return out


def str_cases(tier, alphabet):
    """Flat list of (tier name, walk?, tree), each distinct text once."""
    tok = TOK[alphabet]
    seen = set()
    out = []
    for name, walk, trees in str_tiers(tier) + [(n, False, t) for n, t in count_cross(tier)]:
        for t in trees:
            text = t_text(t, tok)
            if text in seen:
                continue
            seen.add(text)
            out.append((name, walk, t))
    return out


class OpModel(explore.Model):
    name = "C02 operator graph"

    def __init__(self, alphabet=0, operands="full", mults=MULTS):
        self.B = Bases(alphabet)
        self.alphabet = alphabet
        self.operand_labels = ([b[0] for b in self.B.items] if operands == "full" else self.B.reduced)
        self.last_operands = None     # labels allowed at the deepest level (set by run)
        self.depth = None
        self.mults = mults

    def initial(self):
        return [(("base", b[0]),) for b in self.B.items]

    # ---- string derivations
    def s_text(self, tree):
        return t_text(tree, TOK[self.alphabet])

    def s_ref(self, tree):
        return dict((self.B.A[k], v) for k, v in t_count(tree).items())

    def s_wrong(self, tree):
        """True if the string of this derivation, on its own, is parsed to something else than its weight."""
        scratch = Acc()
        try:
            f = self.B.formula(self.s_text(tree))
        except Exception:
            return True
        self._check_formula(f, self.s_ref(tree), scratch, (("sbase", tree),), "str")
        return scratch.vcount > 0

    def s_minimal(self, tree):
        """Smallest sub-derivation that is wrong on its own (the cause class of a wrong string)."""
        while True:
            for sub in t_subtrees(tree):
                sub = sub if sub[0] == "c" else ("c", (sub,), ())
                if self.s_wrong(sub):
                    tree = sub
                    break
            else:
                # a parenthesised group that is wrong while its content alone is right: the cause is the group
                # count, so name it on the simplest content (one bare element) if that is wrong as well
                g = tree[1][0] if tree[0] == "c" and len(tree[1]) == 1 else None
                if g is not None and g[0] == "x":
                    plain = ("c", (("x", (("i", "", (("e", _first_atom(g), ""),)),), (), g[3]),), ())
                    if plain != tree and self.s_wrong(plain):
                        return plain
                return tree

    # ---- reference checks
    def _check_formula(self, f, ref, acc, hist, what):
        c = self.B.constants
        try:
            atoms = f.atoms
            got = dict((a, n) for a, n in atoms.items() if n != 0)
            want = dict((a, n) for a, n in ref.items() if n != 0)
            bad = set(got) != set(want) or any(
                not close(got[a], float(want[a]), 1e-12, 1e-12) for a in want)
            if bad:
                return self._viol(acc, "atoms:" + what, hist,
                                  sorted((str(a), float(n)) for a, n in want.items()),
                                  sorted((str(a), float(n)) for a, n in got.items()))
            m_ref = sum(float(n) * atom_mass(c, a) for a, n in ref.items())
            if not close(f.mass, m_ref, 1e-12, 1e-12):
                return self._viol(acc, "mass:" + what, hist, m_ref, f.mass)
            q_ref = sum(float(n) * getattr(a, "charge", 0) for a, n in ref.items())
            if not close(f.charge, q_ref, 1e-12, 1e-12):
                return self._viol(acc, "charge:" + what, hist, q_ref, f.charge)
            if m_ref > 0:
                mf = f.mass_fraction
                tot = 0.0
                for a, n in ref.items():
                    w = float(n) * atom_mass(c, a) / m_ref
                    g = mf.get(a, 0.0)
                    tot += g
                    if not close(g, w, 1e-12, 1e-12):
                        return self._viol(acc, "mass_fraction:" + what, hist, (str(a), w), (str(a), g))
                if not close(tot, 1.0, 1e-12):
                    return self._viol(acc, "mass_fraction_sum:" + what, hist, 1.0, tot)
        except Exception as e:
            return self._viol(acc, "exception:" + what + ":" + type(e).__name__, hist,
                              "no exception", "%s: %s" % (type(e).__name__, e))

    def _viol(self, acc, sig, hist, expected, observed):
        acc.violation(sig, dict(alphabet=self.alphabet, history=[_jtree(tuple(e)) for e in hist]),
                      expected=expected, observed=observed, standalone=self.snippet(hist))

    def snippet(self, hist):
        lines = ["import periodictable as pt", "from periodictable import formula", "L = []"]
        for ev in hist:
            lines.append(self._code(ev))
        lines.append("for f in L: print(repr(f.structure), f.atoms, f.mass, f.charge)")
        return "\n".join(lines) + "\n"

    def _code(self, ev):
        k = ev[0]
        code = lambda lab: self.B.items[self.B.index[lab]][1]
        if k == "base":
            return "L.append(%s)" % code(ev[1])
        if k == "sbase":
            return "L.append(formula(%r))" % self.s_text(ev[1])
        if k == "addg":
            return "g = %s; L.append(g); L.append(L[%d] + g)" % (code(ev[2]), ev[1])
        if k == "iaddg":
            return "g = %s; L.append(g); L[%d] += g" % (code(ev[2]), ev[1])
        if k == "mul":
            return "L.append(%r * L[%d])" % (ev[1], ev[2])
        if k == "copy":
            return "L.append(formula(L[%d]))" % ev[1]
        if k == "fromatoms":
            return "L.append(formula(L[%d].atoms))" % ev[1]
        if k == "add":
            return "L.append(L[%d] + L[%d])" % (ev[1], ev[2])
        if k == "iadd":
            return "L[%d] += L[%d]" % (ev[1], ev[2])
        raise ValueError(ev)

    # ---- transition function: runs the real operators and the reference in lock step
    def apply(self, live, ev, hist, acc, check=True, check_all=False):
        """Execute one event on the live list (real code + reference), then run the oracle.
        Returns False if the event raised."""
        B = self.B
        k = ev[0]
        changed = None
        try:
            if k == "base":
                _, _, mk, ref = B.items[B.index[ev[1]]]
                live.append([mk(), dict(ref), None]); changed = len(live) - 1
            elif k == "sbase":
                live.append([B.formula(self.s_text(ev[1])), self.s_ref(ev[1]), None]); changed = len(live) - 1
            elif k == "addg":
                _, _, mk, ref = B.items[B.index[ev[2]]]
                g = mk(); live.append([g, dict(ref), g.structure])
                s = live[ev[1]]
                live.append([s[0] + g, _radd(s[1], ref), None]); changed = len(live) - 1
            elif k == "iaddg":
                _, _, mk, ref = B.items[B.index[ev[2]]]
                g = mk(); live.append([g, dict(ref), g.structure])
                s = live[ev[1]]
                f = s[0]; f += g
                s[0] = f; s[1] = _radd(s[1], ref); changed = ev[1]
            elif k == "mul":
                s = live[ev[2]]
                live.append([ev[1] * s[0], _rmul(s[1], ev[1]), None]); changed = len(live) - 1
            elif k == "copy":
                s = live[ev[1]]
                live.append([B.formula(s[0]), dict(s[1]), None]); changed = len(live) - 1
            elif k == "fromatoms":
                s = live[ev[1]]
                live.append([B.formula(s[0].atoms), dict(s[1]), None]); changed = len(live) - 1
            elif k == "add":
                s, t = live[ev[1]], live[ev[2]]
                live.append([s[0] + t[0], _radd(s[1], t[1]), None]); changed = len(live) - 1
            elif k == "iadd":
                s, t = live[ev[1]], live[ev[2]]
                tref = dict(t[1])
                f = s[0]; f += t[0]
                s[0] = f; s[1] = _radd(s[1], tref); changed = ev[1]
            else:
                raise ValueError(ev)
        except Exception as e:
            if check and k == "sbase":
                small = self.s_minimal(ev[1])
                self._viol(acc, "exception:str:%s:%s" % (t_shape(small), type(e).__name__), (("sbase", small),),
                           "no exception", "%s: %s" % (type(e).__name__, e))
            elif check:
                self._viol(acc, "exception:%s:%s" % (k, type(e).__name__), hist,
                           "no exception", "%s: %s" % (type(e).__name__, e))
            return False
        if check:
            for i, (f, ref, snap) in enumerate(live):
                if i == changed and k == "sbase":
                    scratch = Acc()
                    self._check_formula(f, ref, scratch, hist, "str")
                    if scratch.vcount:
                        # name the cause: the smallest sub-derivation that is wrong on its own
                        small = self.s_minimal(ev[1])
                        h = (("sbase", small),)
                        g = None
                        try:
                            g = B.formula(self.s_text(small))
                        except Exception as e:
                            self._viol(acc, "exception:str:%s:%s" % (t_shape(small), type(e).__name__), h,
                                       "no exception", "%s: %s" % (type(e).__name__, e))
                        if g is not None:
                            self._check_formula(g, self.s_ref(small), acc, h, "str:" + t_shape(small))
                elif i == changed:
                    self._check_formula(f, ref, acc, hist, k)
                elif snap is not None and not _same_structure(f.structure, snap):
                    self._viol(acc, "operand-changed:" + k, hist,
                               "formula #%d unchanged: %s" % (i, _srepr(snap)), _srepr(f.structure))
                elif check_all:
                    self._check_formula(f, ref, acc, hist, k)
        for rec in live:
            rec[2] = rec[0].structure
        return True

    def build(self, hist, acc, check_all=False):
        live = []      # [formula, refdict, snapshot]
        for step, ev in enumerate(hist):
            last = check_all or step == len(hist) - 1
            if not self.apply(live, ev, hist[:step + 1], acc, check=last, check_all=check_all):
                return None
        return live

    def events(self, live, hist):
        if live is None:
            return []
        deepest = self.depth is not None and len(hist) == self.depth - 1   # hist includes the base event
        labels = self.last_operands if (deepest and self.last_operands is not None) else self.operand_labels
        n = len(live)
        evs = []
        for i in range(n):
            for lab in labels:
                evs.append(("addg", i, lab))
        for m in self.mults:
            for i in range(n):
                evs.append(("mul", m, i))
        for i in range(n):
            for lab in labels:
                evs.append(("iaddg", i, lab))
        for i in range(n):
            evs.append(("copy", i))
            evs.append(("fromatoms", i))
        for i in range(n):
            for j in range(n):
                evs.append(("add", i, j))
                evs.append(("iadd", i, j))
        return evs

    def canon(self, live):
        if live is None:
            return None
        out = []
        ids = {}
        for f, ref, snap in live:
            alias = ids.setdefault(id(f), len(ids))
            out.append((_srepr(f.structure), alias))
        return tuple(out)

    def nontrivial(self, st, hist):
        return st is not None and len(hist) > 1

    def describe(self, hist):
        return [list(e) for e in hist]


def _jtree(x):
    return [_jtree(y) for y in x] if isinstance(x, tuple) else x


def _radd(a, b):
    out = dict(a)
    for k, v in b.items():
        out[k] = out.get(k, 0) + v
    return out


def _rmul(a, n):
    n = Fraction(n)
    return dict((k, v * n) for k, v in a.items())


def _same_structure(a, b):
    return a is b or _srepr(a) == _srepr(b)


def _srepr(s):
    """Printable nested form of a structure: counts with repr, atoms by name, container kind kept."""
    if isinstance(s, (list, tuple)):
        body = ",".join("%r*%s" % (c, _srepr(f)) for c, f in s)
        return ("(%s)" if isinstance(s, tuple) else "[%s]") % body
    return str(s) if not hasattr(s, "charge") or s.charge == 0 else "%s{%+d}" % (s.element, s.charge)


# ---------------------------------------------------------------- caller-owned argument objects
ARG_KINDS = ("dict", "list", "tuple", "formula", "str", "blank", "none", "atom")
ARG_EVENTS = (("call",), ("mut", 1), ("mut", 2), ("mut", 3), ("iadd_first",))


class ArgModel(OpModel):
    """Histories over ONE argument object c owned by the caller: formula(c) called repeatedly, c updated in place
    by the caller in between (count changed, atom added, atom removed / nested part changed), the first result
    extended in place.  After every event: c is what the caller made it (deep comparison), every result ever
    returned still has the composition c had when it was built (+ what was added to it with +=), and a new
    result has the composition c has now."""
    name = "C02 argument histories"

    def __init__(self):
        OpModel.__init__(self, 0)
        self.kind = None
        self.ahist = ()

    def _viol(self, acc, sig, hist, expected, observed):
        acc.violation(sig, dict(arg_kind=self.kind, arg_history=[list(e) for e in self.ahist]),
                      expected=expected, observed=observed, standalone=self.arg_snippet(self.kind, self.ahist))

    # -- the argument object, its mutations, and their python text
    def make(self, kind):
        a = self.B.A
        H, O, D = a["H"], a["O"], a["D"]
        if kind == "dict":
            return {H: 2, O: 1}
        if kind == "list":
            return [(2, H), (1, [(1, O), (1, H)])]
        if kind == "tuple":
            return ((2, H), (1, [(1, O), (1, H)]))
        if kind == "formula":
            return self.B.formula([(2, H), (1, O)])
        return dict(str="H2O", blank=" ", none=None, atom=H)[kind]

    MAKE_CODE = dict(dict="c = {pt.H: 2, pt.O: 1}", list="c = [(2, pt.H), (1, [(1, pt.O), (1, pt.H)])]",
                     tuple="c = ((2, pt.H), (1, [(1, pt.O), (1, pt.H)]))", formula="c = formula([(2, pt.H), (1, pt.O)])",
                     str="c = 'H2O'", blank="c = ' '", none="c = None", atom="c = pt.H")
    MUT_CODE = {("dict", 1): "c[pt.H] = 3", ("dict", 2): "c[pt.Fe.ion[2]] = 0.5",
                ("dict", 3): "c.pop(pt.O) if pt.O in c else c.update({pt.O: 1})",
                ("list", 1): "c[0] = (3, pt.H)", ("list", 2): "c.append((0.5, pt.Fe.ion[2]))",
                ("list", 3): "c[1][1][0] = (2, pt.O)",
                ("tuple", 1): "c[1][1][0] = (2, pt.O)", ("tuple", 2): "c[1][1].append((0.5, pt.Fe.ion[2]))",
                ("tuple", 3): "del c[1][1][-1]",
                ("formula", 1): "c += formula(pt.H)", ("formula", 2): "c += formula(pt.Fe.ion[2])",
                ("formula", 3): "c += c"}

    def mutate(self, kind, c, k):
        """The caller updates the argument in place; returns c (the same object)."""
        a = self.B.A
        H, O, Fe2 = a["H"], a["O"], a["Fe2"]
        if kind == "dict":
            if k == 1:
                c[H] = 3
            elif k == 2:
                c[Fe2] = 0.5
            elif O in c:
                del c[O]
            else:
                c[O] = 1
        elif kind == "list":
            if k == 1:
                c[0] = (3, H)
            elif k == 2:
                c.append((0.5, Fe2))
            else:
                c[1][1][0] = (2, O)
        elif kind == "tuple":
            if k == 1:
                c[1][1][0] = (2, O)
            elif k == 2:
                c[1][1].append((0.5, Fe2))
            else:
                del c[1][1][-1]
        elif kind == "formula":
            if k == 1:
                c += self.B.formula(H)
            elif k == 2:
                c += self.B.formula(Fe2)
            else:
                c += c
        else:
            raise ValueError((kind, k))
        return c

    def enabled(self, kind, c, ev, ncalls):
        if ev[0] == "mut":
            if kind not in ("dict", "list", "tuple", "formula"):
                return False
            return not (kind == "tuple" and ev[1] == 3 and len(c[1][1]) <= 1)
        if ev[0] == "iadd_first":
            return ncalls > 0
        return True

    def weigh(self, kind, c):
        """Reference composition of the argument as it is now (own walker, exact Fractions)."""
        if kind == "dict":
            return dict((k, Fraction(v)) for k, v in c.items())
        if kind in ("list", "tuple"):
            return _weigh_seq(c)
        if kind == "formula":
            return _weigh_seq(c.structure)
        if kind == "str":
            return {self.B.A["H"]: Fraction(2), self.B.A["O"]: Fraction(1)}
        if kind == "atom":
            return {c: Fraction(1)}
        return {}

    def snap(self, kind, c):
        """Deep, comparable picture of the argument object."""
        if kind == "dict":
            return sorted((str(k), id(k), v) for k, v in c.items())
        if kind in ("list", "tuple"):
            return _deep(c)
        if kind == "formula":
            return (_srepr(c.structure), sorted((k, repr(v)) for k, v in c.__dict__.items() if k != "structure"))
        return repr(c)

    def arg_snippet(self, kind, ahist):
        lines = ["import periodictable as pt", "from periodictable import formula", self.MAKE_CODE[kind], "L = []"]
        for ev in ahist:
            if ev[0] == "call":
                lines.append("L.append(formula(c))")
            elif ev[0] == "mut":
                lines.append(self.MUT_CODE[(kind, ev[1])])
            else:
                lines.append("L[0] += formula(pt.O[18])")
        lines.append("print(c)")
        lines.append("for f in L: print(repr(f.structure), f.atoms, f.mass, f.charge)")
        return "\n".join(lines) + "\n"

    def run_history(self, kind, ahist, acc):
        """Execute one history with the oracle after every event; returns False at the first violation."""
        self.kind = kind
        c = self.make(kind)
        results = []          # [formula, ref]
        o18 = self.B.A["O18"]
        for step, ev in enumerate(ahist):
            self.ahist = tuple(ahist[:step + 1])
            v0 = acc.vcount
            before = self.snap(kind, c)
            new = None
            try:
                if ev[0] == "call":
                    new = [self.B.formula(c), self.weigh(kind, c)]
                elif ev[0] == "mut":
                    c = self.mutate(kind, c, ev[1])
                    before = self.snap(kind, c)             # what the caller made it
                else:
                    f = results[0][0]
                    f += self.B.formula(o18)
                    results[0][0] = f
                    results[0][1] = _radd(results[0][1], {o18: Fraction(1)})
            except Exception as e:
                self._viol(acc, "exception:argument-%s:%s:%s" % (ev[0], kind, type(e).__name__), None,
                           "no exception", "%s: %s" % (type(e).__name__, e))
                return False
            acc.transitions += 1
            acc.evaluations += 1
            if self.snap(kind, c) != before:
                self._viol(acc, "argument-changed:%s:%s" % (ev[0], kind), None, before, self.snap(kind, c))
                return False
            why = {"call": "earlier-result-after-call", "mut": "earlier-result-after-argument-update",
                   "iadd_first": "other-result-after-iadd"}[ev[0]]
            for i, (f, ref) in enumerate(results):
                what = "extended-result" if (ev[0] == "iadd_first" and i == 0) else why
                self._check_formula(f, ref, acc, None, "%s:%s" % (what, kind))
            if new is not None:
                updated = any(e[0] == "mut" for e in ahist[:step])
                repeated = any(e[0] == "call" for e in ahist[:step])
                what = ("result-after-argument-update" if updated else
                        "result-of-repeated-call" if repeated else "result")
                self._check_formula(new[0], new[1], acc, None, "%s:%s" % (what, kind))
                results.append(new)
            if acc.vcount != v0:
                return False
        return True

    def histories(self, kind, depth):
        """All event sequences up to the depth whose events are enabled (decided on a dry run of the argument)."""
        out = []
        def rec(hist):
            if hist:
                out.append(hist)
            if len(hist) >= depth:
                return
            c = self.make(kind)
            ncalls = 0
            ok = True
            for ev in hist:
                if ev[0] == "mut":
                    c = self.mutate(kind, c, ev[1])
                elif ev[0] == "call":
                    ncalls += 1
            for ev in ARG_EVENTS:
                if self.enabled(kind, c, ev, ncalls):
                    rec(hist + (ev,))
        rec(())
        return out


def _weigh_seq(seq):
    out = {}
    for count, frag in seq:
        part = _weigh_seq(frag) if isinstance(frag, (list, tuple)) else {frag: Fraction(1)}
        for k, v in part.items():
            out[k] = out.get(k, 0) + Fraction(count) * v
    return out


def _deep(x):
    if isinstance(x, (list, tuple)):
        return (type(x).__name__, tuple(_deep(y) for y in x))
    return (str(x), id(x)) if hasattr(x, "symbol") else repr(x)


def _arg_shard(args):
    kind, depth = args
    m = ArgModel()
    acc = Acc()
    for h in m.histories(kind, depth):
        ok = m.run_history(kind, h, acc)
        acc.states += 1
        acc.nontrivial += 1 if len(h) > 1 else 0
        acc.count("argument_histories")
        acc.outcome("arg:%s:%s" % (kind, "ok" if ok else "violation"))
    return acc


class Dfs(object):
    """Depth-first walk of the same graph with undo (in-place += is undone by restoring the
    formula's __dict__), so a path costs one operator call per transition instead of a replay.
    Every path of the bound is walked (no merging); distinct states are counted by an incremental
    hash of the live tuple."""
    def __init__(self, model, acc, depth):
        self.m, self.acc, self.depth = model, acc, depth
        self.seen = set()

    def start(self, base_label):
        return self.start_event(("base", base_label))

    def start_event(self, ev, walk=True):
        hist = (ev,)
        v0 = self.acc.vcount
        live = self.m.build(hist, self.acc)
        self.acc.evaluations += 1
        self.acc.states += 1
        if live is None or self.acc.vcount != v0 or not walk:
            return
        self.walk(hist, live, hash(("root", ev)))

    def walk(self, hist, live, hkey):
        m, acc = self.m, self.acc
        if len(hist) >= self.depth:
            return
        for ev in m.events(live, hist):
            h2 = hist + (ev,)
            n0 = len(live)
            k = ev[0]
            saved = [(r, r[0], dict(r[0].__dict__), r[1], r[2]) for r in live]
            v0 = acc.vcount
            ok = m.apply(live, ev, h2, acc)
            acc.transitions += 1
            acc.evaluations += 1
            if ok and acc.vcount == v0:
                ch = live[ev[1]] if k in ("iaddg", "iadd") else live[-1]
                hk = hash((hkey, ev, _srepr(ch[0].structure),
                           tuple(i for i, r in enumerate(live) if r[0] is ch[0])))
                if hk not in self.seen:
                    self.seen.add(hk)
                    acc.states += 1
                    acc.nontrivial += 1
                    if acc.states % 20011 == 0:
                        acc.sample(m.describe(h2))
                else:
                    acc.count("merged_arrivals")
                self.walk(h2, live, hk)
            # undo: drop what the event created and restore every live formula object
            del live[n0:]
            for rec, fobj, d, ref, snap in saved:
                fobj.__dict__.clear(); fobj.__dict__.update(d)
                rec[0], rec[1], rec[2] = fobj, ref, snap


def _shard(args):
    alphabet, operands, depth, last_ops, firsts, mults = args
    m = OpModel(alphabet, operands, mults)
    m.depth = depth
    m.last_operands = m.B.reduced if last_ops else None      # labels depend on the atom alphabet
    acc = Acc()
    d = Dfs(m, acc, depth)
    for lab in firsts:
        d.start(lab)
    acc.info["max_depth_completed"] = depth - 1
    return acc


def _str_shard(args):
    """One slice of the string derivations of a tier: parse + oracle; single groups also walk one operator."""
    tier, alphabet, i, k = args
    m = OpModel(alphabet, "reduced", (0, 0.5, 1, 2, 3, 2.5))
    m.depth = 2
    acc = Acc()
    d = Dfs(m, acc, 2)
    cases = str_cases(tier, alphabet)
    for name, walk, tree in cases[i::k]:
        d.start_event(("sbase", tree), walk)
        acc.count("string_derivations")
        acc.count("strings:" + name)
        if t_nontrivial(tree):
            acc.nontrivial += 1
        acc.outcome("str:" + name)
    if i == 0:
        acc.sample(dict(string_examples=[m.s_text(t) for _, _, t in cases[::max(1, len(cases) // 8)]][:8]))
    return acc


def _any_shard(job):
    return {"op": _shard, "str": _str_shard, "arg": _arg_shard}[job[0]](job[1])


def run(ctx):
    plans = []
    B0 = Bases(0)
    labels = [b[0] for b in B0.items]
    red = B0.reduced
    if ctx.quick:
        plans.append((0, "full", 3, None, MULTS))        # base + 2 operators, full operand alphabet
        plans.append((0, "reduced", 4, red, (0, 1, 2.5)))  # base + 3 operators, reduced operands
    else:
        plans.append((0, "full", 4, red, MULTS))
        plans.append((1, "full", 3, None, MULTS))
        plans.append((1, "reduced", 4, red, (0, 0.5, 1, 3)))
    jobs = []
    for alphabet, operands, depth, last_ops, mults in plans:
        labs = [b[0] for b in Bases(alphabet).items]
        for lab in rotate(labs, ctx.seed):
            jobs.append((alphabet, operands, depth, last_ops, [lab], mults))
    # string derivations
    sjobs = []
    for alphabet in ((0,) if ctx.quick else (0, 1)):
        n = len(str_cases(ctx.tier, alphabet))
        k = max(1, min(n // 1500, 64 if ctx.quick else 256))
        sjobs += [(ctx.tier, alphabet, i, k) for i in rotate(range(k), ctx.seed)]
    ajobs = [(kind, 5 if ctx.quick else 6) for kind in ARG_KINDS]
    ctx.pmap(_any_shard, [("op", j) for j in jobs] + [("str", j) for j in sjobs] + [("arg", j) for j in ajobs])
    # every transition executes the real operators, every derivation the real parser
    ctx.acc.traces = ctx.acc.transitions + ctx.acc.info.get("string_derivations", 0)
    ctx.acc.info["argument_history_depth"] = ajobs[0][1]
    ctx.acc.info["plans"] = [dict(alphabet=p[0], operands=p[1], events_per_path=p[2]) for p in plans]


def replay(ctx, case, signature=None):
    if "arg_history" in case:
        ArgModel().run_history(case["arg_kind"], tuple(tuple(e) for e in case["arg_history"]), ctx.acc)
        return
    m = OpModel(case.get("alphabet", 0))
    hist = tuple(_tt(e) for e in case["history"])
    m.build(hist, ctx.acc, check_all=True)
