"""C20 - ancillary tables are served to exactly the element or ion they belong to.

Complete sweep of the five ancillary tables (covalent radii, crystal structures, K emission lines,
magnetic form factors, Cromer-Mann coefficients) over all 119 elements in every configuration of
the shared configuration graph, against independent readers; closed forms of the form factors."""
import math
from ..common import Acc, load_pt, close, rotate, MachineryError
from ..ref import tables as rt
from ..configs import QUICK_PATHS, all_paths, apply_event, judged_tables, snippet as _snippet

META = dict(
    level="model_checking", engine="E1",
    technique="complete sweep of the five ancillary tables over all elements in every state of a configuration "
              "graph, against independent readers and closed forms",
    rule=("every configuration path runs in a fresh forked interpreter; in the end state, for the public table and every "
          "private table on which the groups were initialised, every element x every ancillary quantity is compared "
          "with the independent reader (entry or absence), and every magnetic / Cromer-Mann coefficient set is evaluated "
          "on the Q grid against the closed form; the Cromer-Mann entries are also read THROUGH THE ATOMS of every judged "
          "table: every element, every ion (all charges of element.ions), every isotope and every isotope ion evaluates "
          ".xray.f0(Q) on the Q grid to the closed form of the entry written for its symbol and charge, and an atom "
          "without an entry serves no number; the other four tables are read through every isotope, ion and isotope ion "
          "as well (the element's entry or nothing); cells are distinct by construction"),
    bound=dict(quick="6 configuration paths x all elements x all five tables (exhaustive over the tables)",
               thorough="all configuration paths up to length 4 x the same"),
    assumptions=["the embedded table text is the source of truth", "crystal-structure ownership is taken from the trailing "
                 "#Sym comment of each list entry when that label is a valid symbol occurring exactly once",
                 "Ho2+ J is listed twice in the CrysFML data: either record accepted",
                 "the neutron (Z=0) covalent radius 0.20 is a statement of the loader, not a table entry: not judged",
                 "the x-ray form factor belongs to the chemical element and its charge: isotopes (D and T included) are "
                 "served the entry of their element, isotope ions the entry of the element's ion; the valence-state "
                 "entries 'Cval' and 'Siva' belong to no atom of the table",
                 "an atom whose symbol and charge have no Cromer-Mann entry may raise, return None or NaN (all 'no data')",
                 "an isotope, ion or isotope ion has no covalent-radius / structure / emission / magnetic entry of its "
                 "own: it may serve its element's entry (same object, equal data, or equal records) or nothing; an ion may "
                 "serve the magnetic form factors of its own charge state only"],
    level_text="complete over the finite domain (119 elements x 97 radii, 104 structure slots, 91 emission rows, 344 magnetic "
               "records / 98 charge states, 211 Cromer-Mann entries, and every isotope / ion / isotope-ion object of the table) "
               "in each explored configuration; Q on a fixed grid",
    level_note="independent readers in mc/ref/tables.py and mc/ref/xray.py (regex / ast / tokenize; no eval, no shared code)",
)

QGRID = (0.0, 0.5, 4 * math.pi, 30.0)


def ff0(c, q):
    s2 = (q / (4 * math.pi)) ** 2
    A, a, B, b, C, cc, D = c
    return A * math.exp(-a * s2) + B * math.exp(-b * s2) + C * math.exp(-cc * s2) + D


def ffn(c, q):
    return (q / (4 * math.pi)) ** 2 * ff0(c, q)


def same_data(got, want):
    """The same entry: the same object, equal plain data, or (records such as the magnetic form factors, which may
    be handed out as copies) equal attribute dictionaries."""
    if got is want:
        return True
    try:
        if isinstance(got, dict) and isinstance(want, dict):
            return sorted(got) == sorted(want) and all(same_data(got[k], want[k]) for k in want)
        if bool(got == want):
            return True
        return hasattr(got, "__dict__") and hasattr(want, "__dict__") and vars(got) == vars(want)
    except Exception:
        return False


def load_cm():
    try:
        from ..ref import xray as rx
    except ImportError:
        return None
    fn = getattr(rx, "cromer_mann_coefficients", None)
    if fn is None:
        return None
    out = fn()
    return out if isinstance(out, dict) else None


def sweep(pt, T, label, path, acc):
    cells = 0
    symbols = dict((el.symbol, el) for el in T)

    def bad(rule, key, expected, observed, code):
        acc.violation("%s:%s" % (rule, "public" if label == "public" else "private"),
                      dict(path=list(path), table=label, key=key, rule=rule),
                      expected=expected, observed=observed, standalone=_snippet(path, label, code))

    # ---- covalent radius
    radii = rt.covalent_radii()
    for el in T:
        Z = el.number
        if Z == 0:
            continue
        code = "print(T[%d].covalent_radius, T[%d].covalent_radius_uncertainty)" % (Z, Z)
        want = radii.get(Z)
        cells += 2
        try:
            r = getattr(el, "covalent_radius", None)
            u = getattr(el, "covalent_radius_uncertainty", None)
        except Exception as e:
            bad("radius-raises", [Z], want, "%s: %s" % (type(e).__name__, e), code)
            continue
        if want is None:
            if r is not None or u is not None:
                bad("radius-without-entry", [Z], None, (r, u), code)
        else:
            if not close(r, want[1], 1e-12):
                bad("radius", [Z], want[1], r, code)
            if not close(u, want[2], 1e-12, 1e-15):
                bad("radius-uncertainty", [Z], want[2], u, code)
    cells += 1
    if getattr(T.Fe, "covalent_radius_units", None) != "angstrom":
        bad("radius-units", [26], "angstrom", getattr(T.Fe, "covalent_radius_units", None), "print(T.Fe.covalent_radius_units)")

    # ---- crystal structure
    slots = rt.crystal_structures()
    labels = {}
    for i, v, lab in slots:
        labels.setdefault(lab, []).append(i)
    expected = {}           # Z -> value
    for i, v, lab in slots:
        if lab in symbols and len(labels[lab]) == 1:
            expected[symbols[lab].number] = ("label", v)
    for i, v, lab in slots:
        if i not in expected and i <= max(e.number for e in T):
            # no usable label points at element i: use the slot index (documented: list index is Z)
            if not (lab in symbols and len(labels[lab]) == 1):
                expected[i] = ("index", v)
    for el in T:
        Z = el.number
        code = "print(getattr(T[%d], 'crystal_structure', 'absent'))" % Z
        cells += 1
        try:
            got = getattr(el, "crystal_structure", None)
        except Exception as e:
            bad("crystal-raises", [Z], expected.get(Z), "%s: %s" % (type(e).__name__, e), code)
            continue
        if Z in expected:
            how, want = expected[Z]
            if got != want:
                bad("crystal", [Z], want, got, code)
        elif got is not None:
            bad("crystal-without-entry", [Z], None, got, code)

    # ---- emission lines
    lines = rt.spectral_lines()
    for sym in lines:
        if sym not in symbols:
            raise MachineryError("spectral line row for unknown symbol %s" % sym)
    for el in T:
        Z = el.number
        code = "print(getattr(T[%d], 'K_alpha', 'absent'), getattr(T[%d], 'K_beta1', 'absent'))" % (Z, Z)
        cells += 2
        try:
            ka = getattr(el, "K_alpha", None)
            kb = getattr(el, "K_beta1", None)
        except Exception as e:
            bad("lines-raises", [Z], lines.get(el.symbol), "%s: %s" % (type(e).__name__, e), code)
            continue
        want = lines.get(el.symbol)
        if want is None:
            if ka is not None or kb is not None:
                bad("lines-without-entry", [Z], None, (ka, kb), code)
        else:
            if not close(ka, want[0], 1e-12):
                bad("lines-K_alpha", [Z], want[0], ka, code)
            if not close(kb, want[1], 1e-12):
                bad("lines-K_beta1", [Z], want[1], kb, code)
    cells += 2
    for u in ("K_alpha_units", "K_beta1_units"):
        try:
            gu = getattr(T.Cu, u)
        except Exception as e:
            gu = "%s: %s" % (type(e).__name__, e)
        if gu != "angstrom":
            bad("lines-units", [29, u], "angstrom", gu, "print(T.Cu.%s)" % u)

    # ---- magnetic form factors
    recs = rt.magnetic_records()
    want_m = {}     # symbol -> charge -> kind -> [coeffs alternatives]
    for kind, sym, q, c in recs:
        want_m.setdefault(sym, {}).setdefault(q, {}).setdefault(kind, []).append(c)
    for sym in want_m:
        if sym not in symbols:
            raise MachineryError("magnetic record for unknown symbol %s" % sym)
    for el in T:
        Z, sym = el.number, el.symbol
        code = "print(dict((q, vars(m)) for q, m in getattr(T[%d], 'magnetic_ff', {}).items()))" % Z
        cells += 1
        try:
            got = getattr(el, "magnetic_ff", None)
        except Exception as e:
            bad("magnetic-raises", [Z], sorted(want_m.get(sym, {})), "%s: %s" % (type(e).__name__, e), code)
            continue
        want = want_m.get(sym)
        if want is None:
            if got:
                bad("magnetic-without-entry", [Z], None, sorted(got), code)
            continue
        if not isinstance(got, dict) or sorted(got) != sorted(want):
            bad("magnetic-charges", [Z], sorted(want), sorted(got) if isinstance(got, dict) else got, code)
            continue
        for q in sorted(want):
            m = got[q]
            for kind in ("j0", "J", "j2", "j4", "j6"):
                cells += 1
                alts = want[q].get(kind)
                has = hasattr(m, kind)
                if alts is None:
                    if has:
                        bad("magnetic-kind-without-entry:" + kind, [Z, q], "absent", getattr(m, kind), code)
                    continue
                if not has:
                    bad("magnetic-kind-missing:" + kind, [Z, q], alts[0], "absent", code)
                    continue
                c = tuple(getattr(m, kind))
                if not any(len(c) == 7 and all(close(x, y, 1e-12, 1e-15) for x, y in zip(c, a)) for a in alts):
                    bad("magnetic-coefficients:" + kind, [Z, q], alts, c, code)
                    continue
                ref_c = [a for a in alts if all(close(x, y, 1e-12, 1e-15) for x, y in zip(c, a))][0]
                fn = getattr(m, kind + "_Q")
                for Q in QGRID:
                    cells += 1
                    wantv = ff0(ref_c, Q) if kind in ("j0", "J") else ffn(ref_c, Q)
                    gotv = float(fn(Q))
                    if not close(gotv, wantv, 1e-9, 1e-12):
                        bad("magnetic-formfactor:" + kind, [Z, q, Q], wantv, gotv,
                            "print(T[%d].magnetic_ff[%d].%s_Q(%r))" % (Z, q, kind, Q))
                        break
                # the same grid as one float64 array, evaluated twice (the caller's array must not be altered and
                # the second evaluation must give the same, correct, values)
                import numpy as np
                Qarr = np.array(QGRID, dtype=float)
                cells += 1
                try:
                    v1 = np.asarray(fn(Qarr), dtype=float).tolist()
                    same = Qarr.tolist() == list(QGRID)
                    v2 = np.asarray(fn(Qarr), dtype=float).tolist()
                except Exception as e:
                    bad("magnetic-formfactor-vector-raises:" + kind, [Z, q], "values", "%s: %s" % (type(e).__name__, e),
                        "import numpy\nprint(T[%d].magnetic_ff[%d].%s_Q(numpy.array(%r)))" % (Z, q, kind, list(QGRID)))
                else:
                    wantv = [ff0(ref_c, Q) if kind in ("j0", "J") else ffn(ref_c, Q) for Q in QGRID]
                    vcode = ("import numpy\nQ = numpy.array(%r)\nm = T[%d].magnetic_ff[%d]\nprint(m.%s_Q(Q)); print(Q); print(m.%s_Q(Q))"
                             % (list(QGRID), Z, q, kind, kind))
                    if not same:
                        bad("magnetic-formfactor-alters-its-argument:" + kind, [Z, q], list(QGRID), Qarr.tolist(), vcode)
                    elif not all(close(a, b, 1e-9, 1e-12) for a, b in zip(v1, wantv)) or \
                            not all(close(a, b, 1e-9, 1e-12) for a, b in zip(v2, wantv)) or len(v1) != len(wantv):
                        bad("magnetic-formfactor-vector:" + kind, [Z, q], wantv, (v1, v2), vcode)
                if kind == "j0":
                    cells += 2
                    v0 = float(m.j0_Q(0.0))
                    if abs(v0 - 1.0) > 0.005:
                        bad("magnetic-j0-at-0", [Z, q], "1 +- 0.5%", v0, "print(T[%d].magnetic_ff[%d].j0_Q(0))" % (Z, q))
                    if tuple(m.M) != c or not close(float(m.M_Q(0.5)), ff0(ref_c, 0.5), 1e-9):
                        bad("magnetic-M-is-j0", [Z, q], c, tuple(m.M), "print(T[%d].magnetic_ff[%d].M)" % (Z, q))
                elif kind in ("j2", "j4", "j6"):
                    cells += 1
                    v0 = float(fn(0.0))
                    if abs(v0) > 1e-12:
                        bad("magnetic-jn-at-0:" + kind, [Z, q], 0.0, v0, "print(T[%d].magnetic_ff[%d].%s_Q(0))" % (Z, q, kind))

    # ---- the same quantities read through the other atom objects of an element (several types in one process):
    # an isotope, an ion or an isotope ion has no entry of its own in these tables; what it serves is the entry of
    # its element, or nothing (None / no attribute) - never other data
    names = ("covalent_radius", "covalent_radius_uncertainty", "crystal_structure", "K_alpha", "K_beta1", "magnetic_ff")
    for el in T:
        Z = el.number
        try:
            own = [getattr(el, n, None) for n in names]
        except Exception:
            continue                    # reported above
        atoms = [("isotope", A, 0) for A in el.isotopes]
        for q in getattr(el, "ions", ()):
            atoms.append(("ion", 0, q))
            atoms += [("isotope-ion", A, q) for A in el.isotopes]
        done = set()
        for klass, A, q in atoms:
            if klass in done:
                continue
            expr = "T[%d]" % Z + ("[%d]" % A if A else "") + (".ion[%d]" % q if q else "")
            try:
                atom = el[A] if A else el
                if q:
                    atom = atom.ion[q]
            except Exception as e:
                bad("atom-raises", [Z, A, q], "an atom", "%s: %s" % (type(e).__name__, e), "print(%s)" % expr)
                break
            for n, want in zip(names, own):
                cells += 1
                try:
                    got = getattr(atom, n, None)
                except Exception:
                    continue            # nothing served
                if got is None:
                    continue
                if n == "magnetic_ff" and q and isinstance(want, dict):
                    # an ion may also be served its own charge state only (as a mapping or as the record)
                    if isinstance(got, dict) and set(got) <= set(want) and all(same_data(got[k], want[k]) for k in got):
                        continue
                    if q in want and same_data(got, want[q]):
                        continue
                if not same_data(got, want):
                    bad("%s-through-%s-differs-from-element" % (n.replace("_", "-"), klass), [Z, A, q],
                        repr(want)[:300], repr(got)[:300],
                        "print(getattr(%s, %r, None), getattr(T[%d], %r, None))" % (expr, n, Z, n))
                    done.add(klass)     # one report per element and kind of atom
                    break
    return cells


def f0_scale(coef, q):
    a, c, b = coef
    s2 = (q / (4 * math.pi)) ** 2
    return abs(c) + sum(abs(ai) * math.exp(-bi * s2) for ai, bi in zip(a, b))


def f0_closed(coef, q):
    a, c, b = coef
    s2 = (q / (4 * math.pi)) ** 2
    return c + sum(ai * math.exp(-bi * s2) for ai, bi in zip(a, b))


def sweep_f0_atoms(pt, T, label, path, acc):
    """The Cromer-Mann entries as they are SERVED THROUGH THE ATOMS of table T: every element, every ion of it
    (all charges of element.ions), every isotope and every isotope ion evaluates .xray.f0(Q) to the closed form
    of the entry written for its element symbol and charge ('Fe', 'Fe2+', 'O1-'); an atom whose symbol+charge
    has no entry serves no number (an exception, None or NaN - never a neighbour's or another state's fit)."""
    try:
        from ..ref import xray as rx
        entries = rx.f0_entries()
        parts = rx.f0_symbol_parts
    except (ImportError, AttributeError):
        acc.notes.append("Cromer-Mann reader (mc/ref/xray.py) not available: f0 through atoms skipped")
        return 0
    by_atom = {}
    for e in entries:
        p = parts(e["symbol"])
        if p is None:
            acc.count("cromermann_entries_without_atom(valence states)")
            continue
        if p in by_atom:
            raise MachineryError("two Cromer-Mann entries for %r" % (p,))
        by_atom[p] = e
    cells = 0
    used = set()

    def bad(rule, key, expected, observed, code):
        acc.violation("%s:%s" % (rule, "public" if label == "public" else "private"),
                      dict(path=list(path), table=label, key=key, rule=rule),
                      expected=expected, observed=observed, standalone=_snippet(path, label, code))

    for el in T:
        Z, sym = el.number, el.symbol
        for q in (0,) + tuple(getattr(el, "ions", ())):
            ent = by_atom.get((sym, q))
            if ent is not None:
                used.add((sym, q))
                if ent["Z"] != Z:
                    bad("cromermann-entry-atomic-number", [Z, q], ent["Z"], Z, "print(T[%d].symbol)" % Z)
                    continue
                coef = (ent["a"], ent["c"], ent["b"])
                want = [(f0_closed(coef, Q), f0_scale(coef, Q)) for Q in QGRID]
            atoms = [("ion" if q else "element", 0)] + [("isotope-ion" if q else "isotope", A) for A in el.isotopes]
            for klass, A in atoms:
                expr = "T[%d]" % Z + ("[%d]" % A if A else "") + (".ion[%d]" % q if q else "")
                try:
                    atom = el[A] if A else el
                    if q:
                        atom = atom.ion[q]
                except Exception as e:
                    bad("atom-raises", [Z, A, q], "an atom", "%s: %s" % (type(e).__name__, e), "print(%s)" % expr)
                    break
                if ent is None:
                    cells += 1
                    code = "print(%s.xray.f0(0.5))   # no entry %r in f0_WaasKirf.dat" % (
                        expr, sym + ("%d%s" % (abs(q), "+" if q > 0 else "-") if q else ""))
                    try:
                        v = atom.xray.f0(0.5)
                        v = None if v is None else float(v)
                    except Exception:
                        v = None
                    if v is not None and v == v:
                        bad("cromermann-f0-without-entry-through-" + klass, [Z, A, q], "no data", v, code)
                        break
                    continue
                ok = True
                for Q, (w, scale) in zip(QGRID, want):
                    cells += 1
                    code = "print(%s.xray.f0(%r))   # entry %r of f0_WaasKirf.dat" % (expr, Q, ent["symbol"])
                    try:
                        v = float(atom.xray.f0(Q))
                    except Exception as e:
                        bad("cromermann-f0-through-%s-raises" % klass, [Z, A, q, Q], w, "%s: %s" % (type(e).__name__, e), code)
                        ok = False
                        break
                    if not (abs(v - w) <= 1e-9 * scale):
                        bad("cromermann-f0-through-" + klass, [Z, A, q, Q], w, v, code)
                        ok = False
                        break
                if not ok:
                    break           # the other atoms of this element and charge would only repeat it
    for key in sorted(set(by_atom) - used):
        acc.count("cromermann_entries_not_reachable_from_the_table(charge not in element.ions)")
    return cells


def sweep_cromermann(pt, acc, path):
    """Cromer-Mann coefficients are global (not per table): getCMformula(symbol) for every entry."""
    cm = load_cm()
    if cm is None:
        acc.notes.append("Cromer-Mann reader (mc/ref/xray.py) not available: part skipped")
        return 0
    from periodictable import cromermann
    cells = 0
    for sym, (a, c, b) in sorted(cm.items()):
        cells += 1
        code = "from periodictable import cromermann\nf = cromermann.getCMformula(%r)\nprint(f.a, f.b, f.c)" % sym
        try:
            f = cromermann.getCMformula(sym)
            ga, gb, gc = [float(x) for x in f.a], [float(x) for x in f.b], float(f.c)
        except Exception as e:
            acc.violation("cromermann-raises:public", dict(path=list(path), table="public", key=[sym], rule="cromermann-raises"),
                          (a, c, b), "%s: %s" % (type(e).__name__, e), standalone=code)
            continue
        ok = (len(ga) == len(a) and len(gb) == len(b) and all(close(x, y, 1e-12, 1e-15) for x, y in zip(ga, a))
              and all(close(x, y, 1e-12, 1e-15) for x, y in zip(gb, b)) and close(gc, c, 1e-12, 1e-15))
        if not ok:
            acc.violation("cromermann-coefficients:public", dict(path=list(path), table="public", key=[sym], rule="cromermann-coefficients"),
                          (a, c, b), (ga, gc, gb), standalone=code)
    return cells


def run_path(args):
    idx, path = args
    acc = Acc()
    pt = load_pt()
    tables = {}
    for ev in path:
        try:
            apply_event(pt, ev, tables, "c20-%s" % idx)
        except Exception as e:
            acc.violation("configuration-event-raises:" + ev, dict(path=list(path), event=ev),
                          "no exception", "%s: %s" % (type(e).__name__, e), standalone=_snippet(path, "public", ""))
            return acc
        acc.transitions += 1
    live = [("public", pt.elements)]
    if "T_groups" in path:
        live.append(("T", tables["T"]))
    for label, T in judged_tables(path, live):
        cells = sweep(pt, T, label, path, acc)
        cells += sweep_f0_atoms(pt, T, label, path, acc)
        acc.states += cells
        acc.nontrivial += cells
        acc.evaluations += cells
        acc.transitions += cells
        acc.outcome("table:" + label)
    cells = sweep_cromermann(pt, acc, path)
    acc.states += cells; acc.nontrivial += cells; acc.evaluations += cells; acc.transitions += cells
    acc.sample(dict(path=list(path), tables=[l for l, _ in live]))
    acc.count("configurations")
    return acc


def run(ctx):
    paths = QUICK_PATHS if ctx.quick else all_paths()
    ctx.pmap(run_path, rotate(list(enumerate(paths)), ctx.seed))
    ctx.acc.traces = ctx.acc.evaluations
    ctx.acc.info["max_radii"] = len(rt.covalent_radii())
    ctx.acc.info["max_structure_slots"] = len(rt.crystal_structures())
    ctx.acc.info["max_emission_rows"] = len(rt.spectral_lines())
    ctx.acc.info["max_magnetic_records"] = len(rt.magnetic_records())


def replay(ctx, case, signature=None):
    acc = run_path((5000, tuple(case["path"])))
    for sig, rec in acc.viol.items():
        if rec["case"].get("rule") == case.get("rule") and rec["case"].get("table") == case.get("table"):
            ctx.acc.viol[sig] = rec
