"""C20 - ancillary tables are served to exactly the element or ion they belong to.

Complete sweep of the five ancillary tables (covalent radii, crystal structures, K emission lines,
magnetic form factors, Cromer-Mann coefficients) over all 119 elements in every configuration of
the shared configuration graph, against the pinned copy of the tables made with independent readers (mc/ref/tables.py,
second half: nothing is read from the source of the tree under test); closed forms of the form factors.

First access (added after round 5): the ancillary attributes are delayed-load properties, so what a process reads
FIRST decides which code runs the loader.  Every attribute named in the statement is the first access of a fresh
forked interpreter - one process per (attribute, way of access, table configuration) - and what that access and
everything after it serves is compared with the same independent readers."""
import math
from ..common import Acc, load_pt, close, rotate, MachineryError
from ..ref import tables as rt
from ..configs import apply_event, judged_tables, restored_labels, dirty_paths, RELOADED, fold_reloaded, snippet as _snippet

META = dict(
    level="model_checking", engine="E1",
    technique="complete sweep of the five ancillary tables over all elements in every state of a configuration "
              "graph, against independent readers and closed forms",
    rule=("every configuration path runs in a fresh forked interpreter; in the end state, for the public table and every "
          "private table on which the groups were initialised, every element x every ancillary quantity is compared "
          "with the independent reader (entry or absence), and every magnetic / Cromer-Mann coefficient set is evaluated "
          "on the Q grid against the closed form; MAGNETIC EVALUATION METHODS (added after round 8): every evaluation method "
          "of every one of the 344 records - j0_Q, J_Q, j2_Q, j4_Q, j6_Q of the rows the ion has, and M_Q on the whole grid "
          "as the second name of j0_Q - is called at Q = 0, 0.01, 0.5, 1, 2.5, 6, 4pi, 30 as a scalar, as one float64 array "
          "(twice; the array comes back unaltered) and as a list, and must give the closed form (times s^2 for j2/j4/j6) "
          "of the reference coefficients of ITS OWN order; an exception raised by a method is a finding "
          "('magnetic-formfactor-raises'), not a failure of the check; a method whose values follow the row of another "
          "order of the same ion is named ('magnetic-formfactor-serves-another-order:<method>-gives-<order>'), and the "
          "method of an order for which the ion has no row serves no number; "
          "the Cromer-Mann entries are also read THROUGH THE ATOMS of every judged "
          "table: every element, every ion (all charges of element.ions), every isotope and every isotope ion evaluates "
          ".xray.f0(Q) on the Q grid to the closed form of the entry written for its symbol and charge, and an atom "
          "without an entry serves no number; the other four tables are read through every isotope, ion and isotope ion "
          "as well (the element's entry or nothing); cells are distinct by construction.  "
          "FIRST ACCESS: one fresh forked interpreter (the coordinating process never imports the library) per "
          "(attribute in covalent_radius, covalent_radius_uncertainty, covalent_radius_units, crystal_structure, K_alpha, "
          "K_beta1, K_alpha_units, K_beta1_units, magnetic_ff, xray) x (way of access: getattr, getattr with default, "
          "hasattr - each on an element with and on one without an entry -, table.list('symbol', attr), through an "
          "isotope, an ion, an isotope ion) x (public table; private table whose group was initialised as the first "
          "touch of the group in the process; private table on which nothing was initialised - its own answer is not "
          "judged, the public table's is); judged in this order: the value served by that very access, the attribute "
          "over all elements before anything else is read, the other attributes of the group over all elements, the "
          "complete sweep of the group in the touched table and in the other kind of table (a private table created "
          "afterwards / the public table).  "
          "ENTRY OR ABSENCE is demanded both ways for every one of the five tables: every row of the reference must be "
          "served by the element (ion, charge state) it belongs to - None / no attribute / an exception where the reference "
          "has a row is '<table>-entry-not-served' -, every element, charge state or symbol WITHOUT a row must serve "
          "nothing (getCMformula included), and a row of the reference whose element the table lacks is reported.  "
          "CUSTOMISE-THEN-RELOAD (mc/configs.py, *_dirty / *_reload events): entries of a group are replaced by a custom "
          "dataset - at an element with a row, at a slot the table lists as None, by assignment, in-place change, "
          "deletion - and the group is re-initialised with reload=True (all groups at once, and each group alone, on a "
          "private and on the public table); afterwards the table must again serve exactly the embedded tables; what is "
          "found only there carries ':after-customise-and-reload'"),
    bound=dict(quick="19 configuration paths (9 of the graph, 10 customise-then-reload: all groups at once on a private and on "
                     "the public table, each of xray / covalent_radius / crystal_structure / magnetic_ff alone on both) "
                     "x all elements x all five tables (exhaustive over the tables); 203 "
                     "first-access processes (10 attributes x up to 9 ways x 3 table configurations); the call interface of the "
                     "Cromer-Mann module: every entry label (and short spelling) x charge argument (absent, None, 0, every charge "
                     "with an entry) x fxrayatq / fxrayatstol (keyword, positional) x 4 Q, in every configuration path",
               thorough="all orderings of the 4 configuration events up to length 4 + the fixed quick paths + the pair "
                        "(customise, reload) of the private and of the public table at every position of every ordering up to "
                        "length 3 (adjacent, and with the reload at the end) + each of the 8 groups alone (173 paths) x the same; "
                        "first access additionally: every ordered pair (first attribute, second attribute) and every "
                        "element as the first one asked for every attribute"),
    assumptions=["the embedded tables are the data the tree under test carries: per table, the text of the tree is read by the independent text readers of mc/ref/tables.py and is the reference as long as it is readable and holds at least 90 % of the rows of the pinned copy mc/ref/pinned_tables.json (made once from /repo at commit 6ba067a: `VERIF_REPO=/repo /venv/bin/python -m mc.ref.tables --write-pinned`); where the text is unreadable (another layout, a table re-keyed or moved) the pinned copy is the reference - so a deliberate data update moves the reference, a change of layout neither stops the check nor takes rows away unnoticed; the run record says which copy was used",
                 "module.init(table, reload=True) after entries of that group were customised restores the embedded table "
                 "at every element that has a row or a listed-as-None slot; atoms WITHOUT any row in the table of the group "
                 "(a radius for Bk, a structure for Rf, an emission line for H, an extra magnetic charge state) are not "
                 "customised: the stock loaders write their rows over the table and leave other entries alone "
                 "(observed on the unchanged tree), and no text says that a reload removes them",
                 "crystal-structure ownership is taken from the trailing "
                 "#Sym comment of each list entry when that label is a valid symbol occurring exactly once",
                 "Ho2+ J is listed twice in the CrysFML data: either record accepted",
                 "the neutron (Z=0) covalent radius 0.20 is a statement of the loader, not a table entry: not judged",
                 "the x-ray form factor belongs to the chemical element and its charge: isotopes (D and T included) are "
                 "served the entry of their element, isotope ions the entry of the element's ion; the valence-state "
                 "entries 'Cval' and 'Siva' belong to no atom of the table",
                 "an atom whose symbol and charge have no Cromer-Mann entry may raise, return None or NaN (all 'no data')",
                 "an isotope, ion or isotope ion has no covalent-radius / structure / emission / magnetic entry of its "
                 "own: it may serve its element's entry (same object, equal data, or equal records) or nothing; an ion may "
                 "serve the magnetic form factors of its own charge state only",
                 "first access: an element without an entry may answer None or have no attribute (hasattr may say either, "
                 "the value must be None); the *_units attributes are judged on elements with an entry only; what an "
                 "uninitialised private table answers is not judged; table.list() is judged by which symbols it prints and, "
                 "for numeric attributes, by the number printed"],
    level_text="complete over the finite domain (119 elements x 97 radii, 104 structure slots, 91 emission rows, 344 magnetic "
               "records / 98 charge states, 211 Cromer-Mann entries, and every isotope / ion / isotope-ion object of the table) "
               "in each explored configuration; Q on a fixed grid (magnetic: 8 values of Q in [0, 30] x every evaluation method "
               "of every record, scalar / float64 array / list)",
    level_note="independent readers in mc/ref/tables.py and mc/ref/xray.py (regex / ast / tokenize; no eval, no shared code) "
               "read the five tables from the text of the tree under test; where that text is unreadable the pinned copy "
               "mc/ref/pinned_tables.json made with the same readers from the unchanged tree is used",
)

QGRID = (0.0, 0.5, 4 * math.pi, 30.0)
# the magnetic form factors: Q = 0 (orders >= 2 vanish, <j0> is 1), a small Q, Q where the orders differ most (1-6 1/Ang),
# s = 1, the end of the stated range
MQGRID = (0.0, 0.01, 0.5, 1.0, 2.5, 6.0, 4 * math.pi, 30.0)


def ff0(c, q):
    s2 = (q / (4 * math.pi)) ** 2
    A, a, B, b, C, cc, D = c
    return A * math.exp(-a * s2) + B * math.exp(-b * s2) + C * math.exp(-cc * s2) + D


def ffn(c, q):
    return (q / (4 * math.pi)) ** 2 * ff0(c, q)


def curves_equal(u, v):
    return len(u) == len(v) and all(close(a, b, 1e-9, 1e-12) for a, b in zip(u, v))


def magnetic_evaluate(m, meth, ref_c, closed, Z, q, bad):
    """Evaluate the method <meth>_Q of the record m of T[Z].magnetic_ff[q] on MQGRID - scalar by scalar, as one float64
    array (twice; the caller's array comes back unaltered) and as a list - against the closed form of the reference
    coefficients.  An exception of the method is a finding, not a failure of the check.  Returns the scalar values
    (None when the method is missing or raised)."""
    import numpy as np
    where = "T[%d].magnetic_ff[%d].%s_Q" % (Z, q, meth)
    want = [closed(ref_c, Q) for Q in MQGRID]
    try:
        fn = getattr(m, meth + "_Q")
    except Exception as e:
        bad("magnetic-formfactor-method-missing:" + meth, [Z, q], "a method", "%s: %s" % (type(e).__name__, e), "print(%s)" % where)
        return None
    served = []
    for Q, w in zip(MQGRID, want):
        try:
            served.append(float(fn(Q)))
        except Exception as e:
            bad("magnetic-formfactor-raises:" + meth, [Z, q, Q], w, "%s: %s" % (type(e).__name__, e), "print(%s(%r))" % (where, Q))
            return None
    for Q, w, g in zip(MQGRID, want, served):
        if not close(g, w, 1e-9, 1e-12):
            bad("magnetic-M-is-j0" if meth == "M" else "magnetic-formfactor:" + meth, [Z, q, Q], w, g, "print(%s(%r))" % (where, Q))
            break
    Qarr = np.array(MQGRID, dtype=float)
    before = Qarr.tobytes()
    Qlist = list(MQGRID)
    vcode = "import numpy\nQ = numpy.array(%r)\nprint(%s(Q)); print(Q); print(%s(Q)); print(%s(list(Q)))" % (list(MQGRID), where, where, where)
    try:
        r1 = np.asarray(fn(Qarr), dtype=float)
        same = Qarr.tobytes() == before
        r2 = np.asarray(fn(Qarr), dtype=float)
        r3 = np.asarray(fn(Qlist), dtype=float)
    except Exception as e:
        bad("magnetic-formfactor-vector-raises:" + meth, [Z, q], "values", "%s: %s" % (type(e).__name__, e), vcode)
        return served
    if not same or Qarr.tobytes() != before or Qlist != list(MQGRID):
        bad("magnetic-formfactor-alters-its-argument:" + meth, [Z, q], list(MQGRID), (Qarr.tolist(), Qlist), vcode)
    elif not all(r.shape == (len(want),) and curves_equal(r.tolist(), want) for r in (r1, r2, r3)):
        bad("magnetic-formfactor-vector:" + meth, [Z, q], want, (r1.tolist(), r2.tolist(), r3.tolist()), vcode)
    return served


def same_data(got, want):
    """The same entry: the same object, equal plain data, or (records such as the magnetic form factors, which may
    be handed out as copies) equal attribute dictionaries."""
    if got is want:
        return True
    try:
        if isinstance(got, dict) and isinstance(want, dict):
            return sorted(got) == sorted(want) and all(same_data(got[k], want[k]) for k in want)
        if bool(got == want):
            return True
        return hasattr(got, "__dict__") and hasattr(want, "__dict__") and vars(got) == vars(want)
    except Exception:
        return False


def load_cm():
    """{symbol as written in f0_WaasKirf.dat: (a[5], c, b[5])} from the pinned copy (a reader that is not there is a
    machinery error, never a part that is skipped)."""
    out = dict((e["symbol"], (e["a"], e["c"], e["b"])) for e in rt.cromer_mann_entries())
    if len(out) != 211:
        raise MachineryError("C20: %d Cromer-Mann entries in the reference, 211 expected" % len(out))
    return out


def crystal_expected(T):
    """{Z: (how, value)}: the structure entry that belongs to element Z of table T."""
    symbols = dict((el.symbol, el) for el in T)
    slots = rt.crystal_structures()
    labels = {}
    for i, v, lab in slots:
        labels.setdefault(lab, []).append(i)
    expected = {}           # Z -> value
    for i, v, lab in slots:
        if lab in symbols and len(labels[lab]) == 1:
            expected[symbols[lab].number] = ("label", v)
    for i, v, lab in slots:
        if i not in expected and i <= max(e.number for e in T):
            # no usable label points at element i: use the slot index (documented: list index is Z)
            if not (lab in symbols and len(labels[lab]) == 1):
                expected[i] = ("index", v)
    return expected


def sweep(pt, T, label, path, acc, groups=None, origin=None):
    """groups: None = all of 'radius', 'crystal', 'lines', 'magnetic', 'atoms'; origin: None (a configuration path)
    or (case fields, snippet prelude) of a first-access case."""
    cells = 0
    symbols = dict((el.symbol, el) for el in T)

    def want_group(g):
        return groups is None or g in groups

    numbers = set(el.number for el in T)

    def demand_elements(group, keys):
        """every entry of the reference belongs to an element that the table has (else the sweep over the elements of
        the table would pass it by)"""
        for k in sorted(keys):
            if (k not in numbers) if isinstance(k, int) else (k not in symbols):
                bad("entry-for-an-element-the-table-lacks:" + group, [k], "an element %r" % (k,), "none", "print(list(T))")

    def bad(rule, key, expected, observed, code):
        if origin is None:
            case, alone = dict(path=list(path), table=label, key=key, rule=rule), _snippet(path, label, code)
        else:
            case, alone = dict(origin[0], table=label, key=key, rule=rule), origin[1] + "T = tables[%r]\n" % label + code + "\n"
        acc.violation("%s:%s%s" % (rule, "public" if label == "public" else "private",
                                   RELOADED if origin is None and label in restored_labels(path) else ""), case,
                      expected=expected, observed=observed, standalone=alone)

    # ---- covalent radius
    if want_group('radius'):
        radii = rt.covalent_radii()
        demand_elements("radius", radii)
        for el in T:
            Z = el.number
            if Z == 0:
                continue
            code = "print(T[%d].covalent_radius, T[%d].covalent_radius_uncertainty)" % (Z, Z)
            want = radii.get(Z)
            cells += 2
            try:
                r = getattr(el, "covalent_radius", None)
                u = getattr(el, "covalent_radius_uncertainty", None)
            except Exception as e:
                bad("radius-raises", [Z], want, "%s: %s" % (type(e).__name__, e), code)
                continue
            if want is None:
                if r is not None or u is not None:
                    bad("radius-without-entry", [Z], None, (r, u), code)
            elif r is None and u is None:
                bad("radius-entry-not-served", [Z], want[1:], (r, u), code)
            else:
                if not close(r, want[1], 1e-12):
                    bad("radius", [Z], want[1], r, code)
                if not close(u, want[2], 1e-12, 1e-15):
                    bad("radius-uncertainty", [Z], want[2], u, code)
        cells += 1
        if getattr(T.Fe, "covalent_radius_units", None) != "angstrom":
            bad("radius-units", [26], "angstrom", getattr(T.Fe, "covalent_radius_units", None), "print(T.Fe.covalent_radius_units)")

    # ---- crystal structure
    if want_group('crystal'):
        expected = crystal_expected(T)
        demand_elements("crystal", [Z for Z, (how, v) in expected.items() if v is not None])
        for el in T:
            Z = el.number
            code = "print(getattr(T[%d], 'crystal_structure', 'absent'))" % Z
            cells += 1
            try:
                got = getattr(el, "crystal_structure", None)
            except Exception as e:
                bad("crystal-raises", [Z], expected.get(Z), "%s: %s" % (type(e).__name__, e), code)
                continue
            if Z in expected:
                how, want = expected[Z]
                if got is None and want is not None:
                    bad("crystal-entry-not-served", [Z], want, "None or no attribute", code)
                elif got != want:
                    bad("crystal", [Z], want, got, code)
            elif got is not None:
                bad("crystal-without-entry", [Z], None, got, code)

    # ---- emission lines
    if want_group('lines'):
        lines = rt.spectral_lines()
        demand_elements("lines", lines)
        for el in T:
            Z = el.number
            code = "print(getattr(T[%d], 'K_alpha', 'absent'), getattr(T[%d], 'K_beta1', 'absent'))" % (Z, Z)
            cells += 2
            try:
                ka = getattr(el, "K_alpha", None)
                kb = getattr(el, "K_beta1", None)
            except Exception as e:
                bad("lines-raises", [Z], lines.get(el.symbol), "%s: %s" % (type(e).__name__, e), code)
                continue
            want = lines.get(el.symbol)
            if want is None:
                if ka is not None or kb is not None:
                    bad("lines-without-entry", [Z], None, (ka, kb), code)
            elif ka is None and kb is None:
                bad("lines-entry-not-served", [Z], want, (ka, kb), code)
            else:
                if not close(ka, want[0], 1e-12):
                    bad("lines-K_alpha", [Z], want[0], ka, code)
                if not close(kb, want[1], 1e-12):
                    bad("lines-K_beta1", [Z], want[1], kb, code)
        cells += 2
        for u in ("K_alpha_units", "K_beta1_units"):
            try:
                gu = getattr(T.Cu, u)
            except Exception as e:
                gu = "%s: %s" % (type(e).__name__, e)
            if gu != "angstrom":
                bad("lines-units", [29, u], "angstrom", gu, "print(T.Cu.%s)" % u)

    # ---- magnetic form factors
    if want_group('magnetic'):
        recs = rt.magnetic_records()
        want_m = {}     # symbol -> charge -> kind -> [coeffs alternatives]
        for kind, sym, q, c in recs:
            want_m.setdefault(sym, {}).setdefault(q, {}).setdefault(kind, []).append(c)
        demand_elements("magnetic", want_m)
        for el in T:
            Z, sym = el.number, el.symbol
            code = "print(dict((q, vars(m)) for q, m in getattr(T[%d], 'magnetic_ff', {}).items()))" % Z
            cells += 1
            try:
                got = getattr(el, "magnetic_ff", None)
            except Exception as e:
                bad("magnetic-raises", [Z], sorted(want_m.get(sym, {})), "%s: %s" % (type(e).__name__, e), code)
                continue
            want = want_m.get(sym)
            if want is None:
                if got:
                    bad("magnetic-without-entry", [Z], None, sorted(got), code)
                continue
            if not got:
                bad("magnetic-entry-not-served", [Z], sorted(want), got, code)
                continue
            if not isinstance(got, dict) or sorted(got) != sorted(want):
                bad("magnetic-charges", [Z], sorted(want), sorted(got) if isinstance(got, dict) else got, code)
                continue
            for q in sorted(want):
                m = got[q]
                ref_curves, served_curves = {}, {}    # order -> closed form on MQGRID / method -> served values
                for kind in ("j0", "J", "j2", "j4", "j6"):
                    cells += 1
                    alts = want[q].get(kind)
                    has = hasattr(m, kind)
                    if alts is None:
                        if has:
                            bad("magnetic-kind-without-entry:" + kind, [Z, q], "absent", getattr(m, kind), code)
                        continue
                    if not has:
                        bad("magnetic-kind-missing:" + kind, [Z, q], alts[0], "absent", code)
                        continue
                    c = tuple(getattr(m, kind))
                    if not any(len(c) == 7 and all(close(x, y, 1e-12, 1e-15) for x, y in zip(c, a)) for a in alts):
                        bad("magnetic-coefficients:" + kind, [Z, q], alts, c, code)
                        continue
                    ref_c = [a for a in alts if all(close(x, y, 1e-12, 1e-15) for x, y in zip(c, a))][0]
                    closed = ff0 if kind in ("j0", "J") else ffn
                    ref_curves[kind] = [closed(ref_c, Q) for Q in MQGRID]
                    # EVERY evaluation method of the record (M_Q is the second name of j0_Q), on the whole grid
                    for meth in ((kind, "M") if kind == "j0" else (kind,)):
                        served = magnetic_evaluate(m, meth, ref_c, closed, Z, q, bad)
                        cells += 3 * len(MQGRID) + 1
                        if served is not None:
                            served_curves[meth] = served
                    if kind == "j0":
                        cells += 2
                        try:
                            v0 = float(m.j0_Q(0.0))
                        except Exception as e:
                            v0 = "%s: %s" % (type(e).__name__, e)
                        if isinstance(v0, str) or not abs(v0 - 1.0) <= 0.005:
                            bad("magnetic-j0-at-0", [Z, q], "1 +- 0.5%", v0, "print(T[%d].magnetic_ff[%d].j0_Q(0))" % (Z, q))
                        try:
                            cM = tuple(m.M)
                        except Exception as e:
                            cM = "%s: %s" % (type(e).__name__, e)
                        if cM != c:
                            bad("magnetic-M-is-j0", [Z, q], c, cM, "print(T[%d].magnetic_ff[%d].M)" % (Z, q))
                    elif kind != "J" and kind in served_curves:     # (a method that raises is reported above)
                        for Q0 in (0.0, 0):
                            cells += 1
                            try:
                                v0 = float(getattr(m, kind + "_Q")(Q0))
                            except Exception as e:
                                v0 = "%s: %s" % (type(e).__name__, e)
                            want0 = 0.0
                            if isinstance(v0, str) or not abs(v0 - want0) <= 1e-12:
                                bad("magnetic-jn-at-0:" + kind, [Z, q], want0, v0,
                                    "print(T[%d].magnetic_ff[%d].%s_Q(%r))" % (Z, q, kind, Q0))
                                break
                # an order WITHOUT a row has no curve: its evaluation method serves no number (it may raise, or give
                # None / NaN) - never the curve of another order or of a neighbour
                for kind in ("j0", "J", "j2", "j4", "j6"):
                    if want[q].get(kind) is None and not hasattr(m, kind):
                        cells += 1
                        try:
                            v = getattr(m, kind + "_Q")(0.5)
                            v = None if v is None else float(v)
                        except Exception:
                            continue
                        if v is not None and not math.isnan(v):
                            bad("magnetic-formfactor-without-entry:" + kind, [Z, q], "no number (no %s row)" % kind, v,
                                "print(T[%d].magnetic_ff[%d].%s_Q(0.5))" % (Z, q, kind))
                # methods of different orders of one ion differ wherever their rows differ; a method that does not
                # follow its own row is named by the row it does follow
                for a in sorted(served_curves):
                    own = ref_curves["j0" if a == "M" else a]
                    if curves_equal(served_curves[a], own):
                        continue
                    for b in sorted(ref_curves):
                        if b != ("j0" if a == "M" else a) and not curves_equal(ref_curves[b], own) \
                                and curves_equal(served_curves[a], ref_curves[b]):
                            bad("magnetic-formfactor-serves-another-order:%s-gives-%s" % (a, b), [Z, q], own, served_curves[a],
                                "m = T[%d].magnetic_ff[%d]\nprint([m.%s_Q(Q) for Q in %r]); print(m.%s, m.%s)"
                                % (Z, q, a, list(MQGRID), "j0" if a == "M" else a, b))
                            break

    # ---- the same quantities read through the other atom objects of an element (several types in one process):
    if want_group('atoms'):
        # an isotope, an ion or an isotope ion has no entry of its own in these tables; what it serves is the entry of
        # its element, or nothing (None / no attribute) - never other data
        names = ("covalent_radius", "covalent_radius_uncertainty", "crystal_structure", "K_alpha", "K_beta1", "magnetic_ff")
        for el in T:
            Z = el.number
            try:
                own = [getattr(el, n, None) for n in names]
            except Exception:
                continue                    # reported above
            atoms = [("isotope", A, 0) for A in el.isotopes]
            for q in getattr(el, "ions", ()):
                atoms.append(("ion", 0, q))
                atoms += [("isotope-ion", A, q) for A in el.isotopes]
            done = set()
            for klass, A, q in atoms:
                if klass in done:
                    continue
                expr = "T[%d]" % Z + ("[%d]" % A if A else "") + (".ion[%d]" % q if q else "")
                try:
                    atom = el[A] if A else el
                    if q:
                        atom = atom.ion[q]
                except Exception as e:
                    bad("atom-raises", [Z, A, q], "an atom", "%s: %s" % (type(e).__name__, e), "print(%s)" % expr)
                    break
                for n, want in zip(names, own):
                    cells += 1
                    try:
                        got = getattr(atom, n, None)
                    except Exception:
                        continue            # nothing served
                    if got is None:
                        continue
                    if n == "magnetic_ff" and q and isinstance(want, dict):
                        # an ion may also be served its own charge state only (as a mapping or as the record)
                        if isinstance(got, dict) and set(got) <= set(want) and all(same_data(got[k], want[k]) for k in got):
                            continue
                        if q in want and same_data(got, want[q]):
                            continue
                    if not same_data(got, want):
                        bad("%s-through-%s-differs-from-element" % (n.replace("_", "-"), klass), [Z, A, q],
                            repr(want)[:300], repr(got)[:300],
                            "print(getattr(%s, %r, None), getattr(T[%d], %r, None))" % (expr, n, Z, n))
                        done.add(klass)     # one report per element and kind of atom
                        break
    return cells


def f0_scale(coef, q):
    a, c, b = coef
    s2 = (q / (4 * math.pi)) ** 2
    return abs(c) + sum(abs(ai) * math.exp(-bi * s2) for ai, bi in zip(a, b))


def f0_closed(coef, q):
    a, c, b = coef
    s2 = (q / (4 * math.pi)) ** 2
    return c + sum(ai * math.exp(-bi * s2) for ai, bi in zip(a, b))


def sweep_f0_atoms(pt, T, label, path, acc, origin=None):
    """The Cromer-Mann entries as they are SERVED THROUGH THE ATOMS of table T: every element, every ion of it
    (all charges of element.ions), every isotope and every isotope ion evaluates .xray.f0(Q) to the closed form
    of the entry written for its element symbol and charge ('Fe', 'Fe2+', 'O1-'); an atom whose symbol+charge
    has no entry serves no number (an exception, None or NaN - never a neighbour's or another state's fit)."""
    entries = rt.cromer_mann_entries()
    parts = rt.cromer_mann_symbol_parts
    by_atom = {}
    for e in entries:
        p = parts(e["symbol"])
        if p is None:
            acc.count("cromermann_entries_without_atom(valence states)")
            continue
        if p in by_atom:
            raise MachineryError("two Cromer-Mann entries for %r" % (p,))
        by_atom[p] = e
    cells = 0
    used = set()

    def bad(rule, key, expected, observed, code):
        if origin is None:
            case, alone = dict(path=list(path), table=label, key=key, rule=rule), _snippet(path, label, code)
        else:
            case, alone = dict(origin[0], table=label, key=key, rule=rule), origin[1] + "T = tables[%r]\n" % label + code + "\n"
        acc.violation("%s:%s%s" % (rule, "public" if label == "public" else "private",
                                   RELOADED if origin is None and label in restored_labels(path) else ""), case,
                      expected=expected, observed=observed, standalone=alone)

    for el in T:
        Z, sym = el.number, el.symbol
        for q in (0,) + tuple(getattr(el, "ions", ())):
            ent = by_atom.get((sym, q))
            if ent is not None:
                used.add((sym, q))
                if ent["Z"] != Z:
                    bad("cromermann-entry-atomic-number", [Z, q], ent["Z"], Z, "print(T[%d].symbol)" % Z)
                    continue
                coef = (ent["a"], ent["c"], ent["b"])
                want = [(f0_closed(coef, Q), f0_scale(coef, Q)) for Q in QGRID]
            atoms = [("ion" if q else "element", 0)] + [("isotope-ion" if q else "isotope", A) for A in el.isotopes]
            for klass, A in atoms:
                expr = "T[%d]" % Z + ("[%d]" % A if A else "") + (".ion[%d]" % q if q else "")
                try:
                    atom = el[A] if A else el
                    if q:
                        atom = atom.ion[q]
                except Exception as e:
                    bad("atom-raises", [Z, A, q], "an atom", "%s: %s" % (type(e).__name__, e), "print(%s)" % expr)
                    break
                if ent is None:
                    cells += 1
                    code = "print(%s.xray.f0(0.5))   # no entry %r in f0_WaasKirf.dat" % (
                        expr, sym + ("%d%s" % (abs(q), "+" if q > 0 else "-") if q else ""))
                    try:
                        v = atom.xray.f0(0.5)
                        v = None if v is None else float(v)
                    except Exception:
                        v = None
                    if v is not None and v == v:
                        bad("cromermann-f0-without-entry-through-" + klass, [Z, A, q], "no data", v, code)
                        break
                    continue
                ok = True
                for Q, (w, scale) in zip(QGRID, want):
                    cells += 1
                    code = "print(%s.xray.f0(%r))   # entry %r of f0_WaasKirf.dat" % (expr, Q, ent["symbol"])
                    try:
                        v = float(atom.xray.f0(Q))
                    except Exception as e:
                        bad("cromermann-f0-through-%s-raises" % klass, [Z, A, q, Q], w, "%s: %s" % (type(e).__name__, e), code)
                        ok = False
                        break
                    if not (abs(v - w) <= 1e-9 * scale):
                        bad("cromermann-f0-through-" + klass, [Z, A, q, Q], w, v, code)
                        ok = False
                        break
                if not ok:
                    break           # the other atoms of this element and charge would only repeat it
    for key in sorted(set(by_atom) - used):
        acc.count("cromermann_entries_not_reachable_from_the_table(charge not in element.ions)")
    return cells


def sweep_cromermann(pt, acc, path):
    """Cromer-Mann coefficients are global (not per table): getCMformula(symbol) for every entry."""
    cm = load_cm()
    from periodictable import cromermann
    cells = 0
    for sym, (a, c, b) in sorted(cm.items()):
        cells += 1
        code = "from periodictable import cromermann\nf = cromermann.getCMformula(%r)\nprint(f.a, f.b, f.c)" % sym
        try:
            f = cromermann.getCMformula(sym)
            ga, gb, gc = [float(x) for x in f.a], [float(x) for x in f.b], float(f.c)
        except Exception as e:
            acc.violation("cromermann-raises:public", dict(path=list(path), table="public", key=[sym], rule="cromermann-raises"),
                          (a, c, b), "%s: %s" % (type(e).__name__, e), standalone=code)
            continue
        ok = (len(ga) == len(a) and len(gb) == len(b) and all(close(x, y, 1e-12, 1e-15) for x, y in zip(ga, a))
              and all(close(x, y, 1e-12, 1e-15) for x, y in zip(gb, b)) and close(gc, c, 1e-12, 1e-15))
        if not ok:
            acc.violation("cromermann-coefficients:public", dict(path=list(path), table="public", key=[sym], rule="cromermann-coefficients"),
                          (a, c, b), (ga, gc, gb), standalone=code)
    # ... and NO formula for an element or a charge state of the table that has no entry
    for el in pt.elements:
        for q in (0,) + tuple(getattr(el, "ions", ())):
            sym = el.symbol + ("%d%s" % (abs(q), "+" if q > 0 else "-") if q else "")
            if sym in cm:
                continue
            cells += 1
            try:
                f = cromermann.getCMformula(sym)
            except Exception:
                continue
            if f is not None:
                acc.violation("cromermann-formula-without-entry:public",
                              dict(path=list(path), table="public", key=[sym], rule="cromermann-formula-without-entry"),
                              "no formula (an exception or None)", "a formula labelled %r" % getattr(f, "symbol", None),
                              standalone="from periodictable import cromermann\nprint(vars(cromermann.getCMformula(%r)))" % sym)
    return cells


def sweep_cromermann_calls(pt, acc, path):
    """The documented call interface of the Cromer-Mann module, complete over labels x charge arguments: for every
    entry label of f0_WaasKirf.dat that names an element or ion ('Ca', 'Ca2+', 'O1-', and the short spellings 'Na+',
    'Cl-' of the singly charged ones) and every *charge* argument in {not given, None, 0, every charge for which the
    element has an entry}, fxrayatq(label, Q, charge) and fxrayatstol(label, Q/4pi, charge) - charge by keyword and by
    position - evaluate the closed form of the entry of (element of the label, charge if given else the label's own):
    'charge overrides any valence suffixes', 0 included.  A target without an entry is not judged."""
    from periodictable import cromermann
    parts = rt.cromer_mann_symbol_parts
    by_atom = {}
    for e in rt.cromer_mann_entries():
        p = parts(e["symbol"])
        if p is not None:
            by_atom[p] = e
    charges = {}
    for (sym, q) in by_atom:
        charges.setdefault(sym, set()).add(q)
    cells = 0
    for (sym, q0), e in sorted(by_atom.items()):
        labels = [e["symbol"]]
        if abs(q0) == 1:
            labels.append(sym + ("+" if q0 > 0 else "-"))
        for L in labels:
            for c in ["<absent>", None, 0] + sorted(charges[sym] - {0}):
                target = (sym, q0 if c in ("<absent>", None) else c)
                ent = by_atom.get(target)
                if ent is None:
                    acc.count("cromermann_calls_not_judged(no entry for the charge asked)")
                    continue
                coef = (ent["a"], ent["c"], ent["b"])
                ways = []
                if c == "<absent>":
                    ways = [("fxrayatq(%r, Q)" % L, lambda Q: cromermann.fxrayatq(L, Q)),
                            ("fxrayatstol(%r, Q/(4*pi))" % L, lambda Q: cromermann.fxrayatstol(L, Q / (4 * math.pi)))]
                else:
                    ways = [("fxrayatq(%r, Q, charge=%r)" % (L, c), lambda Q: cromermann.fxrayatq(L, Q, charge=c)),
                            ("fxrayatq(%r, Q, %r)" % (L, c), lambda Q: cromermann.fxrayatq(L, Q, c)),
                            ("fxrayatstol(%r, Q/(4*pi), %r)" % (L, c), lambda Q: cromermann.fxrayatstol(L, Q / (4 * math.pi), c))]
                for text, call in ways:
                    for Q in QGRID:
                        cells += 1
                        w, scale = f0_closed(coef, Q), f0_scale(coef, Q)
                        code = ("from periodictable import cromermann\nfrom math import pi\nQ = %r\nprint(cromermann.%s)"
                                "   # entry %r of f0_WaasKirf.dat" % (Q, text, ent["symbol"]))
                        rule = "cromermann-call-charge-%s" % ("not-given" if c in ("<absent>", None) else "zero" if c == 0 else "given")
                        try:
                            v = float(call(Q))
                        except Exception as ex:
                            acc.violation(rule + "-raises:public", dict(path=list(path), table="public", key=[L, str(c), text, Q], rule=rule),
                                          w, "%s: %s" % (type(ex).__name__, ex), standalone=code)
                            break
                        if not (abs(v - w) <= 1e-9 * scale):
                            acc.violation(rule + ":public", dict(path=list(path), table="public", key=[L, str(c), text, Q], rule=rule),
                                          w, v, standalone=code)
                            break
    return cells


def run_path(args):
    idx, path = args
    acc = Acc()
    pt = load_pt()
    tables = {}
    for ev in path:
        try:
            apply_event(pt, ev, tables, "c20-%s" % idx)
        except Exception as e:
            acc.violation("configuration-event-raises:" + ev, dict(path=list(path), event=ev),
                          "no exception", "%s: %s" % (type(e).__name__, e), standalone=_snippet(path, "public", ""))
            return acc
        acc.transitions += 1
    live = [("public", pt.elements)]
    if "T_groups" in path:
        live.append(("T", tables["T"]))
    for label, T in judged_tables(path, live):
        cells = sweep(pt, T, label, path, acc)
        cells += sweep_f0_atoms(pt, T, label, path, acc)
        acc.states += cells
        acc.nontrivial += cells
        acc.evaluations += cells
        acc.transitions += cells
        acc.outcome("table:" + label)
    cells = sweep_cromermann(pt, acc, path)
    cells += sweep_cromermann_calls(pt, acc, path)
    acc.states += cells; acc.nontrivial += cells; acc.evaluations += cells; acc.transitions += cells
    acc.sample(dict(path=list(path), tables=[l for l, _ in live]))
    acc.count("configurations")
    if path == ():
        # for the run record only: which copy of each table the check judged by (the tree's own text, or the pinned copy where that is unreadable)
        acc.notes += ["pinned reference tables: %s" % rt.pinned_origin()] + rt.reference_notes()
    return acc


# ------------------------------------------------------------------------------------------------
# First access.  The ancillary attributes are installed as delayed-load properties; which of them a process reads
# first, on which atom and by which means decides which code runs the loader.  Every attribute named in the
# statement (and the units that go with it, and .xray as the way to the Cromer-Mann form factor of an atom) is the
# FIRST access of a fresh forked interpreter, one process per (attribute, way of access, table configuration);
# the value served by that very access, then the attribute over all elements, then the other attributes of the
# group, then the complete sweep of the group are compared with the independent reader.
NOT_JUDGED = "<not judged>"

FT_GROUPS = [
    # group, attributes, element with an entry, element without one, init of the group on a private table X
    ("radius", ("covalent_radius", "covalent_radius_uncertainty", "covalent_radius_units"), "Cu", "Bk",
     "from periodictable import covalent_radius as M; M.init(X)"),
    ("crystal", ("crystal_structure",), "Cu", "Rf", "from periodictable import crystal_structure as M; M.init(X)"),
    ("lines", ("K_alpha", "K_beta1", "K_alpha_units", "K_beta1_units"), "Cu", "H",
     "from periodictable import xsf as M; M.init_spectral_lines(X)"),
    ("magnetic", ("magnetic_ff",), "Fe", "H", "from periodictable import magnetic_ff as M; M.init(X)"),
    ("xray", ("xray",), "Cu", None, "from periodictable import xsf as M; M.init(X)"),
]
FT_GROUP = dict((g[0], g) for g in FT_GROUPS)
FT_NAMES = [(g[0], n) for g in FT_GROUPS for n in g[1]]
FT_ATOMS = {"Cu": (63, 2), "Fe": (56, 2)}          # isotope and charge used by the via-* ways of access
# way of access -> expression (S = symbol of the element with an entry, N = of the one without, A, Q = isotope, charge)
FT_MODES = [
    ("getattr", "getattr(T.%(S)s, %(name)r)"),
    ("getattr-default", "getattr(T.%(S)s, %(name)r, None)"),
    ("hasattr", "hasattr(T.%(S)s, %(name)r)"),
    ("getattr-no-entry", "getattr(T.%(N)s, %(name)r)"),
    ("hasattr-no-entry", "hasattr(T.%(N)s, %(name)r)"),
    ("list", "T.list('symbol', %(name)r, format='%%s %%s')"),
    ("via-isotope", "getattr(T.%(S)s[%(A)d], %(name)r, None)"),
    ("via-ion", "getattr(T.%(S)s.ion[%(Q)d], %(name)r, None)"),
    ("via-isotope-ion", "getattr(T.%(S)s[%(A)d].ion[%(Q)d], %(name)r, None)"),
    ("every-element", "getattr(T[%(Z)d], %(name)r, None)"),            # thorough: each element is the first one asked
]
FT_MODE = dict(FT_MODES)
XRAY_MODES = ("getattr", "getattr-default", "hasattr", "via-isotope", "via-ion", "via-isotope-ion")
UNINIT_MODES = ("getattr-default", "hasattr", "list")
FT_CONFIGS = ("public", "private-init", "private-uninit")


def ft_expected(T, group):
    """{attribute: {Z: value | None (no entry: None or no attribute) | NOT_JUDGED}} from the independent readers."""
    out = {}
    if group == "radius":
        radii = rt.covalent_radii()
        r, u, un = {}, {}, {}
        for el in T:
            Z = el.number
            w = radii.get(Z)
            if Z == 0:
                r[Z] = u[Z] = un[Z] = NOT_JUDGED       # the neutron's 0.20 is a statement of the loader
            elif w is None:
                r[Z], u[Z], un[Z] = None, None, NOT_JUDGED
            else:
                r[Z], u[Z], un[Z] = w[1], w[2], "angstrom"
        out = dict(covalent_radius=r, covalent_radius_uncertainty=u, covalent_radius_units=un)
    elif group == "crystal":
        exp = crystal_expected(T)
        out = dict(crystal_structure=dict((el.number, exp[el.number][1] if el.number in exp else None) for el in T))
    elif group == "lines":
        lines = rt.spectral_lines()
        ka, kb, un = {}, {}, {}
        for el in T:
            w = lines.get(el.symbol)
            ka[el.number], kb[el.number] = (None, None) if w is None else w
            un[el.number] = NOT_JUDGED if w is None else "angstrom"
        out = dict(K_alpha=ka, K_beta1=kb, K_alpha_units=un, K_beta1_units=dict(un))
    elif group == "magnetic":
        want_m = {}
        for kind, sym, q, c in rt.magnetic_records():
            want_m.setdefault(sym, {}).setdefault(q, {}).setdefault(kind, []).append(c)
        out = dict(magnetic_ff=dict((el.number, want_m.get(el.symbol)) for el in T))
    elif group == "xray":
        out = dict(xray=dict((el.number, NOT_JUDGED) for el in T))       # judged through f0 (sweep_f0_atoms)
    else:
        raise MachineryError("unknown group %r" % group)
    return out


def magnetic_matches(got, want):
    if not isinstance(got, dict) or sorted(got) != sorted(want):
        return False
    for q in want:
        for kind in ("j0", "J", "j2", "j4", "j6"):
            alts = want[q].get(kind)
            if alts is None:
                if hasattr(got[q], kind):
                    return False
                continue
            if not hasattr(got[q], kind):
                return False
            c = tuple(getattr(got[q], kind))
            if not any(len(c) == 7 and all(close(x, y, 1e-12, 1e-15) for x, y in zip(c, a)) for a in alts):
                return False
    return True


def ft_matches(name, got, want):
    """got: the value served (None also stands for 'no attribute')."""
    if want is NOT_JUDGED:
        return True
    if want is None:
        return got is None or (name == "magnetic_ff" and isinstance(got, dict) and not got)
    if got is None:
        return False
    try:
        if name == "magnetic_ff":
            return magnetic_matches(got, want)
        if name.endswith("_units") or name == "crystal_structure":
            return bool(got == want)
        return close(got, want, 1e-12, 1e-15)
    except Exception:
        return False


def ft_items(tier):
    """(config, group, name, way of access, Z or None, second attribute or None)"""
    items = []
    for group, names, S, N, _ in FT_GROUPS:
        modes = XRAY_MODES if group == "xray" else [m for m, _ in FT_MODES if m != "every-element"]
        for name in names:
            for config in ("public", "private-init"):
                for mode in modes:
                    items.append((config, group, name, mode, None, None))
            for mode in UNINIT_MODES:
                if group != "xray" or mode != "list":
                    items.append(("private-uninit", group, name, mode, None, None))
    if tier != "quick":
        for group, name in FT_NAMES:
            for group2, name2 in FT_NAMES:
                if name2 != name:
                    items.append(("public", group, name, "getattr-default", None, name2))
            if group != "xray":
                for Z in range(0, 119):
                    items.append(("public", group, name, "every-element", Z, None))
    return items


def _ft_read(el, name):
    """(value or None, exception other than AttributeError or None)"""
    try:
        return getattr(el, name), None
    except AttributeError:
        return None, None
    except Exception as e:
        return None, e


def ft_case(item):
    """One fresh process: the first access, then everything it could have influenced."""
    idx, (config, group, name, mode, Z1, second) = item
    import io, contextlib
    acc = Acc()
    pt = load_pt()
    from periodictable import core, mass, density
    _, names, S, N, init = FT_GROUP[group]
    A, Q = FT_ATOMS[S]
    case0 = dict(part="first-access", config=config, group=group, name=name, mode=mode)
    if Z1 is not None:
        case0["Z"] = Z1
    if second is not None:
        case0["then"] = second
    tables = {"public": pt.elements}
    pre = ["import periodictable as pt", "from periodictable import core, mass, density", "tables = {'public': pt.elements}"]
    label = "public"
    if config != "public":
        X = core.PeriodicTable("c20-first-%d" % idx)
        mass.init(X); density.init(X)
        tables["T"] = X
        label = "T"
        pre.append("X = core.PeriodicTable('T'); mass.init(X); density.init(X); tables['T'] = X")
        if config == "private-init":
            # the first touch of the group in this process is its initialisation on the private table
            try:
                exec(init, dict(X=X))
            except Exception as e:
                acc.violation("first-access-raises:%s:private" % name, dict(case0, step="init"), "no exception",
                              "%s: %s" % (type(e).__name__, e), standalone="\n".join(pre + [init]) + "\n")
                return acc
            pre.append(init)
    T = tables[label]
    expr = FT_MODE[mode] % dict(S=S, N=N, A=A, Q=Q, Z=Z1 if Z1 is not None else 0, name=name)
    pre += ["T = tables[%r]" % label, "first = %s          # the first access of the process" % expr, "print(first)"]
    prelude = "\n".join(pre) + "\n"
    pubpriv = "public" if label == "public" else "private"

    def bad(sig, case, expected, observed, extra=""):
        acc.violation("%s:%s:%s" % (sig, name, case.get("judged", pubpriv)), case, expected=expected, observed=observed,
                      standalone=prelude + extra)

    # ---- the first access itself
    first = err = None
    absent = False
    out = io.StringIO()
    acc.transitions += 1
    try:
        with contextlib.redirect_stdout(out):
            first = eval(expr, dict(T=T))
    except AttributeError:
        absent = True
    except Exception as e:
        err = e
    listed = out.getvalue()
    if config == "private-uninit":
        # nothing was initialised on this table: what it serves is not judged; the public table is, below
        acc.outcome("first-access:%s:uninitialised-private:not-judged" % mode)
        judged = [("public", pt.elements)]
    else:
        judged = [(label, T)]
        if err is not None:
            bad("first-access-raises", case0, "a value or AttributeError", "%s: %s" % (type(err).__name__, err))
            return acc

    expected = dict((lab, ft_expected(tab, group)) for lab, tab in tables.items())
    # the fixed choices of elements really are what they are meant to be
    for lab, tab in tables.items():
        for n in names:
            e = expected[lab][n]
            if group != "xray" and (e[getattr(tab, S).number] in (None, NOT_JUDGED)
                                    or e[getattr(tab, N).number] not in (None, NOT_JUDGED)):
                raise MachineryError("C20 first access: %s / %s are not an element with / without a %s entry" % (S, N, n))

    if config != "private-uninit":
        exp = expected[label][name]
        elS, elN = getattr(T, S), (getattr(T, N) if N else None)
        acc.states += 1
        acc.nontrivial += 1
        ok = True
        if group == "xray":
            ok = ft_xray_first(T, S, A, Q, mode, first, absent, case0, bad)
        elif mode in ("getattr", "getattr-default", "every-element"):
            el = T[Z1] if mode == "every-element" else elS
            if not ft_matches(name, first, exp[el.number]):
                ok = False
                bad("first-access", dict(case0, key=[el.number]), exp[el.number], "no attribute" if absent else first)
        elif mode == "getattr-no-entry":
            if not ft_matches(name, first, exp[elN.number]):
                ok = False
                bad("first-access", dict(case0, key=[elN.number]), exp[elN.number], first)
        elif mode in ("hasattr", "hasattr-no-entry"):
            el = elS if mode == "hasattr" else elN
            v, e2 = _ft_read(el, name)
            if e2 is not None or not isinstance(first, bool) or (exp[el.number] not in (None, NOT_JUDGED) and not first) \
                    or not ft_matches(name, v, exp[el.number]):
                ok = False
                bad("first-access", dict(case0, key=[el.number]), "hasattr %s, value %r" % (
                    exp[el.number] not in (None,), exp[el.number]), "hasattr %r, then value %r %s" % (first, v, e2 or ""),
                    "print(getattr(T[%d], %r, None))\n" % (el.number, name))
        elif mode == "list":
            ok = ft_judge_list(T, name, listed, exp, case0, bad)
        else:                                    # via-isotope, via-ion, via-isotope-ion
            own, e2 = _ft_read(elS, name)
            fine = first is None or same_data(first, own)
            if not fine and name == "magnetic_ff" and "ion" in mode and isinstance(own, dict):
                fine = (isinstance(first, dict) and set(first) <= set(own) and all(same_data(first[k], own[k]) for k in first)) \
                    or (Q in own and same_data(first, own[Q]))
            if not fine or not ft_matches(name, own, exp[elS.number]):
                ok = False
                bad("first-access", dict(case0, key=[elS.number]), "the entry of the element (%r) or nothing" % (exp[elS.number],),
                    "%r; the element then serves %r" % (first, own), "print(getattr(T.%s, %r, None))\n" % (S, name))
        acc.outcome("first-access:%s:%s:%s" % (group, mode, "as-tabulated" if ok else "VIOLATION"))
        if not ok:
            return acc           # nothing is explored beyond a violating state

    # ---- a second attribute right after the first (thorough)
    order = [name] + [n for n in names if n != name]
    if second is not None:
        g2 = [g for g, n in FT_NAMES if n == second][0]
        order = [second] if g2 != group else [second] + [n for n in order if n != second]
        if g2 != group:
            for lab, tab in tables.items():
                expected[lab].update(ft_expected(tab, g2))
    # ---- the attribute over all elements (before any other attribute is read), then the rest of the group
    for lab, tab in judged:
        case = dict(case0, judged=lab if lab == "public" else "private")
        for n in order:
            exp = expected[lab][n]
            wrong = []
            for el in tab:
                acc.transitions += 1
                acc.states += 1
                acc.nontrivial += 1
                v, e2 = _ft_read(el, n)
                if e2 is not None or not ft_matches(n, v, exp[el.number]):
                    wrong.append((el.number, exp[el.number], "%s: %s" % (type(e2).__name__, e2) if e2 else v))
            if wrong:
                acc.violation(("first-access:%s:%s" % (name, case["judged"])) if n == name else
                              ("after-first-access:%s-then-%s:%s" % (name, n, case["judged"])),
                              dict(case, key=[wrong[0][0]], read=n), expected=wrong[0][1],
                              observed="%r (%d elements differ from the table)" % (wrong[0][2], len(wrong)),
                              standalone=prelude + "T = tables[%r]\nprint([(el, getattr(el, %r, None)) for el in T])\n"
                              % ("public" if lab == "public" else "T", n))
                return acc
    # ---- the complete sweep of the group(s) in every judged table; then the other table configuration
    groups = [group] + ([g2] if second is not None and g2 != group else [])
    if config == "public" and second is None and Z1 is None:
        # ... and a private table created and initialised AFTER the first access of the public one
        X = core.PeriodicTable("c20-first-%d-late" % idx)
        mass.init(X); density.init(X)
        try:
            exec(init, dict(X=X))
        except Exception as e:
            acc.violation("first-access-raises:%s:private" % name, dict(case0, step="init-after"), "no exception",
                          "%s: %s" % (type(e).__name__, e), standalone=prelude + init.replace("X", "X2") + "\n")
            return acc
        tables["T"] = X
        prelude += "X = core.PeriodicTable('T'); mass.init(X); density.init(X); tables['T'] = X\n" + init + "\n"
        judged.append(("T", X))
    elif config == "private-init":
        judged.append(("public", pt.elements))
    for lab, tab in judged:
        origin = (dict(case0), prelude)
        cells = 0
        for g in groups:
            if g == "xray":
                cells += sweep_f0_atoms(pt, tab, lab, (), acc, origin=origin)
            else:
                cells += sweep(pt, tab, lab, (), acc, groups=[g], origin=origin)
        acc.states += cells; acc.nontrivial += cells; acc.transitions += cells
        acc.outcome("first-access:swept:" + ("public" if lab == "public" else "private"))
    acc.evaluations = acc.transitions
    acc.count("first_access_processes")
    if mode == "list" and config == "public":
        acc.sample(case0)
    return acc


def ft_judge_list(T, name, listed, exp, case0, bad):
    """T.list('symbol', name) prints one line per element that has the attribute (not None): symbol, value."""
    rows = {}
    for ln in listed.split("\n"):
        f = ln.split(None, 1)
        if f:
            rows[f[0]] = f[1] if len(f) > 1 else ""
    for el in T:
        want = exp[el.number]
        if want is NOT_JUDGED:
            continue
        got = rows.get(el.symbol)
        fine = (got is None) if want is None else (got is not None)
        if fine and want is not None and name not in ("crystal_structure", "magnetic_ff"):
            try:
                fine = (got.strip() == want) if name.endswith("_units") else close(float(got), want, 1e-9)
            except ValueError:
                fine = False
        if not fine:
            bad("first-access", dict(case0, key=[el.number]), "no line" if want is None else "a line with %r" % (want,),
                "no line" if got is None else got[:200])
            return False
    return True


def ft_xray_first(T, S, A, Q, mode, first, absent, case0, bad):
    """The first access is .xray of an atom: the object served evaluates f0 of the entry of the atom's element+charge."""
    el = getattr(T, S)
    q = Q if "ion" in mode else 0
    ent = [e for e in rt.cromer_mann_entries() if rt.cromer_mann_symbol_parts(e["symbol"]) == (S, q)]
    if mode == "hasattr":
        first = getattr(el, "xray", None) if first is True else None
    if not ent:
        return True                      # no entry: judged by the sweep (no number may be served)
    coef = (ent[0]["a"], ent[0]["c"], ent[0]["b"])
    try:
        v = float(first.f0(0.5))
    except Exception as e:
        v = "%s: %s" % (type(e).__name__, e)
    w = f0_closed(coef, 0.5)
    if isinstance(v, str) or not abs(v - w) <= 1e-9 * f0_scale(coef, 0.5):
        bad("first-access", dict(case0, key=[el.number, q]), w, "no attribute" if absent else v, "print(first.f0(0.5))\n")
        return False
    return True


# ------------------------------------------------------------------------------------------------
# the configuration paths of this check (kept here: mc/configs.py is shared with C06/C07 and grows with them)
C20_QUICK_PATHS = [(), ("pub_lazy",), ("new_T",), ("pub_lazy", "new_T"), ("new_T", "new_T2"),
                   ("new_T", "T_groups", "new_T2", "pub_lazy"),
                   ("new_T", "T_groups", "T_custom", "new_T2", "pub_lazy"),
                   ("pub_lazy", "new_T", "T_groups", "T_custom"),
                   ("pub_custom", "new_T", "T_groups")]
C20_EVENTS = ("pub_lazy", "new_T", "T_groups", "new_T2")
# customise-then-reload (mc/configs.py): every group at once and each group of this check alone, private and public
C20_DIRTY_GROUPS = ("xray", "covalent_radius", "crystal_structure", "magnetic_ff")
C20_QUICK_PATHS += [p for p in dirty_paths("quick", C20_DIRTY_GROUPS) if "T_groups" in p or "pub_lazy" in p]


def c20_all_paths():
    """every ordering of up to four distinct events (T_groups and new_T2 need new_T first) + the fixed quick paths"""
    out, frontier = [()], [()]
    for _ in range(4):
        nxt = [p + (e,) for p in frontier for e in C20_EVENTS
               if e not in p and (e not in ("T_groups", "new_T2") or "new_T" in p)]
        out += nxt
        frontier = nxt
    out += [p for p in C20_QUICK_PATHS if p not in out]
    return out + [p for p in dirty_paths("thorough") if p not in out]


def run(ctx):
    # first: the first-access cases; each one is forked from this process, which has not imported the library
    import sys
    if "periodictable" in sys.modules:
        raise MachineryError("C20: the library is already imported in the coordinating process")
    from ..common import pmap
    items = rotate(list(enumerate(ft_items(ctx.tier))), ctx.seed)
    for acc in pmap(ft_case, items, ctx.jobs, "C20 first access", always_fork=True):
        ctx.acc.merge(acc)
    ctx.log("first access done: %d processes, %d violations" % (len(items), ctx.acc.vcount))
    paths = C20_QUICK_PATHS if ctx.quick else c20_all_paths()
    for acc in pmap(run_path, rotate(list(enumerate(paths)), ctx.seed), ctx.jobs, "C20 paths", always_fork=True):
        ctx.acc.merge(acc)
    fold_reloaded(ctx.acc)
    ctx.acc.traces = ctx.acc.evaluations = ctx.acc.transitions
    ctx.acc.info["max_radii"] = len(rt.covalent_radii())
    ctx.acc.info["max_structure_slots"] = len(rt.crystal_structures())
    ctx.acc.info["max_emission_rows"] = len(rt.spectral_lines())
    ctx.acc.info["max_magnetic_records"] = len(rt.magnetic_records())
    ctx.acc.info["max_first_access_cases"] = len(items)


def replay(ctx, case, signature=None):
    from ..histmc import in_fork
    if case.get("part") == "first-access":
        item = (case["config"], case["group"], case["name"], case["mode"], case.get("Z"), case.get("then"))
        acc = in_fork(lambda: ft_case((5000, item)))
        for sig, rec in acc.viol.items():
            if signature is None or sig == signature:
                ctx.acc.viol[sig] = rec
        return
    acc = in_fork(lambda: run_path((5000, tuple(case["path"]))))
    for sig, rec in acc.viol.items():
        if rec["case"].get("rule") == case.get("rule") and rec["case"].get("table") == case.get("table"):
            ctx.acc.viol[sig] = rec
