"""C18 - biomolecule sequences are the sum of their residues (E1, prefix graph; DESIGN section 4, C18).

State  = the running sum of a code string; appending a code is a transition.  States with equal
         code multisets are merged - that merge IS the order-independence claim, so it is checked
         on every arrival: all distinct permutations of every multiset are generated, executed on
         the real Sequence class and compared with the representative (the sorted string).
Oracle = (1) reference sum: per atom species, cell volume, charge, mass, Dmass of Sequence(s) are the
             sums of the single-residue entries of the code table, ambiguity codes counting as
             the equal-weight average of the residues the hand-written IUPAC tables (ref.fasta)
             say they stand for;
         (2) the table entry of every ambiguity code is that average;
         (3) differential edges: inserting a space anywhere changes nothing, inserting '*' at
             position i gives the state of the prefix s[:i]; formula('<type>:'+s) is the labile
             formula of Sequence(s);
         (4) invariant: density of the labile / natural formula = its mass / cell volume;
         (5) FASTA: every text of <= 5 lines over a 7-line alphabet through read_fasta,
             Sequence.load, Sequence.loadall against a ten-line reference splitter; sequence
             type from the file extension / explicit argument;
         (6) file-name shapes: every path built from <= 3 (4) tokens of {s . / fna frn ...} and one
             of 21 endings, created for real, through load/loadall spelled absolutely and relative
             to the working directory; type expected from the last dot of the last component;
         (7) interleaved loads: every interleaving of the steps of every pair of uses of
             loadall (a generator) / load / the direct routes, each in a forked interpreter;
         (8) header collisions: texts of <= 3 (4) records whose headers share the identifier, differ
             in case, are prefixes of each other."""
import io
import itertools
import os
import shutil
import tempfile

from ..common import Acc, load_pt, close, chunks, rotate, MachineryError
from ..ref import fasta as R

META = dict(
    level="model_checking", engine="E1",
    technique="bounded-exhaustive prefix graph over the code tables, permutation classes merged and "
              "checked on arrival; exhaustive small FASTA texts",
    rule=("every code string of the bound over the complete code table of each sequence type "
          "(aa 25, dna 18, rna 18 codes), grouped by code multiset, every distinct permutation executed; "
          "every single insertion of ' ' and '*' into every such string, every double insertion into "
          "strings of <= 2 codes; every FASTA text of <= 5 lines over {'>a','>b x>y','AC','G','',' ','A*C'}; "
          "every distinct relative path made of <= N tokens of a token alphabet (name letter, '.', '/', extension "
          "words) followed by one of 21 endings (the 4 known extensions, none, '.', unknown ones, the extension word "
          "without its dot, near misses, other case), each created on disk and loaded by load and loadall under its "
          "absolute and its relative spelling; every interleaving of the steps (call, one next() per record, the "
          "final next()) of every unordered pair of uses of loadall/load/Sequence+prefix on files of different "
          "extensions, each interleaving in its own forked interpreter; every text of <= K records over 5 colliding "
          "headers {'>a','>a z','>A','>ab','>b x>y'} x bodies {none,'AC','G'[,'AC'+'G']}; "
          "non-trivial = distinct undecorated string with >= 2 codes or an ambiguity code, distinct "
          "decorated string, FASTA text with a header followed by residues, distinct judged path, distinct "
          "interleaving of two actors, header text with >= 2 records"),
    bound=dict(
        quick="all strings of <= 2 codes (aa) and <= 3 codes (dna, rna) with all their permutations, "
              "space/'*' insertions and the formula-prefix route; all FASTA texts of <= 5 lines through "
              "read_fasta (3 input forms) and load/loadall with extension .faa; extension x explicit "
              "type (9 x 4) over all texts of <= 2 lines; file names: <= 3 tokens of {s . / fna frn} x 21 endings "
              "(2440 distinct paths, 2312 judged) x {absolute, relative} x {load, loadall}; interleavings: 11 actors "
              "(loadall and load on s.fna s.frn s.faa s.txt, direct routes of the 3 types), 66 pairs, 896 interleavings; "
              "header collisions: <= 3 records, 3 bodies (3421 texts) through read_fasta, load, loadall as .fna; "
              "caller-update histories: every code x 4 ways of obtaining a Formula x 2 in-place updates (464), each in its own fork",
        thorough="all strings of <= 4 codes (aa, dna, rna) with all their permutations, space/'*' "
                 "insertions and the formula-prefix route; all FASTA texts of <= 5 lines through read_fasta "
                 "and load/loadall with extensions .faa .fna .frn; extension x explicit type (9 x 4) over "
                 "all texts of <= 3 lines; file names: <= 4 tokens of {s . / _ fna ffn faa frn} x 21 endings "
                 "(81664 distinct paths, 79320 judged); interleavings: 18 actors (6 names, explicit types), 171 pairs, "
                 "3030 interleavings; header collisions: <= 4 records with 3 bodies and <= 3 records with 4 bodies "
                 "(58657 texts)"),
    assumptions=[
        "per-residue values of the unambiguous codes (formula, cell volume, charge, mass, Dmass) are read "
        "from the single-residue entries of fasta.CODE_TABLES; there is no independent source and the "
        "property is about sums",
        "which residues an ambiguity code stands for is the IUPAC table written into mc/ref/fasta.py; "
        "gap '-' and nucleotide 'X' (masked) stand for nothing; DNA 'U' = 'T', RNA 'T' = 'U' (Sequence docstring)",
        "no terminal water is expected: the statement says the sequence is the sum of its residue codes "
        "(the module docstring tells the user to add 2*H[1] and O himself)",
        "density is judged as each formula's own mass / (N_A * cell volume) for labile_formula and "
        "natural_formula; sequences with zero cell volume (empty, gaps only) are not judged for density",
        "formula('<type>:...') is compared with Sequence.labile_formula (atoms and density)",
        "FASTA: record names are only required to contain the identifier of their header; read_fasta "
        "output is compared modulo white space; load() on a text without header is not judged (text silent); "
        "a text without header that makes loadall/read_fasta raise is not judged",
        "unknown extensions (.fa .txt none, '.fna.txt') are expected to give the Sequence class default 'aa'; "
        "an explicit type argument wins over the extension",
        "the file extension of a path is the part of its LAST component from its LAST dot on; dots in "
        "directories, earlier dots of the name, './', '../', '//' do not take part (mc/ref/fasta.py path_type)",
        "extensions are matched exactly: '.FNA', '.Frn', '.fna~', '.fna.', '.fnax', 'sfna' (no dot) are unknown "
        "extensions and give the class default 'aa' - this is how the unchanged library reads them and file names "
        "are case-sensitive where the check runs; violations of this reading carry their own signatures "
        "(fasta:type:default-extension:other-case / :known-word-elsewhere)",
        "a last component that is nothing but dots and a known extension ('.fna', '..frn') is NOT judged: "
        "os.path.splitext calls it a hidden file without extension, a suffix test calls it a .fna file, the text "
        "does not decide",
        "file names are str; os.PathLike / bytes arguments are not in the alphabet (text silent); read_fasta takes "
        "an open file only, there is no path route into it",
        "interleaved loads use a different file per actor (two generators over the SAME path are not in the "
        "alphabet); an actor that fails alone is reported plainly and not paired",
        "not in the alphabet: characters outside the code table, lower case, tabs, '>' alone, "
        "private tables (the module documents that it ignores them)",
    ],
    level_text="every member of the stated finite space was executed on the real classes and compared with "
               "the reference sum / differential edge; nothing is claimed for longer strings except through "
               "the small-scope argument (the sum is a fold over the codes, the longest witness of any "
               "anchor mechanism has two codes); for file names the claim covers the enumerated paths only - the "
               "tokens are chosen so that every position relative to the last dot / last separator occurs",
    level_note="trusted: the hand-written IUPAC tables, the 10-line splitter and the path rule in mc/ref/fasta.py; "
               "the library's own single-residue table entries as base values; Formula.atoms/.mass as observers",
)

TYPES = R.TYPES
REL = 1e-9        # "is the sum / the average" (DESIGN section 3, documented-equation class)
REL_SAME = 1e-12  # same terms in another order / same value by another route
QABS = 1e-12      # charges are small signed sums of values of magnitude <= 1
NAME = "x"

FASTA_LINES = (">a", ">b x>y", "AC", "G", "", " ", "A*C")      # the second header has a description with a ">" inside the line
EXTENSIONS = (".fna", ".ffn", ".faa", ".frn", ".fa", ".txt", "", ".fna.txt", ".frn.fa")


# ------------------------------------------------------------------------------------------------
# observation of a Molecule / Sequence, comparison
# ------------------------------------------------------------------------------------------------
def mol_values(m):
    """Observable values of a Molecule: per species counts of the labile and the natural formula,
    cell volume, charge, masses."""
    v = {}
    for a, n in m.labile_formula.atoms.items():
        if n != 0:
            k = "L:" + str(a)
            v[k] = v.get(k, 0.0) + float(n)
    for a, n in m.natural_formula.atoms.items():
        if n != 0:
            k = "N:" + str(a)
            v[k] = v.get(k, 0.0) + float(n)
    v["cell_volume"] = float(m.cell_volume)
    v["charge"] = float(m.charge)
    v["mass"] = float(m.mass)
    v["Dmass"] = float(m.Dmass)
    return v


def field_of(key):
    if key.startswith("L:"):
        return "formula"
    if key.startswith("N:"):
        return "natural_formula"
    return key


_SCALARS = ("cell_volume", "charge", "mass", "Dmass", "|charge|")


def _key_order(k):
    """formula species first, then the natural formula, then the scalars (the first mismatch names
    the violation, and a wrong formula is the cause of a wrong mass, not the other way round)."""
    return (2 + _SCALARS.index(k), k) if k in _SCALARS else (0 if k.startswith("L:") else 1, k)


def compare(obs, exp, rel):
    """First mismatching key between two value dicts, or None.  Returns (field, key, exp, obs).
    Every value except the charge is a sum of non-negative terms -> plain relative comparison;
    the charge is compared relative to the sum of the magnitudes of its terms."""
    qscale = exp.get("|charge|", 0.0)
    for k in sorted(set(obs) | set(exp), key=_key_order):
        if k == "|charge|":
            continue
        a = obs.get(k, 0.0)
        b = exp.get(k, 0.0)
        if k == "charge":
            ok = abs(a - b) <= rel * max(qscale, abs(a), abs(b)) + QABS
        else:
            ok = close(a, b, rel)
        if not ok:
            return (field_of(k), k, b, a)
    return None


def _add(into, v, w=1.0):
    for k, x in v.items():
        into[k] = into.get(k, 0.0) + w * x


def show(v):
    if v is None:
        return None
    return dict((k, v[k]) for k in sorted(v) if k != "|charge|")


# ------------------------------------------------------------------------------------------------
# environment: library handles + reference values per code
# ------------------------------------------------------------------------------------------------
class Env(object):
    def __init__(self):
        load_pt()
        from periodictable import fasta, formula, constants
        self.fasta, self.formula = fasta, formula
        self.N_A = constants.avogadro_number
        self.ref = {}        # type -> code -> reference value dict (ambiguity codes averaged)
        self.bad = {}        # type -> code -> (signature, expected, observed); strings with it are pruned
        self.unjudged = {}   # type -> codes of the library table that the reference does not know
        self._exp = {}
        self._obs = {}
        for t in TYPES:
            self._init_type(t)

    def _init_type(self, t):
        try:
            table = self.fasta.CODE_TABLES[t]
        except Exception as e:
            raise MachineryError("fasta.CODE_TABLES[%r] not available: %r" % (t, e))
        ref, bad = {}, {}
        for b in R.PLAIN[t]:
            try:
                v = mol_values(table[b])
                v["|charge|"] = abs(v["charge"])
                ref[b] = v
            except Exception as e:
                bad[b] = ("table:exception:%s" % type(e).__name__, "entry for residue %s" % b,
                          "%s: %s" % (type(e).__name__, e))
        for c, members in R.AMBIGUOUS[t].items():
            if any(m in bad for m in members):
                bad[c] = None          # depends on a broken entry: pruned, no signature of its own
                continue
            avg = {}
            for m in members:
                _add(avg, ref[m], 1.0)
            if members:
                n = float(len(members))
                avg = dict((k, x / n) for k, x in avg.items())
            for k in ("cell_volume", "charge", "mass", "Dmass", "|charge|"):
                avg.setdefault(k, 0.0)
            ref[c] = avg
            try:
                got = mol_values(table[c])
            except Exception as e:
                bad[c] = ("table:exception:%s" % type(e).__name__, "entry for code %s" % c,
                          "%s: %s" % (type(e).__name__, e))
                continue
            mm = compare(got, avg, REL)
            if mm is not None:
                bad[c] = ("average:%s:%s" % (t, mm[0]),
                          "%s = %r (equal-weight average of %s)" % (mm[1], mm[2], "".join(members) or "nothing"),
                          "%s = %r" % (mm[1], mm[3]))
        self.ref[t], self.bad[t] = ref, bad
        self.unjudged[t] = sorted(set(table) - set(R.codes(t)))

    # ---- reference
    def expected(self, t, codes):
        key = (t, "".join(sorted(codes)))
        e = self._exp.get(key)
        if e is None:
            e = {"cell_volume": 0.0, "charge": 0.0, "mass": 0.0, "Dmass": 0.0, "|charge|": 0.0}
            for c in key[1]:
                _add(e, self.ref[t][c])
            if len(self._exp) > 200000:
                self._exp.clear()
            self._exp[key] = e
        return e

    # ---- implementation
    def sequence(self, t, raw):
        return self.fasta.Sequence(NAME, raw, type=t)

    def observe(self, t, raw, acc):
        """Run the real class.  Returns (values, seq) or (exception, None)."""
        acc.evaluations += 1
        try:
            s = self.sequence(t, raw)
            return mol_values(s), s
        except Exception as e:
            return e, None

    def obs_clean(self, t, s, acc):
        """Library observation of an undecorated string (memo), None if it raises."""
        key = (t, s)
        if key not in self._obs:
            v, _ = self.observe(t, s, acc)
            if len(self._obs) > 100000:
                self._obs.clear()
            self._obs[key] = None if isinstance(v, Exception) else v
        return self._obs[key]

    def pruned(self, t, codes):
        return any(c in self.bad[t] for c in codes)


_ENV = None


def env():
    global _ENV
    if _ENV is None:
        _ENV = Env()
    return _ENV


# ------------------------------------------------------------------------------------------------
# atomic checks (each is replayable from its case dict)
# ------------------------------------------------------------------------------------------------
def snippet_seq(t, raw, note):
    return ("from periodictable import fasta\n"
            "s = fasta.Sequence('x', %r, type=%r)\n"
            "print(dict((str(a), n) for a, n in s.labile_formula.atoms.items()), s.cell_volume, s.charge,\n"
            "      s.mass, s.Dmass, s.labile_formula.density, s.natural_formula.density)\n"
            "# %s\n" % (raw, t, note))


def check_table(E, acc, t, c):
    """Oracle (2): the table entry of an ambiguity code is the average of its constituents."""
    acc.evaluations += 1
    rec = E.bad[t].get(c)
    if rec is not None:
        sig, expected, observed = rec
        members = "".join(R.constituents(t, c))
        acc.violation(sig, dict(kind="table", type=t, code=c), expected=expected, observed=observed,
                      standalone=("from periodictable import fasta\n"
                                  "T = fasta.CODE_TABLES[%r]\n"
                                  "m = T[%r]\n"
                                  "print(m.labile_formula.atoms, m.cell_volume, m.charge, m.mass, m.Dmass)\n"
                                  "for c in %r: print(c, T[c].labile_formula.atoms, T[c].cell_volume, "
                                  "T[c].charge, T[c].mass, T[c].Dmass)\n"
                                  "# expected: the first line is the equal-weight average of the others\n"
                                  % (t, c, members)))
        return False
    return c not in E.bad[t]


def check_density(E, acc, t, raw, s):
    """Oracle (4): density = mass / cell volume, for the labile and the natural formula."""
    try:
        vol = s.cell_volume
        if not vol > 0:
            acc.outcome("density:not-judged-zero-volume")
            return True
        for label, f in (("labile", s.labile_formula), ("natural", s.natural_formula)):
            want = 1e24 * (f.mass / E.N_A) / vol
            if not close(f.density, want, REL):
                acc.violation("density:%s" % label, dict(kind="seq", type=t, raw=raw),
                              expected="%s_formula.density = mass/N_A/cell_volume*1e24 = %r" % (label, want),
                              observed=repr(f.density),
                              standalone=snippet_seq(t, raw, "density must be formula mass / avogadro / cell_volume * 1e24"))
                return False
    except Exception as e:
        acc.violation("density:exception:%s" % type(e).__name__, dict(kind="seq", type=t, raw=raw),
                      expected="density available", observed="%s: %s" % (type(e).__name__, e),
                      standalone=snippet_seq(t, raw, "density must be available"))
        return False
    return True


def check_plain(E, acc, t, s):
    """Oracle (1)+(4) on an undecorated string.  Returns (observed values, Sequence) if everything
    holds, else None."""
    exp = E.expected(t, s)
    v, seq = E.observe(t, s, acc)
    case = dict(kind="seq", type=t, raw=s)
    if isinstance(v, Exception):
        acc.violation("sum:exception:%s" % type(v).__name__, case, expected=show(exp),
                      observed="%s: %s" % (type(v).__name__, v),
                      standalone=snippet_seq(t, s, "must not raise"))
        return None
    mm = compare(v, exp, REL)
    if mm is not None:
        acc.violation("sum:%s" % mm[0], case,
                      expected="%s = %r (sum over the residues of %r)" % (mm[1], mm[2], s),
                      observed="%s = %r" % (mm[1], mm[3]),
                      standalone=snippet_seq(t, s, "expected %s = %r; all: %r" % (mm[1], mm[2], show(exp))),
                      detail=dict(expected=show(exp), observed=show(v)))
        return None
    if not check_density(E, acc, t, s, seq):
        return None
    return v, seq


def check_order(E, acc, t, p, rep_values):
    """The merge of equal multisets, checked on arrival: permutation p against the sorted string."""
    rep = "".join(sorted(p))
    v, seq = E.observe(t, p, acc)
    case = dict(kind="order", type=t, raw=p)
    snip = ("from periodictable import fasta\n"
            "for s in (%r, %r):\n"
            "    q = fasta.Sequence('x', s, type=%r)\n"
            "    print(s, dict((str(a), n) for a, n in q.labile_formula.atoms.items()), q.cell_volume, q.charge, "
            "q.mass, q.Dmass)\n# the two lines must agree\n" % (rep, p, t))
    if isinstance(v, Exception):
        acc.violation("order:exception:%s" % type(v).__name__, case, expected="as %r: %r" % (rep, show(rep_values)),
                      observed="%s: %s" % (type(v).__name__, v), standalone=snip)
        return None
    # same terms in another order: 1e-12 of the sum of magnitudes (all terms but the charge are >= 0)
    ref = dict(rep_values)
    ref["|charge|"] = E.expected(t, p)["|charge|"]
    mm = compare(v, ref, REL_SAME)
    if mm is not None:
        acc.violation("order:%s" % mm[0], case,
                      expected="%s = %r as for %r" % (mm[1], mm[2], rep),
                      observed="%s = %r" % (mm[1], mm[3]), standalone=snip,
                      detail=dict(representative=show(rep_values), observed=show(v)))
        return None
    mm = compare(v, E.expected(t, p), REL)
    if mm is not None:       # cannot happen when the representative passed; kept for replay of a lone case
        acc.violation("sum:%s" % mm[0], dict(kind="seq", type=t, raw=p),
                      expected="%s = %r" % (mm[1], mm[2]), observed="%s = %r" % (mm[1], mm[3]),
                      standalone=snippet_seq(t, p, "expected %s = %r" % (mm[1], mm[2])))
        return None
    if not check_density(E, acc, t, p, seq):
        return None
    return v, seq


def _decor_run(E, acc, t, raw):
    """Run raw and its cleaned form on the real class.  Returns (problem, v, seq, want, base):
    problem is None if both agree, ("exception", e) or ("field", mismatch) otherwise, "skip" if the
    cleaned string itself raises (judged elsewhere)."""
    base = R.clean(raw)
    want = E.obs_clean(t, base, acc)
    if want is None:
        return "skip", None, None, None, base
    v, seq = E.observe(t, raw, acc)
    if isinstance(v, Exception):
        return ("exception", v), v, None, want, base
    ref = dict(want)
    ref["|charge|"] = E.expected(t, base)["|charge|"]
    mm = compare(v, ref, REL_SAME)      # same terms, same order: really the same computation
    if mm is not None:
        return ("field", mm), v, seq, want, base
    return None, v, seq, want, base


def _decor_kind(E, t, raw):
    """Which decoration is the cause when raw misbehaves (only called on failure)."""
    if "*" not in raw:
        return "space"
    if " " not in raw:
        return "star"
    scratch = Acc()
    if _decor_run(E, scratch, t, raw.replace(" ", ""))[0] not in (None, "skip"):
        return "star"                   # the same string without any space fails as well
    if _decor_run(E, scratch, t, raw[:raw.index("*")])[0] not in (None, "skip"):
        return "space"                  # the part in front of the first '*' fails on its own
    return "space+star"


def check_decorated(E, acc, t, raw):
    """Oracle (3): spaces are ignored, everything from the first '*' on is dropped - the decorated
    string must give what the library gives for the cleaned string.  Returns the Sequence or None."""
    problem, v, seq, want, base = _decor_run(E, acc, t, raw)
    if problem == "skip":
        acc.count("decorations_skipped_base_raises")
        return None
    if problem is None:
        ncodes = len(raw.replace(" ", "").replace("*", ""))
        acc.outcome("space:ignored" if "*" not in raw else "star:dropped-%d-of-%d" % (ncodes - len(base), ncodes))
        return seq
    kind = _decor_kind(E, t, raw)
    case = dict(kind="decor", type=t, raw=raw)
    snip = ("from periodictable import fasta\n"
            "for s in (%r, %r):\n"
            "    q = fasta.Sequence('x', s, type=%r)\n"
            "    print(repr(s), dict((str(a), n) for a, n in q.labile_formula.atoms.items()), q.cell_volume, "
            "q.charge, q.mass, q.Dmass)\n# the two lines must agree\n" % (base, raw, t))
    if problem[0] == "exception":
        acc.violation("%s:exception:%s" % (kind, type(v).__name__), case,
                      expected="as Sequence(%r): %r" % (base, show(want)),
                      observed="%s: %s" % (type(v).__name__, v), standalone=snip)
        return None
    mm = problem[1]
    acc.violation("%s:%s" % (kind, mm[0]), case,
                  expected="%s = %r as for %r" % (mm[1], mm[2], base),
                  observed="%s = %r" % (mm[1], mm[3]), standalone=snip,
                  detail=dict(expected=show(want), observed=show(v)))
    return None


def blame_sequence(E, acc, t, raw):
    """A record loaded from a FASTA text misbehaves.  If the Sequence class misbehaves on the
    reference record text given to it directly, the FASTA reader is not the cause: the violation is
    reported exactly as the string exploration reports it (same signature, replayable as a
    string case) and True is returned."""
    n0 = acc.vcount
    check_plain(E, acc, t, R.clean(raw))
    if acc.vcount == n0 and (" " in raw or "*" in raw):
        check_decorated(E, acc, t, raw)
    return acc.vcount > n0


def check_prefix(E, acc, t, raw, seq=None):
    """formula('<type>:<codes>') is the labile formula of the Sequence class (seq: Sequence(raw)
    if the caller already has it)."""
    text = "%s:%s" % (t, raw)
    case = dict(kind="prefix", type=t, raw=raw)
    snip = ("import periodictable\nfrom periodictable import fasta\n"
            "f = periodictable.formula(%r)\n"
            "g = fasta.Sequence('x', %r, type=%r).labile_formula\n"
            "print(f.atoms, f.density)\nprint(g.atoms, g.density)\n# must agree\n" % (text, raw, t))
    try:
        if seq is None:
            acc.evaluations += 1
            seq = E.sequence(t, raw)
        g = seq.labile_formula
        want = dict(("L:" + str(a), float(n)) for a, n in g.atoms.items() if n != 0)
        wd = g.density
    except Exception:
        acc.count("prefix_skipped_class_raises")
        return False
    acc.evaluations += 1
    acc.count("prefix_route_calls")
    try:
        f = E.formula(text)
        got = dict(("L:" + str(a), float(n)) for a, n in f.atoms.items() if n != 0)
        gd = f.density
    except Exception as e:
        acc.violation("prefix:exception:%s" % type(e).__name__, case, expected=want,
                      observed="%s: %s" % (type(e).__name__, e), standalone=snip)
        return False
    mm = compare(got, want, REL_SAME)
    if mm is not None:
        acc.violation("prefix:formula", case, expected="%s = %r" % (mm[1], mm[2]),
                      observed="%s = %r" % (mm[1], mm[3]), standalone=snip,
                      detail=dict(expected=want, observed=got))
        return False
    if not close(gd, wd, REL_SAME):
        acc.violation("prefix:density", case, expected=repr(wd), observed=repr(gd), standalone=snip)
        return False
    return True


# ------------------------------------------------------------------------------------------------
# the prefix graph, one multiset (= merged state) at a time
# ------------------------------------------------------------------------------------------------
def decorations1(p):
    out = []
    for ch in (" ", "*"):
        for i in range(len(p) + 1):
            out.append(p[:i] + ch + p[i:])
    return out


def decorations2(p):
    """All strings obtained by two insertions of ' ' / '*' (distinct results)."""
    out = set()
    for d in decorations1(p):
        for ch in (" ", "*"):
            for i in range(len(d) + 1):
                out.add(d[:i] + ch + d[i:])
    return sorted(out)


def is_ambiguous(t, c):
    return c not in R.PLAIN[t]


def explore_multiset(E, acc, t, ms, deco2_len=2, sample=False):
    """ms: sorted code string (the canonical form of the merged state)."""
    if E.pruned(t, ms):
        acc.count("multisets_pruned_bad_table_entry")
        return
    acc.states += 1
    n = len(ms)
    perms = sorted(set(itertools.permutations(ms)))
    rep_values = None
    for tup in perms:
        p = "".join(tup)
        acc.count("strings_%s" % t)
        if n:
            acc.transitions += 1          # the append edge p[:-1] --p[-1]--> p
        if p == ms:
            res = check_plain(E, acc, t, p)
            rep_values = res[0] if res is not None else None
        elif rep_values is None:
            acc.count("permutations_skipped_representative_violates")
            continue
        else:
            res = check_order(E, acc, t, p, rep_values)
        if n >= 2 or any(is_ambiguous(t, c) for c in p):
            acc.nontrivial += 1
        if res is None:
            continue                      # do not explore beyond a violating state
        v, seq = res
        E._obs[(t, p)] = v
        q = v["charge"]
        acc.outcome("%s:len%d:charge%s:%s" % (t, n, "0" if q == 0 else ("+" if q > 0 else "-"),
                                              "ambiguous" if any(is_ambiguous(t, c) for c in p) else "plain"))
        check_prefix(E, acc, t, p, seq)
        decos = decorations1(p)
        if n <= deco2_len:
            decos = decos + decorations2(p)
        for raw in decos:
            acc.transitions += 1          # the insert edge p --> raw
            acc.nontrivial += 1
            acc.count("decorated_strings")
            dseq = check_decorated(E, acc, t, raw)
            if n <= deco2_len and dseq is not None:
                check_prefix(E, acc, t, raw, dseq)
        if sample and p == ms and n >= 2 and len(set(ms)) == n and len(acc.samples) < 2:
            acc.sample(dict(type=t, multiset=ms, permutations=["".join(q) for q in perms[:6]],
                            decorated=decos[:3] + decos[-3:], prefix_route="%s:%s" % (t, p)))


def multisets(t, maxlen):
    codes = R.codes(t)
    out = []
    for n in range(maxlen + 1):
        for comb in itertools.combinations_with_replacement(sorted(codes), n):
            out.append("".join(comb))
    return out


def _shard_strings(args):
    t, msets, seed, sample = args
    E = env()
    acc = Acc()
    for ms in rotate(msets, seed):
        explore_multiset(E, acc, t, ms, sample=sample)
    acc.info["max_codes_in_string"] = max(len(m) for m in msets) if msets else 0
    return acc


# ------------------------------------------------------------------------------------------------
# FASTA
# ------------------------------------------------------------------------------------------------
def ident_of(head):
    return head.split()[0] if head.split() else ""


def records_match(got, want):
    """got: [(name, sequence text)], want: reference records.  Returns None or (what, exp, obs)."""
    if len(got) != len(want):
        return ("records", "%d record(s) %r" % (len(want), want), "%d record(s) %r" % (len(got), got))
    for (name, seq), (head, wseq) in zip(got, want):
        if ident_of(head) not in str(name):
            return ("name", head, name)
        if "".join(str(seq).split()) != "".join(wseq.split()):
            return ("sequence", wseq, seq)
    return None


def fasta_text(lines, final_newline=True):
    text = "\n".join(lines)
    if lines and final_newline:
        text += "\n"
    return text


def check_read_fasta(E, acc, lines, source, final_newline, tmpdir):
    want = R.split_fasta(lines)
    text = fasta_text(lines, final_newline)
    case = dict(kind="read_fasta", lines=list(lines), source=source, final_newline=final_newline)
    snip = ("import io\nfrom periodictable import fasta\n"
            "print(list(fasta.read_fasta(io.StringIO(%r))))\n# expected records (header, sequence): %r\n"
            % (text, want))
    acc.evaluations += 1
    acc.transitions += 1
    fh = None
    try:
        if source == "file":
            path = os.path.join(tmpdir, "r.fasta")
            with open(path, "w") as f:
                f.write(text)
            fh = open(path, "rt")
            got = list(E.fasta.read_fasta(fh))
        else:
            got = list(E.fasta.read_fasta(io.StringIO(text)))
        got = [(r[0], r[1]) for r in got]
    except Exception as e:
        if not want:
            acc.outcome("fasta:no-header-raises-not-judged")
            return True
        acc.violation("fasta:read_fasta:exception:%s" % type(e).__name__, case, expected=want,
                      observed="%s: %s" % (type(e).__name__, e), standalone=snip)
        return False
    finally:
        if fh is not None:
            fh.close()
    mm = records_match(got, want)
    if mm is not None:
        acc.violation("fasta:read_fasta:%s" % mm[0], case, expected=mm[1], observed=mm[2], standalone=snip,
                      detail=dict(expected=want, observed=got))
        return False
    acc.outcome("fasta:records=%d" % len(want))
    return True


def _judge_loaded(E, acc, seq_obj, head, wseq, want_type, route, why, case, snip):
    """A loaded Sequence against the reference sum for the expected type."""
    try:
        v = mol_values(seq_obj)
        name = seq_obj.name
    except Exception as e:
        acc.violation("fasta:%s:exception:%s" % (route, type(e).__name__), case, expected="a Sequence",
                      observed="%s: %s" % (type(e).__name__, e), standalone=snip)
        return False
    if ident_of(head) not in str(name):
        acc.violation("fasta:%s:name" % route, case, expected=head, observed=name, standalone=snip)
        return False
    codes = R.clean(wseq)
    if compare(v, E.expected(want_type, codes), REL) is None:
        return True
    if blame_sequence(E, acc, want_type, wseq):
        return False
    for other in TYPES:
        if other != want_type and codes and compare(v, E.expected(other, codes), REL) is None:
            acc.violation("fasta:type:%s" % why, case,
                          expected="record %r read as type %r" % (codes, want_type),
                          observed="values of a %r sequence" % other, standalone=snip)
            return False
    mm = compare(v, E.expected(want_type, codes), REL)
    acc.violation("fasta:%s:sequence" % route, case,
                  expected="%s = %r (sum over %r as %s)" % (mm[1], mm[2], codes, want_type),
                  observed="%s = %r" % (mm[1], mm[3]), standalone=snip)
    return False


def check_load(E, acc, lines, ext, explicit, route, tmpdir):
    """Sequence.load / Sequence.loadall on a real file named s<ext>."""
    want = R.split_fasta(lines)
    text = fasta_text(lines)
    fname = "s" + ext
    want_type = R.type_of(fname, explicit)
    why = "explicit" if explicit is not None else ("known-extension" if ext in R.EXTENSION_TYPE
                                                   else "default-extension")
    case = dict(kind="load", lines=list(lines), ext=ext, type=explicit, route=route)
    snip = ("import os, tempfile, shutil\nfrom periodictable import fasta\n"
            "d = tempfile.mkdtemp()\np = os.path.join(d, %r)\nopen(p, 'w').write(%r)\n"
            "try:\n    L = %s\n"
            "    for s in L: print(s.name, s.labile_formula, s.cell_volume, s.mass)\n"
            "finally:\n    shutil.rmtree(d)\n"
            "# expected: records %r as type %r\n"
            % (fname, text,
               ("[fasta.Sequence.load(p, type=%r)]" % explicit) if route == "load"
               else ("list(fasta.Sequence.loadall(p, type=%r))" % explicit),
               want if route == "loadall" else want[:1], want_type))
    if route == "load" and not want:
        acc.outcome("fasta:load-without-header-not-judged")
        return True
    path = os.path.join(tmpdir, fname)
    with open(path, "w") as f:
        f.write(text)
    return _load_and_judge(E, acc, path, explicit, route, want, want_type, why, case, snip)


def _load_and_judge(E, acc, path, explicit, route, want, want_type, why, case, snip, exc_prefix=None):
    """Sequence.load / Sequence.loadall on an existing file against the reference records read as
    want_type.  why names the clause that fixes the type (part of the signature)."""
    acc.evaluations += 1
    acc.transitions += 1
    try:
        if route == "load":
            got = [E.fasta.Sequence.load(path, type=explicit)] if explicit is not None \
                else [E.fasta.Sequence.load(path)]
            want = want[:1]
        else:
            got = list(E.fasta.Sequence.loadall(path, type=explicit)) if explicit is not None \
                else list(E.fasta.Sequence.loadall(path))
    except Exception as e:
        if not want:
            acc.outcome("fasta:no-header-raises-not-judged")
            return True
        if any([blame_sequence(E, acc, want_type, wseq) for _, wseq in want]):
            return False
        acc.violation("%s:exception:%s" % (exc_prefix or ("fasta:%s" % route), type(e).__name__), case,
                      expected="records %r" % (want if route == "loadall" else want[:1]),
                      observed="%s: %s" % (type(e).__name__, e), standalone=snip)
        return False
    if len(got) != len(want):
        acc.violation("fasta:%s:records" % route, case, expected="%d record(s) %r" % (len(want), want),
                      observed="%d record(s) %r" % (len(got), [getattr(g, "name", g) for g in got]),
                      standalone=snip)
        return False
    for g, (head, wseq) in zip(got, want):
        if not _judge_loaded(E, acc, g, head, wseq, want_type, route, why, case, snip):
            return False
    acc.outcome("fasta:%s:%s:%s" % (route, why, want_type))
    return True


def fasta_files(maxlines):
    out = []
    for n in range(maxlines + 1):
        for tup in itertools.product(range(len(FASTA_LINES)), repeat=n):
            out.append(tup)
    return out


def fasta_nontrivial(lines):
    return any(R.clean(seq) for _, seq in R.split_fasta(lines))


def _shard_fasta(args):
    files, exts, type_sweep, seed, sample = args
    E = env()
    acc = Acc()
    tmpdir = tempfile.mkdtemp(prefix="verif-c18-")
    try:
        for tup in rotate(files, seed):
            lines = [FASTA_LINES[i] for i in tup]
            acc.states += 1
            if fasta_nontrivial(lines):
                acc.nontrivial += 1
            ok = check_read_fasta(E, acc, lines, "stringio", True, tmpdir)
            ok = check_read_fasta(E, acc, lines, "stringio", False, tmpdir) and ok
            ok = check_read_fasta(E, acc, lines, "file", True, tmpdir) and ok
            if not ok:
                continue                  # load/loadall sit on top of read_fasta
            if not type_sweep:
                combos = [(e, None) for e in exts]
            else:
                combos = [(e, x) for e in exts for x in (None,) + TYPES]
            for ext, explicit in combos:
                check_load(E, acc, lines, ext, explicit, "load", tmpdir)
                check_load(E, acc, lines, ext, explicit, "loadall", tmpdir)
            if sample and len(tup) >= 2 and len(acc.samples) < 2 and len(R.split_fasta(lines)) >= 2 \
                    and fasta_nontrivial(lines):
                acc.sample(dict(fasta_lines=lines, extensions=list(exts), type_sweep=bool(type_sweep)))
    finally:
        shutil.rmtree(tmpdir, ignore_errors=True)
    return acc


# ------------------------------------------------------------------------------------------------
# file-name shapes: the "typed by the file extension" clause over an alphabet of paths
# ------------------------------------------------------------------------------------------------
# A relative path is a string of <= NAME_DEPTH tokens followed by one ending.  The tokens give the
# shapes (several dots, dots and extension words in directory components, './', '../', '//'), the
# endings give what the name ends with.  Every distinct string that can name a file is created for
# real below a scratch directory and handed to Sequence.load and Sequence.loadall twice: spelled
# as an absolute path and spelled relative to the working directory.  Expected type: R.path_type
# (last dot of the last component, exact match with the four extensions, otherwise 'aa').
NAME_LINES = (">a", "ACGT", ">b x", "GA")      # codes of all three tables; the three sums differ
NAME_TOKENS = dict(quick=("s", ".", "/", "fna", "frn"),
                   thorough=("s", ".", "/", "_", "fna", "ffn", "faa", "frn"))
NAME_DEPTH = dict(quick=3, thorough=4)
NAME_ENDINGS = (".fna", ".ffn", ".faa", ".frn",                 # the four known extensions
                "", ".", ".fa", ".txt", ".fasta",               # no extension / an unknown one
                "fna", "frn", "_fna", "-frn",                   # the word without its dot
                ".fnax", ".xfna", ".fn", ".fna~", ".fna.",      # nearly a known extension
                ".FNA", ".Frn", ".faA")                         # another case (a different file name)


def name_space(tier):
    out = set()
    for n in range(NAME_DEPTH[tier] + 1):
        for tup in itertools.product(NAME_TOKENS[tier], repeat=n):
            stem = "".join(tup)
            for e in NAME_ENDINGS:
                if R.is_file_path(stem + e):
                    out.add(stem + e)
    return sorted(out)


def _realise(root, rel, text):
    """Create the file <root>/w/<rel> (and the directories on the way).  Returns the path spelled
    <root>/w/<rel>, or None if rel cannot be created below root (leaves root, file where a directory
    is needed)."""
    work = os.path.join(root, "w")
    os.makedirs(work)
    cur = work
    comps = rel.split("/")
    for c in comps[:-1]:
        if c in ("", "."):
            continue
        if c == "..":
            cur = os.path.dirname(cur)
            if len(cur) < len(root):
                return None
            continue
        cur = os.path.join(cur, c)
        if not os.path.isdir(cur):
            if os.path.exists(cur):
                return None
            os.mkdir(cur)
    target = os.path.join(cur, comps[-1])
    if os.path.isdir(target):
        return None
    with open(target, "w") as f:
        f.write(text)
    spelled = os.path.join(work, rel)
    if not (os.path.isfile(spelled) and os.path.samefile(spelled, target)):
        raise MachineryError("C18 name sweep: %r does not name the file just written (%r)" % (spelled, target))
    return spelled


def _name_snippet(rel, form, route, text, want, want_type):
    call = "fasta.Sequence.load(p)" if route == "load" else "list(fasta.Sequence.loadall(p))"
    return ("import os, tempfile, shutil\nfrom periodictable import fasta\n"
            "root = tempfile.mkdtemp(); work = os.path.join(root, 'w'); os.mkdir(work); os.chdir(work)\n"
            "rel = %r\ncur = work\n"
            "for c in rel.split('/')[:-1]:\n"
            "    cur = os.path.normpath(os.path.join(cur, c)); os.makedirs(cur, exist_ok=True)\n"
            "open(rel, 'w').write(%r)\n"
            "p = %s\n"
            "try:\n    L = %s\n    L = L if isinstance(L, list) else [L]\n"
            "    for s in L: print(s.name, s.labile_formula, s.cell_volume, s.mass)\n"
            "finally:\n    os.chdir('/'); shutil.rmtree(root)\n"
            "# expected: records %r as type %r (extension = last dot of the last path component)\n"
            % (rel, text, "rel" if form == "rel" else "os.path.join(work, rel)", call,
               want if route == "loadall" else want[:1], want_type))


def check_name(E, acc, rel, tmpdir, only=None):
    """One relative path through load/loadall, absolute and relative spelling.  only = (form, route)
    restricts to one call (replay)."""
    want_type = R.path_type(rel)
    if want_type is None:
        acc.count("names_not_judged_only_an_extension")
        return True
    why = R.name_class(rel)
    want = R.split_fasta(NAME_LINES)
    text = fasta_text(NAME_LINES)
    root = os.path.join(tmpdir, "k")
    if "." in root:
        raise MachineryError("C18 name sweep: scratch directory %r contains a dot" % root)
    back = os.getcwd()
    ok = True
    try:
        spelled = _realise(root, rel, text)
        if spelled is None:
            acc.count("names_not_realisable")
            return True
        if R.path_type(spelled) != want_type:
            raise MachineryError("C18 name sweep: reference types %r and %r differently" % (rel, spelled))
        os.chdir(os.path.join(root, "w"))
        for form in ("abs", "rel"):
            for route in ("load", "loadall"):
                if only is not None and (form, route) != tuple(only):
                    continue
                path = spelled if form == "abs" else rel
                case = dict(kind="name", name=rel, form=form, route=route)
                snip = _name_snippet(rel, form, route, text, want, want_type)
                ok = _load_and_judge(E, acc, path, None, route, want, want_type, why, case, snip,
                                     exc_prefix="fasta:name:%s" % why) and ok
    finally:
        os.chdir(back)
        shutil.rmtree(root, ignore_errors=True)
    if ok:
        acc.outcome("name:%s:%s" % (why, want_type))
    return ok


def _shard_names(args):
    names, seed, sample = args
    E = env()
    acc = Acc()
    tmpdir = tempfile.mkdtemp(prefix="verif-c18-")
    try:
        for rel in rotate(names, seed):
            acc.states += 1
            acc.nontrivial += 1           # every distinct path is a distinct case of the clause
            acc.count("file_names")
            check_name(E, acc, rel, tmpdir)
        if sample:
            pick = [n for n in names if n.count(".") >= 2 or "/" in n]
            acc.sample(dict(file_names=pick[:4] + pick[-4:], text=list(NAME_LINES), routes=["load", "loadall"],
                            spellings=["absolute", "relative to the working directory"]))
    finally:
        shutil.rmtree(tmpdir, ignore_errors=True)
    return acc


# ------------------------------------------------------------------------------------------------
# interleaved loads: the type of a record may not depend on what else is being loaded
# ------------------------------------------------------------------------------------------------
# An actor is one use of a route.  loadall is a generator: its steps are "call", one next() per
# record and the final next() that must stop; load and the direct routes have one step.  For every
# unordered pair of actors every interleaving of their steps runs in its own forked interpreter;
# every record is judged the moment it is produced.  An actor that fails alone is reported with
# its plain signature and not paired.
IL_TEXTS = ((">a", "ACGT", ">b x", "GA"), (">c", "TTG", ">d y", "C", "A"))
IL_CODES = "ACGT"


def il_actors(tier):
    names = ("s.fna", "s.frn", "s.faa", "s.txt") if tier == "quick" else \
        ("s.fna", "s.frn", "s.faa", "s.txt", "s.ffn", "s")
    acts = [("loadall", n, None) for n in names] + [("load", n, None) for n in names]
    if tier != "quick":
        acts += [("loadall", "s.fna", "rna"), ("loadall", "s.txt", "dna"), ("load", "s.frn", "aa")]
    acts += [("direct", t, None) for t in TYPES]
    return acts


def il_steps(actor, slot):
    return len(R.split_fasta(IL_TEXTS[slot])) + 2 if actor[0] == "loadall" else 1


def il_orders(actors):
    """All interleavings of the steps of one or two actors (tuples of slot numbers)."""
    if len(actors) == 1:
        return [(0,) * il_steps(actors[0], 0)]
    na, nb = il_steps(actors[0], 0), il_steps(actors[1], 1)
    out = []
    for pos in itertools.combinations(range(na + nb), na):
        order = [1] * (na + nb)
        for i in pos:
            order[i] = 0
        out.append(tuple(order))
    return out


def _il_snippet(actors, order):
    lines = ["import os, tempfile, shutil", "import periodictable", "from periodictable import fasta",
             "root = tempfile.mkdtemp()",
             "def show(s): print(s.name, s.labile_formula, s.cell_volume, s.mass)"]
    for i, (route, arg, explicit) in enumerate(actors):
        if route != "direct":
            lines.append("os.mkdir(os.path.join(root, 'd%d')); p%d = os.path.join(root, 'd%d', %r); "
                         "open(p%d, 'w').write(%r)" % (i, i, i, arg, i, fasta_text(IL_TEXTS[i])))
    started = set()
    for who in order:
        route, arg, explicit = actors[who]
        kw = "" if explicit is None else ", type=%r" % explicit
        if route == "direct":
            lines.append("show(fasta.Sequence('x', %r, type=%r)); print(periodictable.formula(%r).atoms)"
                         % (IL_CODES, arg, "%s:%s" % (arg, IL_CODES)))
        elif route == "load":
            lines.append("show(fasta.Sequence.load(p%d%s))" % (who, kw))
        elif who not in started:
            started.add(who)
            lines.append("g%d = fasta.Sequence.loadall(p%d%s)" % (who, who, kw))
        else:
            lines.append("s = next(g%d, None); show(s) if s is not None else print('g%d stops')" % (who, who))
    lines.append("shutil.rmtree(root)")
    lines.append("# every record must have the values of its own file's type: %s"
                 % ", ".join("%s -> %s" % (a[1], R.path_type(a[1], a[2])) for a in actors if a[0] != "direct"))
    return "\n".join(lines) + "\n"


def il_run(E, actors, order, tmpdir):
    """Execute one interleaving (inside a forked child).  Returns an Acc with plain signatures."""
    acc = Acc()
    case = dict(kind="interleave", actors=[list(a) for a in actors], order=list(order))
    snip = _il_snippet(actors, order)
    slots = []
    for i, (route, arg, explicit) in enumerate(actors):
        if route == "direct":
            slots.append(None)
            continue
        d = os.path.join(tmpdir, "d%d" % i)
        if not os.path.isdir(d):
            os.makedirs(d)
        path = os.path.join(d, arg)
        with open(path, "w") as f:
            f.write(fasta_text(IL_TEXTS[i]))
        slots.append(dict(path=path, want=R.split_fasta(IL_TEXTS[i]), type=R.path_type(path, explicit),
                          why="explicit" if explicit is not None else R.name_class(arg), gen=None, k=0))
    for who in order:
        route, arg, explicit = actors[who]
        st = slots[who]
        acc.transitions += 1
        if route == "direct":
            res = check_plain(E, acc, arg, IL_CODES)
            if res is None or not check_prefix(E, acc, arg, IL_CODES, res[1]):
                return acc
            continue
        if route == "load":
            if not _load_and_judge(E, acc, st["path"], explicit, "load", st["want"], st["type"], st["why"],
                                   case, snip):
                return acc
            acc.transitions -= 1          # counted by _load_and_judge
            continue
        k, st["k"] = st["k"], st["k"] + 1
        acc.evaluations += 1
        try:
            if k == 0:
                st["gen"] = iter(E.fasta.Sequence.loadall(st["path"], type=explicit) if explicit is not None
                                 else E.fasta.Sequence.loadall(st["path"]))      # any iterable will do
                continue
            try:
                rec = next(st["gen"])
            except StopIteration:
                rec = None
        except Exception as e:
            if any([blame_sequence(E, acc, st["type"], wseq) for _, wseq in st["want"]]):
                return acc
            acc.violation("fasta:loadall:exception:%s" % type(e).__name__, case, expected="records %r" % st["want"],
                          observed="%s: %s" % (type(e).__name__, e), standalone=snip)
            return acc
        if (rec is None) != (k == len(st["want"]) + 1):
            acc.violation("fasta:loadall:records", case, expected="%d record(s) %r" % (len(st["want"]), st["want"]),
                          observed="no record at step %d" % k if rec is None else "one more record %r"
                          % getattr(rec, "name", rec), standalone=snip)
            return acc
        if rec is not None:
            head, wseq = st["want"][k - 1]
            if not _judge_loaded(E, acc, rec, head, wseq, st["type"], "loadall", st["why"], case, snip):
                return acc
    acc.outcome("interleave:%s" % "+".join(sorted(a[0] for a in actors)))
    return acc


def il_fork(E, actors, order, tmpdir):
    from ..histmc import in_fork
    return in_fork(lambda: il_run(E, actors, order, tmpdir))


def il_merge(acc, sub, prefix, actors=None, order=None):
    """Merge the result of one forked interleaving; with a prefix the violations are attached to
    the interleaving (signature prefix, case = the interleaving itself, so that it replays as one)."""
    viol, sub.viol, sub.vcount = sub.viol, {}, 0
    acc.merge(sub)
    for sig, rec in viol.items():
        case, snip = rec["case"], rec.get("standalone")
        if prefix:
            case = dict(kind="interleave", actors=[list(a) for a in actors], order=list(order))
            snip = _il_snippet(actors, order)
        acc.violation(prefix + sig, case, expected=rec["expected"], observed=rec["observed"], standalone=snip)


def _shard_interleave(args):
    pairs, seed, sample = args
    E = env()
    acc = Acc()
    tmpdir = tempfile.mkdtemp(prefix="verif-c18-")
    solo = {}
    try:
        for a, b in rotate(pairs, seed):
            good = True
            for x in (a, b):
                if x not in solo:
                    sub = il_fork(E, (x,), il_orders((x,))[0], tmpdir)
                    solo[x] = not sub.viol
                    acc.count("interleave_solo_runs")
                    il_merge(acc, sub, "")
                good = good and solo[x]
            if not good:
                acc.count("interleave_pairs_skipped_actor_fails_alone")
                continue
            for order in il_orders((a, b)):
                acc.states += 1
                acc.nontrivial += 1
                acc.count("interleavings")
                il_merge(acc, il_fork(E, (a, b), order, tmpdir), "interleaved:", (a, b), order)
            if sample and a[0] == b[0] == "loadall" and a != b and len(acc.samples) < 1:
                acc.sample(dict(kind="interleave", actors=[list(a), list(b)],
                                orders=[list(o) for o in il_orders((a, b))[:3]], texts=[list(t) for t in IL_TEXTS]))
    finally:
        shutil.rmtree(tmpdir, ignore_errors=True)
    return acc


# ------------------------------------------------------------------------------------------------
# header collisions: records that differ only in (part of) their header, or not at all
# ------------------------------------------------------------------------------------------------
# Same identifier with and without description, an identifier that is a prefix of another, the same
# identifier in another case, a description with '>' inside; bodies: none, 'AC', 'G' (and both).
HDR_HEADS = (">a", ">a z", ">A", ">ab", ">b x>y")
HDR_BODIES = (((), ("AC",), ("G",)), ((), ("AC",), ("G",), ("AC", "G")))


def header_texts(maxrec, bodies):
    recs = [(h, b) for h in HDR_HEADS for b in bodies]
    out = []
    for n in range(1, maxrec + 1):
        for tup in itertools.product(recs, repeat=n):
            lines = []
            for h, b in tup:
                lines.append(h)
                lines.extend(b)
            if len(lines) <= 5 and all(l in FASTA_LINES for l in lines):
                continue                  # member of the general text enumeration
            out.append(tuple(lines))
    return out


def _shard_headers(args):
    texts, seed, sample = args
    E = env()
    acc = Acc()
    tmpdir = tempfile.mkdtemp(prefix="verif-c18-")
    try:
        for lines in rotate(texts, seed):
            lines = list(lines)
            acc.states += 1
            acc.count("header_texts")
            if len(R.split_fasta(lines)) >= 2:
                acc.nontrivial += 1
            if not check_read_fasta(E, acc, lines, "stringio", True, tmpdir):
                continue
            check_load(E, acc, lines, ".fna", None, "load", tmpdir)
            check_load(E, acc, lines, ".fna", None, "loadall", tmpdir)
        if sample and texts:
            acc.sample(dict(header_texts=[list(t) for t in texts[-2:]], headers=list(HDR_HEADS)))
    finally:
        shutil.rmtree(tmpdir, ignore_errors=True)
    return acc


# ------------------------------------------------------------------------------------------------
# run / replay
# ------------------------------------------------------------------------------------------------
# ---------------------------------------------------------------------------------------------
# prefix-history graph: the prefix route must not depend on which prefixed lookups came before
# (module-level caches); events = formula('<type>:<codes>') over strings whose letters are codes of
# all three tables; every path of <= depth events runs in its own chain of forked interpreters
HIST_STRINGS = ("GATTACA", "ACGT", "N")


def _hist_walk(E, acc, hist, depth, events):
    from ..histmc import in_fork
    for ev in events:
        def node(ev=ev):
            sub = Acc()
            t, raw = ev
            ok = check_prefix(E, sub, t, raw)
            sub.states += 1
            sub.transitions += 1
            if hist:
                sub.nontrivial += 1
            out = Acc()
            out.merge(sub)
            out.viol = {}
            for sig, rec in sub.viol.items():
                h2 = [list(h) for h in hist] + [list(ev)]
                code = "import periodictable\n" + "".join(
                    "print(periodictable.formula(%r).atoms)\n" % ("%s:%s" % (a, b)) for a, b in h2) + \
                    "# the last line must be the labile formula of fasta.Sequence('x', %r, type=%r)\n" % (raw, t)
                out.violation(("prefix-history:" if hist else "") + sig, dict(kind="prefix-history", history=h2),
                              expected=rec["expected"], observed=rec["observed"], standalone=code)
            if ok and len(hist) + 1 < depth:
                _hist_walk(E, out, hist + (ev,), depth, events)
            return out
        acc.merge(in_fork(node))


def _shard_prefix_history(args):
    first, depth, seed = args
    E = env()
    acc = Acc()
    events = rotate([(t, s) for t in TYPES for s in HIST_STRINGS], seed)
    # the first event is fixed by the shard; deeper events range over the whole alphabet
    from ..histmc import in_fork
    def root():
        sub = Acc()
        ok = check_prefix(E, sub, first[0], first[1])
        sub.states += 1; sub.transitions += 1
        if ok and depth > 1:
            _hist_walk(E, sub, (first,), depth, events)
        return sub
    acc.merge(in_fork(root))
    acc.sample(dict(kind="prefix-history", first=list(first), depth=depth))
    return acc


# ------------------------------------------------------------------------------------------------
# caller-update histories: what a sequence or a prefix formula hands out belongs to the caller.  A caller that goes
# on with it in place (f += water, the termination the fasta documentation suggests) must not change what the code
# tables serve afterwards.  One history = (type, code, way the Formula was obtained, in-place update), in its own fork.
CU_WAYS = (("prefix", "f = periodictable.formula('%(t)s:%(c)s')"),
           ("sequence.labile_formula", "f = fasta.Sequence('x', %(c)r, type=%(t)r).labile_formula"),
           ("sequence.formula", "f = fasta.Sequence('x', %(c)r, type=%(t)r).formula"),
           ("sequence.D2Osld-then-labile", "s_ = fasta.Sequence('x', %(c)r, type=%(t)r); s_.D2Osld(1., 0.5); f = s_.labile_formula"))
CU_UPDATES = (("iadd-water", "f += periodictable.formula('H[1]2O')"),
              ("iadd-self", "f += f"))


def _cu_history(E, t, c, way, upd):
    sub = Acc()
    ns = {}
    code = "import periodictable\nfrom periodictable import fasta\n" + way[1] % dict(t=t, c=c) + "\n" + upd[1] + "\n"
    case = dict(kind="caller-update", type=t, code=c, way=way[0], update=upd[0])
    other = [x for x in R.PLAIN[t] if x != c][0]
    try:
        exec(code, ns)
    except Exception as e:
        sub.count("caller_update_history_raises:%s" % type(e).__name__)
        return sub
    for raw in (c, c + c, c + other, other + c + other):
        inner = Acc()
        ok = check_plain(E, inner, t, raw) is not None
        ok = check_prefix(E, inner, t, raw) and ok
        sub.evaluations += inner.evaluations
        sub.states += 1; sub.transitions += 1; sub.nontrivial += 1
        for sig, rec in inner.viol.items():
            sub.violation("after-caller-update:" + sig.split(":")[0] + ":" + way[0], dict(case, raw=raw), expected=rec["expected"],
                          observed=rec["observed"],
                          standalone=code + "print(fasta.Sequence('x', %r, type=%r).formula.atoms)\n"
                                            "print(periodictable.formula(%r).atoms)\n# both must be the sum of the residues of %r\n"
                                            % (raw, t, "%s:%s" % (t, raw), raw))
        if not ok:
            break
    return sub


def _shard_caller_update(args):
    hists, seed = args
    from ..histmc import in_fork
    E = env()
    acc = Acc()
    for t, c, wi, ui in hists:
        acc.merge(in_fork(lambda t=t, c=c, wi=wi, ui=ui: _cu_history(E, t, c, CU_WAYS[wi], CU_UPDATES[ui])))
    acc.count("caller_update_histories", len(hists))
    return acc


def caller_update_space():
    return [(t, c, wi, ui) for t in TYPES for c in R.codes(t) if c not in "*- "
            for wi in range(len(CU_WAYS)) for ui in range(len(CU_UPDATES))]


def run(ctx):
    E = env()
    acc = ctx.acc
    # (2) table entries of the ambiguity codes - in the parent, once
    for t in TYPES:
        for c in sorted(R.AMBIGUOUS[t]):
            ok = check_table(E, acc, t, c)
            acc.outcome("table:%s:%s" % (t, "average-ok" if ok else "bad"))
        for b in R.PLAIN[t]:
            rec = E.bad[t].get(b)
            if rec is not None:
                acc.violation(rec[0], dict(kind="table", type=t, code=b), expected=rec[1], observed=rec[2],
                              standalone="from periodictable import fasta\nprint(fasta.CODE_TABLES[%r][%r])\n" % (t, b))
        acc.info["codes_%s" % t] = len(R.codes(t))
        if E.unjudged[t]:
            acc.info["unjudged_codes_%s" % t] = "".join(E.unjudged[t])

    if ctx.quick:
        lens = dict(aa=2, dna=3, rna=3)
        nshards = dict(aa=2, dna=10, rna=10)
        fasta_exts, n_fasta, sweep_lines, n_sweep = (".faa",), 8, 2, 1
    else:
        lens = dict(aa=4, dna=4, rna=4)
        nshards = dict(aa=96, dna=32, rna=32)
        fasta_exts, n_fasta, sweep_lines, n_sweep = (".faa", ".fna", ".frn"), 16, 3, 8
    jobs = []
    for t in TYPES:
        ms = multisets(t, lens[t])
        # interleave so that every shard gets multisets of every size; disjoint by construction
        for i, part in enumerate(chunks(ms, nshards[t])):
            jobs.append((_shard_strings, (t, part, ctx.seed, i == 0)))
    files = fasta_files(5)
    for i, part in enumerate(chunks(files, n_fasta)):
        jobs.append((_shard_fasta, (part, fasta_exts, False, ctx.seed, i == 0)))
    for i, part in enumerate(chunks(fasta_files(sweep_lines), n_sweep)):
        jobs.append((_shard_fasta, (part, EXTENSIONS, True, ctx.seed, i == 0)))
    # file-name shapes, interleaved loads, header collisions
    tier = "quick" if ctx.quick else "thorough"
    names = name_space(tier)
    for i, part in enumerate(chunks(names, 8 if ctx.quick else 48)):
        jobs.append((_shard_names, (part, ctx.seed, i == 0)))
    actors = il_actors(tier)
    pairs = [(a, b) for i, a in enumerate(actors) for b in actors[i:]]
    for i, part in enumerate(chunks(pairs, 8 if ctx.quick else 24)):
        jobs.append((_shard_interleave, (part, ctx.seed, i == 0)))
    htexts = header_texts(3, HDR_BODIES[0]) if ctx.quick else \
        header_texts(4, HDR_BODIES[0]) + header_texts(3, HDR_BODIES[1])
    htexts = sorted(set(htexts))
    for i, part in enumerate(chunks(htexts, 6 if ctx.quick else 32)):
        jobs.append((_shard_headers, (part, ctx.seed, i == 0)))
    acc.info["file_name_space"] = len(names)
    acc.info["interleave_actor_pairs"] = len(pairs)
    acc.info["header_text_space"] = len(htexts)
    hist_depth = 3 if ctx.quick else 4
    for t in TYPES:
        for hs in HIST_STRINGS:
            jobs.append((_shard_prefix_history, ((t, hs), hist_depth, ctx.seed)))
    acc.info["max_prefix_history_depth"] = hist_depth
    cus = caller_update_space()
    for part in chunks(cus, 16):
        jobs.append((_shard_caller_update, (part, ctx.seed)))
    acc.info["caller_update_history_space"] = len(cus)
    jobs = rotate(jobs, ctx.seed)
    ctx.pmap(_dispatch, jobs)
    acc.traces = acc.evaluations          # every execution of the real code is compared
    acc.info["max_codes_aa"] = lens["aa"]
    acc.info["max_codes_dna_rna"] = lens["dna"]
    acc.info["fasta_texts"] = len(files)


def _dispatch(job):
    fn, args = job
    return fn(args)


def replay(ctx, case, signature=None):
    E = env()
    acc = ctx.acc
    kind = case.get("kind")
    if kind == "table":
        t, c = case["type"], case["code"]
        rec = E.bad[t].get(c)
        if rec is not None and c in R.PLAIN[t]:
            acc.violation(rec[0], case, expected=rec[1], observed=rec[2])
        elif c in R.AMBIGUOUS[t]:
            check_table(E, acc, t, c)
    elif kind == "seq":
        check_plain(E, acc, case["type"], case["raw"])
    elif kind == "order":
        t, p = case["type"], case["raw"]
        rep = "".join(sorted(p))
        res = check_plain(E, acc, t, rep)
        if res is not None:
            check_order(E, acc, t, p, res[0])
    elif kind == "decor":
        check_decorated(E, acc, case["type"], case["raw"])
    elif kind == "prefix":
        check_prefix(E, acc, case["type"], case["raw"])
    elif kind == "prefix-history":
        from ..histmc import in_fork
        def work():
            sub = Acc()
            for t, raw in case["history"]:
                check_prefix(E, sub, t, raw)
            return sub
        sub = in_fork(work)
        for sig, rec in sub.viol.items():
            acc.violation("prefix-history:" + sig, case, expected=rec["expected"], observed=rec["observed"])
    elif kind == "caller-update":
        from ..histmc import in_fork
        way = [w for w in CU_WAYS if w[0] == case["way"]][0]
        upd = [u for u in CU_UPDATES if u[0] == case["update"]][0]
        sub = in_fork(lambda: _cu_history(E, case["type"], case["code"], way, upd))
        for sig, rec in sub.viol.items():
            acc.violation(sig, rec["case"], expected=rec["expected"], observed=rec["observed"], standalone=rec.get("standalone"))
    elif kind in ("read_fasta", "load", "name", "interleave"):
        tmpdir = tempfile.mkdtemp(prefix="verif-c18-")
        try:
            if kind == "read_fasta":
                check_read_fasta(E, acc, case["lines"], case["source"], case["final_newline"], tmpdir)
            elif kind == "name":
                check_name(E, acc, case["name"], tmpdir, only=(case["form"], case["route"]))
            elif kind == "interleave":
                actors = tuple((a[0], a[1], a[2]) for a in case["actors"])
                order = tuple(case["order"])
                il_merge(acc, il_fork(E, actors, order, tmpdir), "interleaved:" if len(actors) > 1 else "",
                         actors, order)
            else:
                check_load(E, acc, case["lines"], case["ext"], case["type"], case["route"], tmpdir)
        finally:
            shutil.rmtree(tmpdir, ignore_errors=True)
    else:
        raise MachineryError("unknown C18 case kind %r" % kind)
