"""C07 - neutron data of every element and isotope are those of the embedded table.

Complete sweep: every row x every column of nsf.nsftable, every row of nsf.nsftableI, every node of
every energy-dependent table (plus the derived natural-Lu table), every atom NOT in the table; in
every configuration of the shared configuration graph (mc/configs.py)."""
import math, cmath
from ..common import Acc, load_pt, close, rotate
from ..ref import tables as rt
from ..configs import QUICK_PATHS, all_paths, apply_event, judged_tables, snippet as _snippet

META = dict(
    level="model_checking", engine="E1",
    technique="complete row x column sweep of the embedded neutron tables in every state of a configuration "
              "graph, against an independent reader",
    rule=("every configuration path runs in a fresh forked interpreter; in the end state, for the public table and "
          "every private table on which the neutron group was initialised, each (row, column) cell of the neutron "
          "table, each imaginary-table cell, each energy-table node and each atom absent from the table is "
          "compared with the independent reader; cells are distinct by construction"),
    bound=dict(quick="6 configuration paths x all rows/columns/nodes (exhaustive over the tables)",
               thorough="all configuration paths up to length 4 x all rows/columns/nodes"),
    assumptions=["the embedded table text is the source of truth", "column meaning is taken from the comment block "
                 "above nsftable in nsf.py", "energy -> wavelength conversion of the library is used to address "
                 "the table nodes (its correctness is C04)"],
    level_text="complete over the finite domain (364 rows x 11 columns, 16 imaginary rows, 14 energy tables with all "
               "nodes, all atoms not in the table) in each explored configuration",
    level_note="independent reader mc/ref/tables.py; Eu[151] b_c_complex, Pu and Cm element records are excluded "
               "(DESIGN C07 X)",
)

FIELDS = ("b_c", "bp", "bm", "coherent", "incoherent", "total", "absorption")
ABS_WL = 1.798


def sweep(pt, T, label, path, acc):
    from periodictable import nsf
    rows = rt.neutron_rows()
    imag = rt.neutron_imag_rows()
    etab = rt.energy_tables()
    cells = 0

    def bad(rule, key, expected, observed, code):
        acc.violation("%s:%s" % (rule, "public" if label == "public" else "private"),
                      dict(path=list(path), table=label, key=key, rule=rule),
                      expected=expected, observed=observed, standalone=_snippet(path, label, code))

    def atom_of(Z, A):
        return T[Z] if A == 0 else T[Z][A]

    def name(Z, A):
        return "T[%d]" % Z if A == 0 else "T[%d][%d]" % (Z, A)

    in_table = set()
    by_z = {}
    for r in rows:
        in_table.add((r["Z"], r["A"]))
        by_z.setdefault(r["Z"], []).append(r)
    for r in rows:
        Z, A = r["Z"], r["A"]
        code = "print(vars(%s.neutron))" % name(Z, A)
        try:
            atom = atom_of(Z, A)
            n = atom.neutron
        except Exception as e:
            bad("row-atom-raises", [Z, A], "neutron record", "%s: %s" % (type(e).__name__, e), code)
            continue
        if T[Z].symbol != r["symbol"]:
            bad("row-symbol", [Z, A], r["symbol"], T[Z].symbol, code)
        want = dict((f, r[f]) for f in FIELDS)
        # the two documented gap fills
        if r["symbol"] == "Xe" and A == 0 and want["total"] is None:
            want["total"] = r["coherent"] + r["incoherent"]
        if r["symbol"] == "Eu" and A == 151 and want["b_c"] is None:
            want["b_c"] = math.sqrt(r["coherent"] * 100.0 / (4 * math.pi))
        for f in FIELDS:
            cells += 1
            try:
                got = getattr(n, f)
            except Exception as e:
                bad("field-raises:" + f, [Z, A], want[f], "%s: %s" % (type(e).__name__, e), code)
                continue
            if not close(got, want[f], 1e-12):
                bad("field:" + f, [Z, A], want[f], got, code)
        cells += 1
        if bool(getattr(n, "is_energy_dependent", None)) != r["E"]:
            bad("field:is_energy_dependent", [Z, A], r["E"], getattr(n, "is_energy_dependent", None), code)
        if A != 0:
            cells += 2
            got = getattr(n, "abundance", "absent")
            if not close(got if got != "absent" else None, r["abundance"], 1e-12):
                bad("field:abundance", [Z, A], r["abundance"], got, code)
            spin = getattr(atom, "nuclear_spin", "absent")
            if spin != r["spin"]:
                bad("field:nuclear_spin", [Z, A], r["spin"], spin, "print(%s.nuclear_spin)" % name(Z, A))
        # imaginary companion table
        want_i = imag.get((Z, A), (None, None, None))
        for f, w in zip(("b_c_i", "bp_i", "bm_i"), want_i):
            cells += 1
            got = getattr(n, f, "absent")
            if got == "absent" or not close(got, w, 1e-12):
                bad("field:" + f, [Z, A], w, got, code)
        # complex scattering length
        if not (r["symbol"] == "Eu" and A == 151):
            cells += 1
            got = getattr(n, "b_c_complex", None)
            want_im = -r["absorption"] / (2000.0 * ABS_WL) if r["absorption"] is not None else None
            okc = got is not None and want_im is not None and close(complex(got).imag, want_im, 1e-12, 1e-300)
            if okc and r["b_c"] is not None:
                okc = close(complex(got).real, r["b_c"], 1e-12)
            elif okc:
                okc = math.isnan(complex(got).real)
            if not okc:
                bad("field:b_c_complex", [Z, A], (r["b_c"], want_im), got, code)
    # single-isotope elements report their isotope's record
    for Z, rs in by_z.items():
        if any(r["A"] == 0 for r in rs):
            continue
        if len(rs) != 1:
            continue           # Pu, Cm: several isotope rows, no element row - not judged
        r = rs[0]
        cells += 1
        code = "print(vars(T[%d].neutron), vars(T[%d][%d].neutron))" % (Z, Z, r["A"])
        en = T[Z].neutron
        for f in FIELDS:
            want = r[f]
            if not close(getattr(en, f, "absent") if getattr(en, f, "absent") != "absent" else None, want, 1e-12):
                bad("single-isotope-element:" + f, [Z, r["A"]], want, getattr(en, f, "absent"), code)
                break
    # atoms not in the table report that no SLD is available
    multi_no_element = set(Z for Z, rs in by_z.items() if not any(r["A"] == 0 for r in rs))
    for el in T:
        Z = el.number
        atoms = [(Z, 0, el)] + [(Z, iso.isotope, iso) for iso in el]
        for (z, a, atom) in atoms:
            if (z, a) in in_table:
                continue
            if a == 0 and z in multi_no_element:
                continue          # element record borrowed from an isotope row
            cells += 1
            code = "print(%s.neutron.has_sld())" % name(z, a)
            try:
                has = atom.neutron.has_sld()
            except Exception as e:
                bad("absent-atom-raises", [z, a], False, "%s: %s" % (type(e).__name__, e), code)
                continue
            if has:
                bad("absent-atom-has-sld", [z, a], False, has, code)
    # energy-dependent tables: every node returns exactly the tabulated complex length
    lu_nodes = 0
    for (sym, A), nodes in sorted(etab.items(), key=lambda kv: (kv[0][0], kv[0][1] or 0)):
        el = getattr(T, sym)
        atom = el if A is None else el[A]
        nm = "T.%s" % sym if A is None else "T.%s[%d]" % (sym, A)
        for (E, re_, im_, ab_) in nodes:
            cells += 1
            code = ("from periodictable import nsf\nprint(%s.neutron.scattering_by_wavelength("
                    "nsf.neutron_wavelength(%r*1000)))" % (nm, E))
            try:
                wl = nsf.neutron_wavelength(E * 1000.0)
                b, sig = atom.neutron.scattering_by_wavelength(float(wl))
            except Exception as e:
                bad("energy-node-raises", [sym, A, E], (re_, im_), "%s: %s" % (type(e).__name__, e), code)
                continue
            want = complex(re_, im_)
            if not (close(complex(b).real, re_, 1e-11, 1e-12) and close(complex(b).imag, im_, 1e-11, 1e-12)):
                bad("energy-node", [sym, A, E], want, complex(b), code)
            elif not close(sig, 4 * math.pi / 100.0 * abs(want) ** 2, 1e-10, 1e-12):
                bad("energy-node-sigma", [sym, A, E], 4 * math.pi / 100.0 * abs(want) ** 2, sig, code)
    # natural Lu: abundance mix of Lu-175 (constant) and the Lu-176 table
    if ("Lu", 176) in etab:
        r175 = [r for r in rows if r["symbol"] == "Lu" and r["A"] == 175][0]
        b175 = complex(r175["b_c"], -r175["absorption"] / (2000.0 * ABS_WL))
        a175, a176 = T.Lu[175].abundance, T.Lu[176].abundance
        for (E, re_, im_, ab_) in etab[("Lu", 176)]:
            cells += 1
            lu_nodes += 1
            wl = float(nsf.neutron_wavelength(E * 1000.0))
            want = (b175 * a175 + complex(re_, im_) * a176) / 100.0
            code = "from periodictable import nsf\nprint(T.Lu.neutron.scattering_by_wavelength(nsf.neutron_wavelength(%r*1000)))" % E
            try:
                b, sig = T.Lu.neutron.scattering_by_wavelength(wl)
            except Exception as e:
                bad("lu-mix-raises", ["Lu", None, E], want, "%s: %s" % (type(e).__name__, e), code)
                continue
            if not (close(complex(b).real, want.real, 1e-10, 1e-12) and close(complex(b).imag, want.imag, 1e-10, 1e-12)):
                bad("lu-mix", ["Lu", None, E], want, complex(b), code)
    acc.info["max_energy_nodes"] = sum(len(v) for v in etab.values()) + lu_nodes
    return cells


def run_path(args):
    idx, path = args
    acc = Acc()
    pt = load_pt()
    tables = {}
    for ev in path:
        try:
            apply_event(pt, ev, tables, "c07-%s" % idx)
        except Exception as e:
            acc.violation("configuration-event-raises:" + ev, dict(path=list(path), event=ev),
                          "no exception", "%s: %s" % (type(e).__name__, e), standalone=_snippet(path, "public", ""))
            return acc
        acc.transitions += 1
    live = [("public", pt.elements)]
    if "T_groups" in path:
        live.append(("T", tables["T"]))
    for label, T in judged_tables(path, live):
        cells = sweep(pt, T, label, path, acc)
        acc.states += cells
        acc.nontrivial += cells
        acc.evaluations += cells
        acc.transitions += cells
        acc.outcome("table:" + label)
    acc.sample(dict(path=list(path), tables=[l for l, _ in live]))
    acc.count("configurations")
    return acc


def run(ctx):
    paths = QUICK_PATHS if ctx.quick else all_paths()
    ctx.pmap(run_path, rotate(list(enumerate(paths)), ctx.seed))
    ctx.acc.traces = ctx.acc.evaluations
    ctx.acc.info["max_rows"] = len(rt.neutron_rows())


def replay(ctx, case, signature=None):
    acc = run_path((7000, tuple(case["path"])))
    for sig, rec in acc.viol.items():
        if rec["case"].get("rule") == case.get("rule") and rec["case"].get("table") == case.get("table"):
            ctx.acc.viol[sig] = rec
