"""C07 - neutron data of every element and isotope are those of the embedded table.

Complete sweep: every row x every column of nsf.nsftable, every row of nsf.nsftableI, every node of
every energy-dependent table (plus the derived natural-Lu table), every atom NOT in the table; in
every configuration of the shared configuration graph (mc/configs.py)."""
import math, cmath
from ..common import Acc, load_pt, close, rotate, pmap, chunks, MachineryError
from ..ref import tables as rt
from ..configs import (QUICK_PATHS, all_paths, first_paths, full_tables, apply_event, judged_tables, atom_routes,
                       snippet as _snippet)

META = dict(
    level="model_checking", engine="E1",
    technique="complete row x column sweep of the embedded neutron tables in every state of a configuration "
              "graph, against an independent reader",
    rule=("every configuration path runs in a fresh forked interpreter; in the end state, for the public table and "
          "every private table on which the neutron group was initialised, each (row, column) cell of the neutron "
          "table, each imaginary-table cell, each energy-table node and each atom absent from the table is "
          "compared with the independent reader; cells are distinct by construction.  "
          "Configuration events include the optional arguments of the init functions (reload=True from the start, a "
          "second init, a reload; on private tables and on the public table) and the family first:<kind>: the FIRST "
          "access to the lazily loaded neutron data of a fresh process goes through an atom of the given kind "
          "(element, isotope, ion, isotope ion, D, T, D ion, the neutron, an isotope / an element absent from the "
          "table, a single-isotope element and its isotope, an element without a row of its own, an energy-dependent "
          "isotope / element / the derived natural Lu, a library computation); the record served by that very access "
          "is judged against the table row (all columns; all nodes of an energy table) and against what the same "
          "expression serves later, and the complete sweep follows.  "
          "Energy-table lookups are made with every argument class at every node: Python float, NumPy scalar, fresh 0-d "
          "array, list and vector of all nodes, ONE array object (1 element, 0-d, vector) and one list refilled by the "
          "caller between calls, one array shared by all records, and the same array again after the caller overwrote "
          "the returned result; the argument must come back unaltered and the results of earlier calls must keep "
          "their values.  The record of every nuclide is also read through every access route of the table (symbol(), "
          "name(), isotope(), iteration, D / T, exported names)"),
    bound=dict(quick="23 configuration paths + 17 first-access kinds x 2 continuations, each x all rows/columns/nodes "
                     "(exhaustive over the tables); one representative atom per first-access kind",
               thorough="all configuration paths up to length 4, each option event at every position of every path up to "
                        "length 3, every first-access kind in front of every base path, x all rows/columns/nodes; and "
                        "EVERY element, isotope and one ion of each as the first access of a fresh process (own record "
                        "judged, no sweep)"),
    assumptions=["the embedded table is the data the tree under test carries: its text, read by the independent reader, is the reference; where that text is unreadable (changed layout) the pinned copy mc/ref/pinned_tables.json of the unchanged tree is (mc/ref/tables.py reference())", "column meaning is taken from the comment block "
                 "above nsftable in nsf.py", "energy -> wavelength conversion of the library is used to address "
                 "the table nodes (its correctness is C04)",
                 "the statement names elements and isotopes: what an ion serves is judged only for history independence "
                 "(the record served at the first access equals the one served later), not against a row",
                 "mass.init/density.init/nsf.init(table, reload=True) and a repeated init are legal ways to initialise a "
                 "table; afterwards it serves the embedded tables",
                 "lists, tuples, 0-d arrays and NumPy scalars are accepted wherever a wavelength vector is (numpy "
                 "array_like); results are compared by value, their container type is not judged"],
    level_text="complete over the finite domain (364 rows x 11 columns, 16 imaginary rows, 14 energy tables with all "
               "nodes, all atoms not in the table) in each explored configuration; call histories on one record are "
               "bounded (the node walk in table order with one refilled argument object per argument class)",
    level_note="independent reader mc/ref/tables.py; Eu[151] b_c_complex, Pu and Cm element records are excluded "
               "(DESIGN C07 X)",
)

FIELDS = ("b_c", "bp", "bm", "coherent", "incoherent", "total", "absorption")
ABS_WL = 1.798


def check_row(n, atom, r, imag, bad, code, spin_code):
    """One record against one row of the neutron table (all columns, the imaginary companion, b_c_complex)."""
    Z, A = r["Z"], r["A"]
    cells = 0
    want = dict((f, r[f]) for f in FIELDS)
    # the two documented gap fills
    if r["symbol"] == "Xe" and A == 0 and want["total"] is None:
        want["total"] = r["coherent"] + r["incoherent"]
    if r["symbol"] == "Eu" and A == 151 and want["b_c"] is None:
        want["b_c"] = math.sqrt(r["coherent"] * 100.0 / (4 * math.pi))
    for f in FIELDS:
        cells += 1
        try:
            got = getattr(n, f)
        except Exception as e:
            bad("field-raises:" + f, [Z, A], want[f], "%s: %s" % (type(e).__name__, e), code)
            continue
        if not close(got, want[f], 1e-12):
            bad("field:" + f, [Z, A], want[f], got, code)
    cells += 1
    if bool(getattr(n, "is_energy_dependent", None)) != r["E"]:
        bad("field:is_energy_dependent", [Z, A], r["E"], getattr(n, "is_energy_dependent", None), code)
    if A != 0:
        cells += 2
        got = getattr(n, "abundance", "absent")
        if not close(got if got != "absent" else None, r["abundance"], 1e-12):
            bad("field:abundance", [Z, A], r["abundance"], got, code)
        spin = getattr(atom, "nuclear_spin", "absent")
        if spin != r["spin"]:
            bad("field:nuclear_spin", [Z, A], r["spin"], spin, spin_code)
    # imaginary companion table
    want_i = imag.get((Z, A), (None, None, None))
    for f, w in zip(("b_c_i", "bp_i", "bm_i"), want_i):
        cells += 1
        got = getattr(n, f, "absent")
        if got == "absent" or not close(got, w, 1e-12):
            bad("field:" + f, [Z, A], w, got, code)
    # complex scattering length
    if not (r["symbol"] == "Eu" and A == 151):
        cells += 1
        got = getattr(n, "b_c_complex", None)
        want_im = -r["absorption"] / (2000.0 * ABS_WL) if r["absorption"] is not None else None
        okc = got is not None and want_im is not None and close(complex(got).imag, want_im, 1e-12, 1e-300)
        if okc and r["b_c"] is not None:
            okc = close(complex(got).real, r["b_c"], 1e-12)
        elif okc:
            okc = math.isnan(complex(got).real)
        if not okc:
            bad("field:b_c_complex", [Z, A], (r["b_c"], want_im), got, code)
    return cells


def energy_entries(T, nsf, rows, etab):
    """[(symbol, A or None, expression, atom, tolerance, [(E, wavelength, tabulated complex length)])] for the 14
    energy tables and the derived table of natural Lu (abundance mix of the constant Lu-175 and the Lu-176 table)."""
    out = []
    for (sym, A), nodes in sorted(etab.items(), key=lambda kv: (kv[0][0], kv[0][1] or 0)):
        el = getattr(T, sym)
        atom = el if A is None else el[A]
        nm = "T.%s" % sym if A is None else "T.%s[%d]" % (sym, A)
        out.append((sym, A, nm, atom, 1e-11,
                    [(E, float(nsf.neutron_wavelength(E * 1000.0)), complex(re_, im_)) for (E, re_, im_, ab_) in nodes]))
    if ("Lu", 176) in etab:
        r175 = [r for r in rows if r["symbol"] == "Lu" and r["A"] == 175][0]
        b175 = complex(r175["b_c"], -r175["absorption"] / (2000.0 * ABS_WL))
        a175, a176 = T.Lu[175].abundance, T.Lu[176].abundance
        out.append(("Lu", None, "T.Lu", T.Lu, 1e-10,
                    [(E, float(nsf.neutron_wavelength(E * 1000.0)), (b175 * a175 + complex(re_, im_) * a176) / 100.0)
                     for (E, re_, im_, ab_) in etab[("Lu", 176)]]))
    return out


def _flat(x):
    """Values of a result (scalar, 0-d, vector, list) as a list of complex numbers."""
    import numpy as np
    return [complex(v) for v in np.asarray(x).reshape(-1)]


def _snap(arg):
    import numpy as np
    if isinstance(arg, np.ndarray):
        return (arg.shape, str(arg.dtype), arg.tobytes())
    if isinstance(arg, list):
        return list(arg)
    return repr(arg)


def energy_argument_classes(T, label, path, acc, entries):
    """Lookups at the tabulated energies with every argument class and the call histories a caller-owned argument
    object allows.  Returns the number of cells (record x argument class)."""
    import numpy as np
    cells = 0

    def bad(rule, key, expected, observed, code):
        acc.violation("%s:%s" % (rule, "public" if label == "public" else "private"),
                      dict(path=list(path), table=label, key=key, rule=rule),
                      expected=expected, observed=observed, standalone=_snippet(path, label, code))

    def prelude(nm, wls):
        return ("import numpy as np\nrec = %s.neutron\nw = %r\n" % (nm, wls))

    def make_call(rec, key, tol, earlier):
        def call(arg, variant, want, code):
            """One lookup: values, argument unaltered.  Returns the result object or None."""
            before = _snap(arg)
            try:
                b, sig = rec.scattering_by_wavelength(arg)
            except Exception as e:
                bad("energy-lookup-raises:" + variant, key, want[:3], "%s: %s" % (type(e).__name__, e), code)
                return None
            if _snap(arg) != before:
                bad("energy-lookup-alters-argument:" + variant, key, "argument unaltered", repr(arg)[:200], code)
                return None
            try:
                got = _flat(b)          # sigma_s is not part of the statement: not judged here
            except Exception as e:
                bad("energy-lookup:" + variant, key, want[:3], "unreadable result %r (%s)" % (b, e), code)
                return None
            ok = len(got) == len(want) and all(close(g.real, w.real, tol, 1e-12) and close(g.imag, w.imag, tol, 1e-12)
                                               for g, w in zip(got, want))
            if not ok:
                i = [j for j in range(min(len(got), len(want))) if not close(got[j], want[j], tol, 1e-12)]
                bad("energy-lookup:" + variant, key, dict(node=i[:1], want=[want[j] for j in i[:1]] or len(want)),
                    [got[j] for j in i[:1]] or len(got), code)
                return None
            earlier.append((b, got))
            return b
        return call

    shared = np.empty(1)             # one array object used with every record
    across = []                      # (call, wavelengths, tabulated values, prelude) of every record
    for sym, A, nm, atom, tol, nodes in entries:
        try:
            rec = atom.neutron
        except Exception:
            continue                 # reported by the node sweep
        wls = [w for _, w, _ in nodes]
        wants = [b for _, _, b in nodes]
        key = [sym, A]
        earlier = []                 # (result object, its values when it was returned)

        call = make_call(rec, key, tol, earlier)
        P = prelude(nm, wls)
        # fresh argument objects of every class
        variants = [
            ("numpy-scalar", lambda w: np.float64(w), True, "for x in w: print(rec.scattering_by_wavelength(np.float64(x)))"),
            ("0d-array", lambda w: np.array(w), True, "for x in w: print(rec.scattering_by_wavelength(np.array(x)))"),
            ("1-element-list", lambda w: [w], True, "for x in w: print(rec.scattering_by_wavelength([x]))"),
        ]
        for variant, make, per_node, tail in variants:
            cells += 1
            for w, want in zip(wls, wants):
                if call(make(w), variant, [want], P + tail) is None:
                    break
        for variant, arg in (("list-of-all-nodes", list(wls)), ("tuple-of-all-nodes", tuple(wls)),
                             ("vector-of-all-nodes", np.array(wls)),
                             ("2d-array-of-all-nodes", np.array(wls + wls).reshape(2, -1))):
            cells += 1
            call(arg, variant, wants + wants if variant.startswith("2d") else wants,
                 P + "print(rec.scattering_by_wavelength(%s))" % dict(list="w", tuple="tuple(w)", vector="np.array(w)")
                 .get(variant.split("-")[0], "np.array(w + w).reshape(2, -1)"))
        # ONE argument object, refilled by the caller between the calls
        cells += 1
        buf = np.empty(1)
        for w, want in zip(wls, wants):
            buf[0] = w
            if call(buf, "same-array-refilled", [want],
                    P + "buf = np.empty(1)\nfor x in w:\n    buf[0] = x; print(rec.scattering_by_wavelength(buf))") is None:
                break
        cells += 1
        buf0 = np.array(0.0)
        for w, want in zip(wls, wants):
            buf0[()] = w
            if call(buf0, "same-array-refilled", [want],
                    P + "buf = np.array(0.0)\nfor x in w:\n    buf[()] = x; print(rec.scattering_by_wavelength(buf))") is None:
                break
        cells += 1
        vec = np.array(wls)
        code = P + ("buf = np.array(w); print(rec.scattering_by_wavelength(buf))\n"
                    "buf[:] = buf[::-1].copy(); print(rec.scattering_by_wavelength(buf))\n"
                    "buf[:] = w[0]; print(rec.scattering_by_wavelength(buf))")
        if call(vec, "same-array-refilled", wants, code) is not None:
            vec[:] = vec[::-1].copy()
            if call(vec, "same-array-refilled", wants[::-1], code) is not None:
                vec[:] = wls[0]
                call(vec, "same-array-refilled", [wants[0]] * len(wls), code)
        cells += 1
        lst = [wls[0]]
        for w, want in zip(wls, wants):
            lst[0] = w
            if call(lst, "same-list-refilled", [want],
                    P + "buf = [0.0]\nfor x in w:\n    buf[0] = x; print(rec.scattering_by_wavelength(buf))") is None:
                break
        # the same array again after the caller overwrote the RESULT it was given
        cells += 1
        vec = np.array(wls)
        code = P + ("buf = np.array(w); b, s = rec.scattering_by_wavelength(buf); b[...] = 0; s[...] = 0\n"
                    "print(rec.scattering_by_wavelength(buf)); print(rec.scattering_by_wavelength(np.array(w)))")
        b = call(vec, "vector-of-all-nodes", wants, code)
        if b is not None:
            earlier.pop()
            try:
                b[...] = 0
            except Exception:
                pass
            if call(vec, "after-result-overwritten", wants, code) is not None:
                call(np.array(wls), "after-result-overwritten", wants, code)
        across.append((call, wls, wants, P, earlier, key))
    # one array object shared by all records: the first node of every record in turn, then the last node of every record
    for which in (0, -1):
        for call, wls, wants, P, earlier, key in across:
            cells += 1
            shared[0] = wls[which]
            call(shared, "same-array-across-records", [wants[which]],
                 "# one np.empty(1) buffer refilled and passed to the records of all energy tables in turn\n" + P +
                 "print(rec.scattering_by_wavelength(np.array([w[%d]])))" % which)
    # results handed out earlier keep their values
    for call, wls, wants, P, earlier, key in across:
        cells += 1
        for obj, vals in earlier:
            now = _flat(obj)
            if len(now) != len(vals) or any(not close(x, y, 1e-15, 0.0) for x, y in zip(now, vals)):
                bad("energy-lookup-rewrites-earlier-result", key, vals[:3], now[:3],
                    P + "r1 = rec.scattering_by_wavelength(np.array(w))[0]; keep = r1.copy()\n"
                    "buf = np.empty(1)\nfor x in w:\n    buf[0] = x; rec.scattering_by_wavelength(buf)\nprint((r1 == keep).all())")
                break
    return cells


def check_nodes(rec, nodes, tol, bad, key, nm, rule="energy-node"):
    """A record at every node of its table, Python float argument."""
    cells = 0
    for (E, wl, want) in nodes:
        cells += 1
        code = ("from periodictable import nsf\nprint(%s.neutron.scattering_by_wavelength("
                "nsf.neutron_wavelength(%r*1000)))" % (nm, E))
        try:
            b, sig = rec.scattering_by_wavelength(wl)
        except Exception as e:
            bad(rule + "-raises", key + [E], want, "%s: %s" % (type(e).__name__, e), code)
            continue
        if not (close(complex(b).real, want.real, tol, 1e-12) and close(complex(b).imag, want.imag, tol, 1e-12)):
            bad(rule, key + [E], want, complex(b), code)
        elif rule == "energy-node" and not close(sig, 4 * math.pi / 100.0 * abs(want) ** 2, 1e-10, 1e-12):
            bad(rule + "-sigma", key + [E], 4 * math.pi / 100.0 * abs(want) ** 2, sig, code)
    return cells


def sweep(pt, T, label, path, acc):
    from periodictable import nsf
    rows = rt.neutron_rows()
    imag = rt.neutron_imag_rows()
    etab = rt.energy_tables()
    cells = 0

    def bad(rule, key, expected, observed, code):
        acc.violation("%s:%s" % (rule, "public" if label == "public" else "private"),
                      dict(path=list(path), table=label, key=key, rule=rule),
                      expected=expected, observed=observed, standalone=_snippet(path, label, code))

    def atom_of(Z, A):
        return T[Z] if A == 0 else T[Z][A]

    def name(Z, A):
        return "T[%d]" % Z if A == 0 else "T[%d][%d]" % (Z, A)

    in_table = set()
    by_z = {}
    for r in rows:
        in_table.add((r["Z"], r["A"]))
        by_z.setdefault(r["Z"], []).append(r)
    for r in rows:
        Z, A = r["Z"], r["A"]
        code = "print(vars(%s.neutron))" % name(Z, A)
        try:
            atom = atom_of(Z, A)
            n = atom.neutron
        except Exception as e:
            bad("row-atom-raises", [Z, A], "neutron record", "%s: %s" % (type(e).__name__, e), code)
            continue
        if T[Z].symbol != r["symbol"]:
            bad("row-symbol", [Z, A], r["symbol"], T[Z].symbol, code)
        cells += check_row(n, atom, r, imag, bad, code, "print(%s.nuclear_spin)" % name(Z, A))
    # single-isotope elements report their isotope's record
    for Z, rs in by_z.items():
        if any(r["A"] == 0 for r in rs):
            continue
        if len(rs) != 1:
            continue           # Pu, Cm: several isotope rows, no element row - not judged
        r = rs[0]
        cells += 1
        code = "print(vars(T[%d].neutron), vars(T[%d][%d].neutron))" % (Z, Z, r["A"])
        en = T[Z].neutron
        for f in FIELDS:
            want = r[f]
            if not close(getattr(en, f, "absent") if getattr(en, f, "absent") != "absent" else None, want, 1e-12):
                bad("single-isotope-element:" + f, [Z, r["A"]], want, getattr(en, f, "absent"), code)
                break
    # atoms not in the table report that no SLD is available
    multi_no_element = set(Z for Z, rs in by_z.items() if not any(r["A"] == 0 for r in rs))
    for el in T:
        Z = el.number
        atoms = [(Z, 0, el)] + [(Z, iso.isotope, iso) for iso in el]
        for (z, a, atom) in atoms:
            if (z, a) in in_table:
                continue
            if a == 0 and z in multi_no_element:
                continue          # element record borrowed from an isotope row
            cells += 1
            code = "print(%s.neutron.has_sld())" % name(z, a)
            try:
                has = atom.neutron.has_sld()
            except Exception as e:
                bad("absent-atom-raises", [z, a], False, "%s: %s" % (type(e).__name__, e), code)
                continue
            if has:
                bad("absent-atom-has-sld", [z, a], False, has, code)
    # energy-dependent tables: every node returns exactly the tabulated complex length (natural Lu: the abundance
    # mix of Lu-175 (constant) and the Lu-176 table)
    entries = energy_entries(T, nsf, rows, etab)
    lu_nodes = 0
    for sym, A, nm, atom, tol, nodes in entries:
        derived = (sym, A) not in etab
        if derived:
            lu_nodes = len(nodes)
        try:
            rec = atom.neutron
        except Exception as e:
            bad("energy-node-raises", [sym, A, nodes[0][0]], nodes[0][2], "%s: %s" % (type(e).__name__, e), "print(%s.neutron)" % nm)
            continue
        cells += check_nodes(rec, nodes, tol, bad, [sym, A], nm, "lu-mix" if derived else "energy-node")
    # the same lookups with every argument class and with caller-owned argument objects reused between calls
    cells += energy_argument_classes(T, label, path, acc, entries)
    # the record of every nuclide through every access route of the table
    cells += sweep_routes(pt, T, label, path, acc)
    acc.info["max_energy_nodes"] = sum(len(v) for v in etab.values()) + lu_nodes
    return cells


REC_FIELDS = FIELDS + ("b_c_i", "bp_i", "bm_i", "b_c_complex", "abundance", "is_energy_dependent")


def record_values(n):
    """Everything the statement names, read from one record (an exception is an observation too)."""
    out = []
    for f in REC_FIELDS:
        try:
            out.append(getattr(n, f, "absent"))
        except Exception as e:
            out.append("%s: %s" % (type(e).__name__, e))
    try:
        out.append(bool(n.has_sld()))
    except Exception as e:
        out.append("%s: %s" % (type(e).__name__, e))
    t = getattr(n, "nsf_table", None)
    out.append(None if t is None else [complex(v) for v in t[1]])
    return out


def same_values(a, b):
    def eq(x, y):
        if isinstance(x, (str, bool, list)) or isinstance(y, (str, bool, list)) or x is None or y is None:
            if isinstance(x, list) and isinstance(y, list):
                return len(x) == len(y) and all(close(u, v, 1e-12, 1e-300) for u, v in zip(x, y))
            return type(x) == type(y) and x == y
        return close(x, y, 1e-12, 1e-300)
    return len(a) == len(b) and all(eq(x, y) for x, y in zip(a, b))


def sweep_routes(pt, T, label, path, acc):
    """The neutron record of every element and nuclide read through every access route of the table (C06 judges that
    the routes serve the same atom object; here only the record matters): it must carry the values of the record
    the row sweep read."""
    cells = 0
    failed = set()
    for route, key, expr, canon, thunk in atom_routes(pt, T, label):
        if route.endswith("*") and tuple(key) in failed:
            continue
        cells += 1
        canon_expr = "T[%d]" % key[0] if len(key) == 1 else "T[%d][%d]" % tuple(key)
        try:
            obj = thunk()
        except Exception:
            failed.add(tuple(key))
            continue                      # whether the route exists is C06's question
        if obj is canon:
            continue
        failed.add(tuple(key))
        try:
            got, want = record_values(obj.neutron), record_values(canon.neutron)
        except Exception as e:
            got, want = "%s: %s" % (type(e).__name__, e), "a record"
        if isinstance(got, str) or not same_values(got, want):
            acc.violation("route-serves-other-record:%s:%s" % (route.rstrip("*"), "public" if label == "public" else "private"),
                          dict(path=list(path), table=label, key=key, rule="route-serves-other-record", route=route),
                          expected=want, observed=got,
                          standalone=_snippet(path, label, "print(vars(%s.neutron)); print(vars(%s.neutron))" % (expr, canon_expr)))
    return cells


KIND_CLASS = {"isotope": "isotope", "D": "isotope", "T": "isotope", "absent-isotope": "isotope", "sole-isotope": "isotope",
              "energy-isotope": "isotope", "ion": "ion", "isotope-ion": "ion", "D-ion": "ion", "library": "library"}


def judge_first(pt, first, path, acc, atom=None, expr=None):
    """The record served by the first neutron access of the process: against what the same expression serves now
    (history independence, every kind of atom) and, for elements and isotopes, against the table (row, absence, nodes)."""
    from periodictable import nsf, core
    kind = first["kind"]
    klass = KIND_CLASS.get(kind, "element")
    expr = expr or first["expr"]
    code = "# (in a fresh interpreter)\nfirst = %s.neutron\nprint(vars(first)); print(vars(%s.neutron))" % ((expr,) * 2)
    cells = [0]

    def bad(rule, key, expected, observed, _code=None):
        # one cause, one signature: the rule of the deviating column goes into the case
        acc.violation("first-access-through-%s-serves-other-record:public" % klass,
                      dict(path=list(path), table="public", key=key, rule="first-access", kind=kind, column=rule, atom=expr),
                      expected=expected, observed=observed, standalone=_snippet((), "public", code.replace("P.", "pt.elements.")))
    if "error" in first:
        acc.violation("first-access-through-%s-raises:public" % klass,
                      dict(path=list(path), table="public", key=[kind], rule="first-access", kind=kind, atom=expr),
                      expected="a neutron record", observed=first["error"],
                      standalone=_snippet((), "public", code.replace("P.", "pt.elements.")))
        return 1
    if klass == "library":
        acc.outcome("first:library")
        return 0
    rec = first["value"]
    if atom is None:
        atom = eval(expr, {"P": pt.elements})
    base = atom.element if isinstance(atom, core.Ion) else atom
    Z, A = base.number, base.__dict__.get("isotope", 0)
    key = [Z, A] + ([atom.charge] if isinstance(atom, core.Ion) else [])
    # (1) the same expression now
    cells[0] += 1
    try:
        later = atom.neutron
        got, want = record_values(rec), record_values(later)
    except Exception as e:
        got, want = "%s: %s" % (type(e).__name__, e), "a record"
    if isinstance(got, str) or not same_values(got, want):
        bad("differs-from-later-access", key, want, got)
        return cells[0]
    if klass == "ion":
        return cells[0]
    # (2) the table
    rows = rt.neutron_rows()
    imag = rt.neutron_imag_rows()
    etab = rt.energy_tables()
    by_z = {}
    for r in rows:
        by_z.setdefault(r["Z"], []).append(r)
    mine = [r for r in by_z.get(Z, []) if r["A"] == A]
    if mine:
        cells[0] += check_row(rec, atom, mine[0], imag, bad, code, code)
    elif A == 0 and len(by_z.get(Z, [])) == 1:
        r = by_z[Z][0]                    # single-isotope element: its isotope's record
        cells[0] += 1
        for f in FIELDS:
            g = getattr(rec, f, "absent")
            if not close(g if g != "absent" else None, r[f], 1e-12):
                bad("single-isotope-element:" + f, key, r[f], g)
                break
    elif A == 0 and by_z.get(Z):
        pass                              # Pu, Cm: several isotope rows, no element row - not judged
    else:
        cells[0] += 1
        try:
            has = rec.has_sld()
        except Exception as e:
            has = "%s: %s" % (type(e).__name__, e)
        if has is not False:
            bad("absent-atom-has-sld", key, False, has)
    sym = pt.elements[Z].symbol
    for esym, eA, nm, eatom, tol, nodes in energy_entries(pt.elements, nsf, rows, etab):
        if esym == sym and (eA or 0) == A:
            cells[0] += check_nodes(rec, nodes, tol, bad, key, expr, "energy-node-of-first-record")
    return cells[0]


def run_path(args):
    idx, path = args
    acc = Acc()
    pt = load_pt()
    tables = {}
    obs = {}
    for ev in path:
        try:
            apply_event(pt, ev, tables, "c07-%s" % idx, obs)
        except Exception as e:
            acc.violation("configuration-event-raises:" + ev, dict(path=list(path), event=ev),
                          "no exception", "%s: %s" % (type(e).__name__, e), standalone=_snippet(path, "public", ""))
            return acc
        acc.transitions += 1
        if ev.startswith("first:"):
            if path.index(ev) != 0:
                raise MachineryError("first-access event not at the start of the path: %r" % (path,))
            before = len(acc.viol)
            cells = judge_first(pt, obs["first"], path, acc)
            acc.states += cells; acc.nontrivial += cells; acc.evaluations += cells
            acc.outcome("first:" + obs["first"]["kind"])
            if len(acc.viol) > before:
                return acc              # do not explore beyond a violating state
    live = [("public", pt.elements)] + full_tables(path, tables)
    for label, T in judged_tables(path, live):
        cells = sweep(pt, T, label, path, acc)
        acc.states += cells
        acc.nontrivial += cells
        acc.evaluations += cells
        acc.transitions += cells
        acc.outcome("table:" + label)
    acc.sample(dict(path=list(path), tables=[l for l, _ in live]))
    acc.count("configurations")
    return acc


def first_atom_child(item):
    """Forked from a process in which the library is imported and no neutron datum was read yet: the first access goes
    through the given atom; its own record is judged."""
    kind, expr = item
    acc = Acc()
    pt = load_pt()
    atom = eval(expr, {"P": pt.elements})
    first = dict(kind=kind, expr=expr)
    try:
        first["value"] = atom.neutron
    except Exception as e:
        first["error"] = "%s: %s" % (type(e).__name__, e)
    cells = judge_first(pt, first, ("first-atom:" + expr,), acc, atom=atom, expr=expr)
    acc.states += cells; acc.nontrivial += cells; acc.evaluations += cells; acc.transitions += 1
    acc.count("first_access_atoms")
    return acc


def first_atom_shard(items):
    pt = load_pt()
    if "neutron" in pt.elements.properties:
        raise MachineryError("neutron data already loaded before the first-access shard forks")
    rt.neutron_rows(); rt.neutron_imag_rows(); rt.energy_tables()
    if "neutron" in pt.elements.properties:
        raise MachineryError("the reference readers loaded the neutron data of the public table")
    acc = Acc()
    for r in pmap(first_atom_child, items, jobs=1, label="first-atom", always_fork=True):
        acc.merge(r)
    return acc


def first_atom_items():
    """Every element, every isotope, and one ion of each element and of one isotope of it, as (kind, expression)."""
    pt = load_pt()
    out = []
    for el in pt.elements:
        Z = el.number
        out.append(("element", "P[%d]" % Z))
        for A in el.isotopes:
            out.append(("isotope", "P[%d][%d]" % (Z, A)))
        if el.ions:
            out.append(("ion", "P[%d].ion[%d]" % (Z, el.ions[0])))
            if el.isotopes:
                out.append(("isotope-ion", "P[%d][%d].ion[%d]" % (Z, el.isotopes[len(el.isotopes) // 2], el.ions[-1])))
    return out


def _items_in_fork(_):
    return first_atom_items()


def run(ctx):
    paths = (QUICK_PATHS if ctx.quick else all_paths()) + first_paths(ctx.tier)
    ctx.pmap(run_path, rotate(list(enumerate(paths)), ctx.seed))
    if not ctx.quick:
        items = pmap(_items_in_fork, [None], jobs=1, always_fork=True)[0]     # the parent never imports the library
        ctx.acc.info["first_access_atom_space"] = len(items)
        ctx.pmap(first_atom_shard, chunks(items, max(16, ctx.jobs * 2)))
    ctx.acc.traces = ctx.acc.evaluations
    ctx.acc.info["max_rows"] = len(rt.neutron_rows())
    ctx.acc.info["configuration_paths"] = len(paths)


def replay(ctx, case, signature=None):
    path = tuple(case["path"])
    if path and path[0].startswith("first-atom:"):
        acc = pmap(first_atom_shard, [[(case["kind"], case["atom"])]], jobs=1, always_fork=True)[0]
    else:
        acc = pmap(run_path, [(7000, path)], jobs=1, always_fork=True)[0]     # a fresh interpreter, as in the run
    for sig, rec in acc.viol.items():
        if rec["case"].get("rule") == case.get("rule") and rec["case"].get("table") == case.get("table"):
            ctx.acc.viol[sig] = rec
