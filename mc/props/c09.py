"""C09 - lazy loading is invisible: served values do not depend on access order (E2).

Alphabet: first-touch events on a fresh interpreter - reads and hasattr probes of every lazy
property through element / isotope / ion / isotope ion / second element / element without data,
imports of the submodules, direct init(elements) calls, calculators and table printers.
Oracle: (a) every event's observation equals its observation in the canonical history,
(b) every state's full digest (all served values of all atoms, read in two orders) equals the
canonical digest."""
import os, sys, io, math, hashlib, contextlib
import numpy, pyparsing      # the zygote has the third-party packages loaded (not part of the library state)
from .. import histmc
from ..histmc import Event
from ..common import Acc, MachineryError, load_pt, jdump

META = dict(
    level="model_checking", engine="E2",
    technique="explicit-state exploration of interpreter histories by fork/replay (zygote + os.fork), "
              "heap-shape canonical key validated on second representatives, traces replayed in fresh interpreters",
    rule=("state = interpreter after a history of first-touch events (rebuilt by replay in a forked child); "
          "key = digest of the heap shape (kind of every class attribute of Element/Isotope/Ion, table.properties, "
          "imported submodules, cache emptiness, attribute-name sets of every atom); every event of the probe "
          "alphabet is executed in every explored state in its own fork; non-trivial = every state other than "
          "the initial one; distinct = distinct key"),
    bound=dict(quick="all histories of <= 3 events over the expansion alphabet (every state reached by <= 2 events "
                     "is expanded with every event of the full probe alphabet and digested); private-init-first model (first init of a "
                     "group on a private table by init(P) or init(P, reload=True)) to depth 3",
               thorough="all histories of <= 4 events over the expansion alphabet, plus closure of the loader state space "
                        "(one read, the direct init and the calculators of every group) with all probe events observed in "
                        "every state; closure of the memo sub-alphabet; second representatives validated; sampled "
                        "histories replayed in fresh interpreters"),
    assumptions=["merging by heap-shape key is an abstraction; it is cross-checked on a second representative of "
                 "every key that has one (observations, successor keys, digest) - not a bisimulation proof",
                 "IonSet.ionset and the per-atom _xray memo are excluded from the key (pure memo caches)",
                 "numeric values are compared after normalisation to 12 significant digits"],
    level_text="closure (thorough) / all histories up to depth 2 + per-group closures (quick) of the lazy-loader "
               "state space of the real interpreter; every probe event observed in every state against the canonical history",
    level_note="canonical observations come from a separately forked pristine interpreter that loads the groups in "
               "registration order; violations and sampled histories are re-executed in brand-new interpreters",
)

GROUPS = [
    ("radius", ["covalent_radius", "covalent_radius_uncertainty"]),
    ("crystal", ["crystal_structure"]),
    ("neutron", ["neutron"]),
    ("activation", ["neutron_activation"]),
    ("xray", ["xray"]),
    ("lines", ["K_alpha", "K_alpha_units"]),
    ("mff", ["magnetic_ff"]),
]
OBJECTS = [("el", "pt.Fe"), ("iso", "pt.Fe[56]"), ("ion", "pt.Fe.ion[2]"), ("isoion", "pt.Fe[56].ion[2]"),
           ("el2", "pt.Cu"), ("nodata", "pt.Og")]
MODULES = ["nsf", "xsf", "covalent_radius", "crystal_structure", "magnetic_ff", "activation", "fasta",
           "cromermann", "formulas"]
INITS = [("radius", "covalent_radius", "init"), ("crystal", "crystal_structure", "init"), ("neutron", "nsf", "init"),
         ("activation", "activation", "init"), ("xray", "xsf", "init"), ("lines", "xsf", "init_spectral_lines"),
         ("mff", "magnetic_ff", "init")]
CALCS = [
    ("neutron", "calc:neutron_sld", "pt.neutron_sld('H2O', density=1, wavelength=4.75)"),
    ("neutron", "calc:neutron_scattering_D", "pt.neutron_scattering('D2O', density=1.1)"),
    ("xray", "calc:xray_sld", "pt.xray_sld('SiO2', density=2.2, energy=8.0)"),
    ("radius", "calc:volume", "pt.formula('Fe2O3').volume()"),
    ("xray", "calc:f0", "pt.Fe.ion[2].xray.f0(1.0)"),
    ("mff", "calc:j0_Q", "pt.Fe.magnetic_ff[2].j0_Q(1.0)"),
    ("activation", "calc:activation",
     "from periodictable import activation as _a\n_s = _a.Sample('Co30Fe70', 10)\n"
     "_s.calculate_activation(_a.ActivationEnvironment(fluence=1e8, Cd_ratio=70, fast_ratio=50, location='x'), "
     "exposure=10, rest_times=[0, 1])\nsorted((str(k.isotope), k.daughter, k.reaction, v) for k, v in _s.activity.items())"),
    ("lines", "print:emission_table", "from periodictable import xsf as _x\n_printed(_x.emission_table)"),
    ("neutron", "print:energy_dependent_table", "from periodictable import nsf as _n\n_printed(_n.energy_dependent_table)"),
    ("xray", "calc:xray_sld_el", "pt.Cu.xray.sld(energy=8.0)"),
    ("neutron", "calc:iso_sld", "pt.Ni[58].neutron.sld()"),
    # energy-dependent scattering lengths: one atom whose table row carries the 'E' flag (Gd) and two that have an
    # energy table without the flag (Er, Lu) - at a wavelength where the table matters
    ("neutron", "calc:neutron_Gd", "pt.neutron_sld('Gd2O3', density=7.4, wavelength=0.3)"),
    ("neutron", "calc:neutron_Er", "pt.neutron_sld('Er', density=9.07, wavelength=0.3)"),
    ("neutron", "calc:neutron_Lu", "pt.Lu.neutron.sld(wavelength=0.3)"),
]

CANONICAL = ["get:el:covalent_radius", "get:el:crystal_structure", "get:el:neutron", "get:iso:neutron_activation",
             "get:el:xray", "get:el:K_alpha", "get:el:magnetic_ff"]


def norm(v, depth=0):
    """History-independent printable form of a value (no ids, floats to 12 digits)."""
    import numpy as np
    if v is None or isinstance(v, (bool, int, str)):
        return repr(v)
    if isinstance(v, float):
        return "nan" if math.isnan(v) else "%.12g" % v
    if isinstance(v, complex):
        return "(%s,%s)" % (norm(v.real), norm(v.imag))
    if isinstance(v, np.generic):
        return norm(v.item())
    if isinstance(v, np.ndarray):
        if v.size > 12:
            flat = v.ravel()
            return "array%s[%s...#%s]" % (v.shape, ",".join(norm(x) for x in flat[:6]),
                                           hashlib.sha1(",".join(norm(x) for x in flat).encode()).hexdigest()[:10])
        return "array[%s]" % ",".join(norm(x) for x in v.ravel())
    if isinstance(v, (tuple, list)):
        return ("(%s)" if isinstance(v, tuple) else "[%s]") % ",".join(norm(x, depth + 1) for x in v)
    if isinstance(v, dict):
        return "{%s}" % ",".join("%s:%s" % (norm(k, depth + 1), norm(x, depth + 1))
                                 for k, x in sorted(v.items(), key=lambda kv: repr(kv[0])))
    from periodictable import core
    if isinstance(v, (core.Element, core.Isotope, core.Ion)):
        el = v
        while not isinstance(el, core.Element):
            el = el.element
        return "atom:%s@%s" % (v, el.table)
    if isinstance(v, BaseException):
        return "EXC:%s:%s" % (type(v).__name__, v)
    if hasattr(v, "__dict__") and depth < 4 and not callable(v):
        return "%s%s" % (type(v).__name__, norm(dict((k, x) for k, x in vars(v).items()), depth + 1))
    return "<%s>" % type(v).__name__


def _printed(fn, *a, **kw):
    buf = io.StringIO()
    with contextlib.redirect_stdout(buf):
        fn(*a, **kw)
    text = buf.getvalue()
    return "printed:%d lines:%s" % (text.count("\n"), hashlib.sha1(text.encode()).hexdigest()[:12])


_FS = {}
def _fs(x):
    """Stable small token for a frozenset of attribute names / tuple of (A, frozenset)."""
    if isinstance(x, frozenset):
        t = _FS.get(x)
        if t is None:
            t = _FS[x] = ",".join(sorted(x))
        return t
    return [(A, _fs(f)) for A, f in x]


class LazyModel(histmc.HistModel):
    def __init__(self):
        self._events = None

    def namespace(self):
        pt = load_pt()
        return dict(pt=pt, _printed=_printed)

    def events(self):
        if self._events is None:
            evs = []
            for g, names in GROUPS:
                for oname, oexpr in OBJECTS:
                    for p in names:
                        # expansion alphabet: get via element/isotope, hasattr via ion, all with the first name
                        exp_get = (oname in ("el", "iso") and p == names[0])
                        exp_has = (oname == "ion" and p == names[0]) or (oname == "nodata" and p == names[-1])
                        evs.append(Event("get:%s:%s" % (oname, p), "getattr(%s, %r)" % (oexpr, p), exp_get, g))
                        evs.append(Event("has:%s:%s" % (oname, p), "hasattr(%s, %r)" % (oexpr, p), exp_has, g))
            for m in MODULES:
                evs.append(Event("import:%s" % m, "import periodictable.%s\n'imported'" % m, True, "import"))
            for g, m, fn in INITS:
                evs.append(Event("init:%s" % g, "from periodictable import %s as _m\n_m.%s(pt.elements)" % (m, fn), True, g))
            for g, name, code in CALCS:
                evs.append(Event(name, code, True, g))
            self._events = evs
        return self._events

    def observe(self, ev, ns):
        try:
            return "ok:" + norm(histmc.run_code(ev.code, ns))
        except Exception as e:
            return "EXC:%s:%s" % (type(e).__name__, str(e)[:200])

    # ---- canonical key: shape of the library-visible heap
    def key(self, ns):
        from periodictable import core
        h = hashlib.sha1()
        def put(*a):
            h.update(("|".join(str(x) for x in a) + "\n").encode())
        for cls in (core.Element, core.Isotope, core.Ion):
            for name in sorted(cls.__dict__):
                if name.startswith("__"):
                    continue
                v = cls.__dict__[name]
                if isinstance(v, property):
                    fn = getattr(v.fget, "__name__", "?")
                    kind = "pending" if fn == "getfn" else "prop:" + fn
                elif callable(v):
                    kind = "fn"
                else:
                    kind = "val:" + norm(v)[:120]
                put(cls.__name__, name, kind)
        def _shape_of(v):
            if isinstance(v, (dict, list, set, tuple, frozenset)):
                return "%s/%d" % (type(v).__name__, len(v))
            if isinstance(v, (core.Element, core.Isotope, core.Ion)):
                return "atom"
            return type(v).__name__
        # state hung on the table class or on a table object (memo dictionaries, registries): names and sizes
        for name in sorted(core.PeriodicTable.__dict__):
            v = core.PeriodicTable.__dict__[name]
            if not name.startswith("__") and not callable(v) and not isinstance(v, (property, staticmethod, classmethod)):
                put("PeriodicTable", name, _shape_of(v))
        for tname in sorted(core.PRIVATE_TABLES):
            T = core.PRIVATE_TABLES[tname]
            put("table", tname, sorted(T.properties))     # membership is what the loaders test, never the order
            put("table-dict", tname, sorted((k, _shape_of(v)) for k, v in T.__dict__.items() if k != "properties"))
            shapes = []
            for el in T:
                shapes.append(frozenset(k for k in el.__dict__ if k != "_xray"))
                isos = el._isotopes
                shapes.append(tuple(sorted((A, frozenset(isos[A].__dict__)) for A in isos)))
            shape = hashlib.sha1(repr([_fs(x) for x in shapes]).encode())
            put("shape", tname, shape.hexdigest())
        put("modules", sorted(m for m in sys.modules if m.startswith("periodictable.")))
        # module-level state of the library (registries, memo dictionaries, "current table" holders): name, kind and
        # size of every global that is not a function / class / module, one level into instances of library classes
        tnames = dict((id(T), n) for n, T in core.PRIVATE_TABLES.items())
        def gshape(v, depth=0):
            if isinstance(v, core.PeriodicTable):
                return "table:%s" % tnames.get(id(v), "?")
            if isinstance(v, (core.Element, core.Isotope, core.Ion)):
                return "atom"
            if isinstance(v, (bool, int, float, complex, str, bytes, type(None))):
                return "%s=%s" % (type(v).__name__, norm(v)[:40]) if depth == 0 or not isinstance(v, (str, bytes)) \
                    else type(v).__name__
            if isinstance(v, (dict, list, set, tuple, frozenset)):
                return "%s/%d" % (type(v).__name__, len(v))
            if isinstance(v, numpy.ndarray):
                return "ndarray/%s" % (v.shape,)
            mod = getattr(type(v), "__module__", "") or ""
            if depth == 0 and mod.startswith("periodictable") and hasattr(v, "__dict__"):
                return "%s{%s}" % (type(v).__name__, ",".join("%s:%s" % (k, gshape(x, 1)) for k, x in sorted(vars(v).items())))
            return type(v).__name__
        import types
        for mname in sorted(m for m in sys.modules if m == "periodictable" or m.startswith("periodictable.")):
            mod = sys.modules[mname]
            if mod is None:
                continue
            for gname in sorted(vars(mod)):
                v = vars(mod)[gname]
                if gname.startswith("__") or isinstance(v, (types.ModuleType, types.FunctionType, types.BuiltinFunctionType, type)) \
                        or callable(v) and not hasattr(v, "__dict__"):
                    continue
                if isinstance(v, (core.Element, core.Isotope, core.Ion)):
                    continue        # the exported atoms of the public table
                put("global", mname, gname, gshape(v))
        cm = sys.modules.get("periodictable.cromermann")
        put("cm-cache", bool(getattr(cm, "_cmformulas", None)) if cm else None)
        fm = sys.modules.get("periodictable.formulas")
        cache = getattr(fm, "_PARSER_CACHE", {}) if fm else None
        names = dict((id(T), n) for n, T in core.PRIVATE_TABLES.items())
        put("parser-cache", sorted(names.get(id(T), "?") for T in cache) if cache is not None else None)
        return h.hexdigest()[:20]

    # ---- full digest of everything the public table serves
    def digest(self, ns, order):
        pt = ns["pt"]
        return tuple(digest_table(pt, pt.elements, order))


PRIV_INIT = ("from periodictable import core as _c, mass as _ma, density as _de\n"
             "_P = _c.PRIVATE_TABLES.get('P') or _c.PeriodicTable('P')\n"
             "if 'mass' not in _P.properties: _ma.init(_P); _de.init(_P)\n"
             "from periodictable import %s as _m\n_m.%s(_P)\n'done'")


class PrivFirstModel(LazyModel):
    """Sub-alphabet for one more means of first touch: the explicit init of a group on a PRIVATE table before the
    public table was touched (the init functions assign class attributes that also carry the public table's lazy
    loaders).  Histories start with one or more private inits; afterwards the public table is read through an
    element, initialised explicitly, or used by a calculator.  Oracle as for the main model: canonical
    observations and the canonical digest of the public table."""
    def events(self):
        if self._events is None:
            base = dict((e.name, e) for e in LazyModel.events(LazyModel()))
            evs = []
            for g, m, fn in INITS:
                evs.append(Event("privinit:%s" % g, PRIV_INIT % (m, fn), True, g))
            for g, m, fn in INITS:
                if fn == "init":        # init(table, reload=True) is legal as the FIRST init of a table as well
                    evs.append(Event("privinit-reload:%s" % g, PRIV_INIT.replace("(_P)\n'done'", "(_P, reload=True)\n'done'") % (m, fn), True, g))
            for g, names in GROUPS:
                n = "get:iso:neutron_activation" if g == "activation" else "get:el:%s" % names[0]
                evs.append(Event(n, base[n].code, True, g))
                evs.append(Event("init:%s" % g, base["init:%s" % g].code, True, g))
            for n in ("calc:neutron_sld", "calc:xray_sld", "calc:volume", "calc:j0_Q", "calc:activation",
                      "print:emission_table", "calc:f0"):
                evs.append(Event(n, base[n].code, True, base[n].group))
            self._events = evs
        return self._events

    def enabled(self, hist, ev):
        # (both conditions are functions of the state: the key lists the groups initialised on table P)
        if ev.name.startswith("privinit"):
            g = ev.name.split(":", 1)[1]        # with or without reload=True: once per group (the first init of P's group)
            return "privinit:" + g not in hist and "privinit-reload:" + g not in hist
        return any(h.startswith("privinit") for h in hist)      # histories without a private init: main model


ENV_CODE = "_a.ActivationEnvironment(fluence=1e8, Cd_ratio=70, fast_ratio=50, location='x')"
AUX_CALCS = [
    # public functions that need lazily loaded data but are not the plain calculators of CALCS: helper functions,
    # calculators with optional arguments at non-default values, calculators of other modules built on the tables
    ("activation", "aux:IAEA_abundance", "from periodictable import activation as _a\n"
     "[_a.IAEA1987_isotopic_abundance(i) for i in (pt.Co[59], pt.Fe[58], pt.H[2], pt.H[1], pt.Au[197])]"),
    ("activation", "aux:activation_IAEA",
     "from periodictable import activation as _a\n_s = _a.Sample('Co30Fe70', 10)\n"
     "_s.calculate_activation(%s, exposure=10, rest_times=[0, 1], abundance=_a.IAEA1987_isotopic_abundance)\n"
     "(sorted((str(k.isotope), k.daughter, k.reaction, v) for k, v in _s.activity.items()), _s.decay_time(0.001))" % ENV_CODE),
    ("activation", "aux:activity_fn", "from periodictable import activation as _a\n"
     "sorted((k.daughter, k.reaction, v) for k, v in _a.activity(pt.Co[59], 1.0, %s, 10, [0, 1]).items())" % ENV_CODE),
    ("neutron", "aux:composite_sld", "from periodictable import nsf as _n\n"
     "_n.neutron_composite_sld([pt.formula('H2O'), pt.formula('Gd2O3')], wavelength=0.5)(numpy.array([1., 2.]), density=2.0)"),
    ("neutron", "aux:D2O_match", "from periodictable import nsf as _n\n_n.D2O_match('C3H4H[1]NO@1.29n')"),
    ("neutron", "aux:scattering_energy", "pt.neutron_scattering('Sm2O3', density=8.3, energy=25.3)"),
    ("neutron", "aux:fasta", "from periodictable import fasta as _f\n"
     "(lambda m: (m.sld, m.Dsld, m.mass, m.D2Omatch))(_f.Sequence('x', 'ACDE', type='aa'))"),
    ("xray", "aux:index_of_refraction", "from periodictable import xsf as _x\n_x.index_of_refraction('SiO2', density=2.2, energy=8.0)"),
    ("xray", "aux:mirror_reflectivity", "from periodictable import xsf as _x\n"
     "_x.mirror_reflectivity('Ni', density=8.9, energy=8.0, angle=numpy.array([0.1, 0.5]))"),
    ("xray", "aux:xray_sld_wavelength", "pt.xray_sld('Fe{2+}2O3', density=5.2, wavelength=1.54)"),
    ("xray", "aux:fxrayatq", "from periodictable import cromermann as _c\n_c.fxrayatq('Fe', numpy.array([0., 1.]), charge=2)"),
    ("lines", "aux:xray_wavelength", "from periodictable import xsf as _x\n(_x.xray_wavelength(8.0), pt.Cu.K_alpha_units)"),
    ("mff", "aux:magnetic_M_Q", "pt.Fe.magnetic_ff[3].M_Q(numpy.array([0., 1.]))"),
    ("radius", "aux:volume_packing", "pt.formula('NaCl').volume(packing_factor='fcc')"),
    ("crystal", "aux:list_crystal", "_printed(pt.elements.list, 'symbol', 'crystal_structure')"),
]


class AuxFirstModel(LazyModel):
    """Sub-alphabet for auxiliary public functions as the FIRST thing that needs a lazily loaded table (helper
    functions, optional arguments at non-default values, calculators of other modules).  Each is observed in the
    pristine interpreter and after every other event of the sub-alphabet; oracle as for the main model."""
    def namespace(self):
        ns = LazyModel.namespace(self)
        ns["numpy"] = numpy
        return ns

    def events(self):
        if self._events is None:
            base = dict((e.name, e) for e in LazyModel.events(LazyModel()))
            evs = [Event(name, code, True, g) for g, name, code in AUX_CALCS]
            for g, names in GROUPS:
                n = "get:iso:neutron_activation" if g == "activation" else "get:el:%s" % names[0]
                evs.append(Event(n, base[n].code, True, g))
            self._events = evs
        return self._events


MEMO_ATOMS = [("n", "pt.elements[0]"), ("N", "pt.N"), ("H", "pt.H"), ("D", "pt.D"), ("Dp", "pt.D.ion[1]"),
              ("Hm", "pt.H.ion[-1]"), ("Fe", "pt.Fe"), ("Fe2", "pt.Fe.ion[2]"), ("Fe56_2", "pt.Fe[56].ion[2]"),
              ("No", "pt.No"), ("na", "pt.Na"), ("Ni", "pt.Ni")]


MEMO_EXPAND = ("n", "N", "H", "Dp", "Fe2", "na")


class MemoModel(LazyModel):
    """Sub-alphabet for the per-atom memo caches that the main key deliberately ignores (`_xray`
    objects, loaded scattering-factor tables, the Cromer-Mann formula cache): reads of x-ray data
    through atoms whose symbols collide in some spelling (n / N / Na / Ni / No, H / D and their ions).
    The key is refined with the memo state of exactly these atoms, so that the closure of this small
    alphabet is explored without merging."""
    def events(self):
        if self._events is None:
            evs = []
            for name, expr in MEMO_ATOMS:
                evs.append(Event("memo:sf:%s" % name, "%s.xray.scattering_factors(energy=8.0)" % expr,
                                 name in MEMO_EXPAND, "xray"))
            for name, expr in MEMO_ATOMS:
                evs.append(Event("memo:f0:%s" % name, "%s.xray.f0(1.0)" % expr, False, "xray"))
                evs.append(Event("memo:sld:%s" % name, "pt.xray_sld({%s: 1}, density=1.0, energy=8.0)" % expr, False, "xray"))
            self._events = evs
        return self._events

    def key(self, ns):
        pt = ns["pt"]
        base = LazyModel.key(self, ns)
        bits = []
        for name, expr in MEMO_ATOMS:
            a = eval(expr, dict(pt=pt))
            x = a.__dict__.get("_xray")
            bits.append((name, x is not None, x is not None and x.__dict__.get("_table") is not None))
        return hashlib.sha1((base + repr(bits)).encode()).hexdigest()[:20]


XRAY_ELEMENTS = ("H", "C", "N", "n", "O", "Si", "Fe", "Cu", "Gd", "Au", "U")
COMPOUNDS = [("Er2O3", 8.6), ("H2O", 1.0), ("D2O", 1.11), ("SiO2", 2.2), ("Gd2O3", 7.4), ("B4C", 2.52), ("Lu2O3", 9.4)]


def digest_table(pt, T, order, groups=None, calcs=True):
    """[(group, hash)] over every served value of every atom of table T, read in one of two orders."""
    def rd(fn):
        try:
            return norm(fn())
        except Exception as e:
            return "EXC:%s:%s" % (type(e).__name__, str(e)[:100])
    els = list(T)
    if order:
        els = els[::-1]
    def g_radius():
        return [rd(lambda: (el.covalent_radius, el.covalent_radius_uncertainty, el.covalent_radius_units)) for el in els]
    def g_crystal():
        return [rd(lambda: el.crystal_structure) for el in els]
    def g_neutron():
        out = []
        for el in els:
            out.append(rd(lambda: el.neutron))
            for iso in (list(el)[::-1] if order else list(el)):
                out.append(rd(lambda: (iso.neutron, getattr(iso, "nuclear_spin", None))))
        if T is pt.elements and calcs:
            for c, d in (COMPOUNDS[::-1] if order else COMPOUNDS):
                out.append(rd(lambda: pt.neutron_scattering(c, density=d, wavelength=4.0)))
                out.append(rd(lambda: pt.neutron_sld(c, density=d, wavelength=0.3)))
        return out
    def g_activation():
        out = []
        for el in els:
            for iso in el:
                out.append(rd(lambda: [sorted(vars(a).items()) for a in iso.neutron_activation]
                              if hasattr(iso, "neutron_activation") else None))
        return out
    def g_xray():
        out = []
        for s in XRAY_ELEMENTS:
            el = getattr(T, s)
            out.append(rd(lambda: el.xray.scattering_factors(energy=8.0)))
            out.append(rd(lambda: el.xray.f0(1.5)))
            out.append(rd(lambda: el.xray.sld(energy=8.0)))
            out.append(rd(lambda: sorted(k for k in vars(el.xray) if k not in ("element", "_table"))))
        out.append(rd(lambda: T.Fe.ion[2].xray.f0(1.0)))
        out.append(rd(lambda: T.Fe[56].ion[2].xray.f0(1.0)))
        if T is pt.elements and calcs:
            for c, d in COMPOUNDS[:3]:
                out.append(rd(lambda: pt.xray_sld(c, density=d, energy=8.0)))
        return out
    def g_lines():
        return [rd(lambda: (getattr(el, "K_alpha", "absent"), getattr(el, "K_beta1", "absent"),
                            el.K_alpha_units, el.K_beta1_units)) for el in els]
    def g_mff():
        return [rd(lambda: el.magnetic_ff if hasattr(el, "magnetic_ff") else "absent") for el in els]
    table = [("radius", g_radius), ("crystal", g_crystal), ("neutron", g_neutron), ("activation", g_activation),
             ("xray", g_xray), ("lines", g_lines), ("mff", g_mff)]
    if groups is not None:
        table = [t for t in table if t[0] in groups]
    if order:
        table = table[::-1]
    out = []
    for name, fn in table:
        vals = fn()
        if order:                      # values were read in the reverse order; hash them in the forward order
            vals = _unreverse(name, vals, T, pt)
        out.append((name, hashlib.sha1("\n".join(vals).encode()).hexdigest()[:16]))
    return sorted(out)


def _unreverse(name, vals, T, pt):
    """Map the list of values read in order 1 back to the sequence order 0 would have produced."""
    n_el = len(list(T))
    if name in ("radius", "crystal", "lines", "mff"):
        return vals[::-1]
    if name == "activation":
        # elements reversed, isotopes within an element in forward order
        out, i = [], 0
        blocks = []
        for el in list(T)[::-1]:
            k = len(el.isotopes)
            blocks.append(vals[i:i + k]); i += k
        for b in blocks[::-1]:
            out += b
        return out + vals[i:]
    if name == "neutron":
        blocks, i = [], 0
        for el in list(T)[::-1]:
            k = 1 + len(el.isotopes)
            b = vals[i:i + k]; i += k
            blocks.append([b[0]] + b[1:][::-1])
        out = []
        for b in blocks[::-1]:
            out += b
        tail = vals[i:]                      # two values per compound, compounds read in reverse order
        pairs = [tail[j:j + 2] for j in range(0, len(tail), 2)][::-1]
        return out + [v for p in pairs for v in p]
    return vals


# ------------------------------------------------------------------ oracle
def canonical(model):
    """Observations of every event and the digest in the canonical history, from a pristine fork."""
    def work():
        ns = model.namespace()
        evs = dict((e.name, e) for e in LazyModel().events())
        for n in CANONICAL:
            model.observe(evs[n], ns)
        obs = {}
        for e in model.events():
            obs[e.name] = histmc.in_fork(lambda e=e: model.observe(e, ns))
        digs = [histmc.in_fork(lambda o=o: model.digest(ns, o)) for o in (0, 1)]
        return obs, digs
    return histmc.in_fork(work)


def failure_kind(want, got):
    if got.startswith("EXC:"):
        return "raises-" + got.split(":")[1]
    if want.startswith("EXC:"):
        return "serves-where-canonical-raises"
    if got in ("ok:True", "ok:False") or want in ("ok:True", "ok:False"):
        return "hasattr-differs"
    if "None" in got and "None" not in want:
        return "placeholder-or-None"
    return "value-differs"


def snippet(hist, ev, evs):
    lines = ["import periodictable as pt", "import io, contextlib",
             "def _printed(fn):\n    b = io.StringIO()\n    with contextlib.redirect_stdout(b): fn()\n    return b.getvalue()"]
    for n in list(hist) + [ev]:
        code = evs[n].code.split("\n")
        lines += code[:-1]
        lines.append("print(%r, '->', repr(%s))" % (n, code[-1]))
    return "\n".join(lines) + "\n"


class Oracle(object):
    def __init__(self, model, acc, can_obs, can_dig):
        self.model, self.acc, self.can_obs, self.can_dig = model, acc, can_obs, can_dig
        self.evs = dict((e.name, e) for e in list(LazyModel().events()) + list(model.events()))

    def __call__(self, key, res, second=False):
        acc = self.acc
        hist = res["hist"]
        bad = False
        if second:
            acc.count("second_representative_states")
        else:
            acc.states += 1
            if hist:
                acc.nontrivial += 1
        for name, obs in [(e, o) for e, o, _ in res["edges"]] + list(res["probes"]):
            acc.transitions += 1
            acc.evaluations += 1
            want = self.can_obs[name]
            if obs != want:
                bad = True
                g = self.evs[name].group
                acc.violation("%s:%s" % (g, failure_kind(want, obs)),
                              dict(history=list(hist), event=name), expected=want[:300], observed=obs[:300],
                              standalone=snippet(hist, name, self.evs))
            else:
                acc.outcome("obs-ok:" + (self.evs[name].group or "?"))
        if res["digests"] is not None:
            acc.evaluations += 2
            for o, d in enumerate(res["digests"]):
                if list(d) != list(self.can_dig[o]):
                    bad = True
                    diff = [g for (g, h), (g2, h2) in zip(d, self.can_dig[o]) if h != h2]
                    for g in diff:
                        acc.violation("digest:%s" % g, dict(history=list(hist), event=None, order=o, group=g),
                                      expected="digest of group %s = canonical" % g, observed="differs",
                                      standalone=snippet(hist, CANONICAL[0], self.evs))
        if acc.states % 97 == 1:
            acc.sample(dict(history=list(hist), key=key))
        return bad


def group_alphabet(model, g):
    names = set()
    for e in model.events():
        if e.group == g and e.expand:
            names.add(e.name)
    return names


def run(ctx):
    model = LazyModel()
    acc = ctx.acc
    can_obs, can_dig = canonical(model)
    # determinism: the canonical computation repeated must give identical results
    can_obs2, can_dig2 = canonical(model)
    if can_obs != can_obs2 or can_dig != can_dig2:
        raise MachineryError("canonical history is not deterministic")
    if can_dig[0] != can_dig[1]:
        # the same values read in two different orders differ: that is itself a violation of the property
        for (g, h0), (g1, h1) in zip(can_dig[0], can_dig[1]):
            if h0 != h1:
                acc.violation("digest-read-order:%s" % g, dict(history=list(CANONICAL), event=None, group=g, order=1),
                              expected="values of group %s do not depend on the order in which they are read" % g,
                              observed="ascending and descending read orders serve different values",
                              standalone=snippet(CANONICAL, CANONICAL[0], dict((e.name, e) for e in model.events())))
    acc.info["max_events"] = len(model.events())
    acc.info["max_expansion_events"] = sum(1 for e in model.events() if e.expand)
    oracle = Oracle(model, acc, can_obs, can_dig)
    runs = []
    if ctx.quick:
        ex = histmc.Explorer(model, ctx.jobs, ctx.log).run(depth=3, on_state=oracle, probe_levels=2)
        ex.oracle = oracle
        runs.append(("depth3-full", ex))
    else:
        # (a) all histories of <= 4 events over the expansion alphabet (probe alphabet at levels 0-1)
        ex = histmc.Explorer(model, ctx.jobs, ctx.log).run(depth=4, on_state=oracle, probe_levels=2)
        ex.oracle = oracle
        runs.append(("depth4-full", ex))
        # (b) closure of the loader state space proper: one read through the element, the direct init and the
        # calculators of every group (imports and the other access routes are covered by (a)); the measured
        # full-alphabet space is 22 / 231 / 1 534 / 7 041 / ... states at depth 1 / 2 / 3 / 4 and does not close
        # in hours, mostly because the nine independent imports multiply it by up to 2^9
        if os.environ.get("VERIF_C09_CLOSURE") == "noimports":
            names = set(e.name for e in model.events() if e.expand and not e.name.startswith("import:"))
        else:
            names = set(n for n in (e.name for e in model.events())
                        if n.startswith("init:") or n.startswith("calc:") or n.startswith("print:")
                        or (n.startswith("get:el:") and n.split(":")[2] in [g[1][0] for g in GROUPS])
                        or n == "get:iso:neutron_activation")
        acc.info["max_closure_alphabet"] = len(names)
        ex = histmc.Explorer(model, ctx.jobs, ctx.log).run(depth=None, expand_names=names, on_state=oracle,
                                                           state_cap=int(os.environ.get("VERIF_C09_CAP", "0")) or None)
        ex.oracle = oracle
        ex.expand_names = names
        runs.append(("closure-loaders", ex))
    # memo-cache sub-alphabet (colliding symbols) with a refined key
    memo = MemoModel()
    mcan_obs, mcan_dig = canonical(memo)
    moracle = Oracle(memo, acc, mcan_obs, mcan_dig)
    mex = histmc.Explorer(memo, ctx.jobs, ctx.log).run(depth=(3 if ctx.quick else None), on_state=moracle)
    mex.oracle = moracle
    runs.append(("memo-depth3" if ctx.quick else "closure-memo", mex))
    # private-table init as the first touch of a group
    pmodel = PrivFirstModel()
    pcan_obs, pcan_dig = canonical(pmodel)
    poracle = Oracle(pmodel, acc, pcan_obs, pcan_dig)
    pex = histmc.Explorer(pmodel, ctx.jobs, ctx.log).run(depth=(3 if ctx.quick else 4), on_state=poracle)
    pex.oracle = poracle
    runs.append(("private-first-depth%d" % (3 if ctx.quick else 4), pex))
    # auxiliary public functions as the first touch
    amodel = AuxFirstModel()
    acan_obs, acan_dig = canonical(amodel)
    aoracle = Oracle(amodel, acc, acan_obs, acan_dig)
    aex = histmc.Explorer(amodel, ctx.jobs, ctx.log).run(depth=(2 if ctx.quick else 3), on_state=aoracle)
    aex.oracle = aoracle
    runs.append(("aux-first-depth%d" % (2 if ctx.quick else 3), aex))
    second = 0
    for label, ex in runs:
        if ex.nondeterminism:
            raise MachineryError("replay of a history reached a different key: %r" % ex.nondeterminism[:2])
        second += ex.validate_seconds(expand_names=getattr(ex, "expand_names", None),
                                      max_level=(1 if ctx.quick else (2 if label == "depth4-full" else None)),
                                      probe_levels=(2 if (ctx.quick or label == "depth4-full") else None),
                                      oracle=lambda k, r, orc=ex.oracle: orc(k, r, second=True))
        if ex.key_conflicts:
            raise MachineryError("canonical key too coarse: %r" % ex.key_conflicts[:3])
        acc.info["states:" + label] = len(ex.rep)
        acc.info["closed:" + label] = bool(ex.closed)
        if not ex.closed and (label.startswith("closure")):
            if ex.bad_states == 0:
                acc.cap("%s not closed: %d states unexpanded" % (label, len(ex.unexpanded)))
    acc.info["second_representatives_validated"] = second
    # trace validation in brand-new interpreters
    todo = []
    probe_names = [e.name for e in model.events() if e.name.startswith("get:el:")]
    mprobe = [e.name for e in memo.events() if e.name.startswith("memo:sf:")]
    for label, ex in runs:
        items = sorted(ex.rep.items(), key=lambda kv: (len(kv[1]), kv[1]))
        # quick: a handful per run; thorough: up to ~300 histories per run, spread over all depths
        step = max(1, len(items) // (6 if ctx.quick else 300))
        hs = [h for _, h in items[::step] if h]
        if ctx.quick:
            hs = hs[:8]
        if ex is mex:
            todo += [("MemoModel", h, mprobe, mcan_obs) for h in hs]
        elif ex is aex:
            todo += [("AuxFirstModel", h, [n for n in probe_names if n in acan_obs], acan_obs) for h in hs]
        elif ex is pex:
            todo += [("PrivFirstModel", h, [n for n in probe_names if n in pcan_obs], pcan_obs) for h in hs]
        else:
            todo += [("LazyModel", h, probe_names, can_obs) for h in hs]
    todo.append(("LazyModel", tuple(CANONICAL), probe_names, can_obs))
    def validate(item):
        factory, h, probes, cobs = item
        got = histmc.fresh_replay("mc.props.c09", factory, h, probes)
        want = [cobs[n] for n in list(h) + probes]
        return (factory, h, probes, got, want)
    from ..common import pmap
    res = pmap(validate, todo, ctx.jobs, "fresh-replay")
    evs = dict((e.name, e) for e in list(model.events()) + list(memo.events()) + list(pmodel.events()) + list(amodel.events()))
    acc.traces = acc.transitions     # every explored transition was executed on the real interpreter (fork/replay)
    for factory, h, probes, got, want in res:
        acc.count("fresh_interpreter_replays")
        # a fresh interpreter must observe exactly what the forked exploration observed: for clean
        # states that is the canonical observation of every event
        for n, g, w in zip(list(h) + probes, got, want):
            if g != w:
                acc.violation("%s:%s" % (evs[n].group, failure_kind(w, g)), dict(history=list(h), event=n, fresh=True),
                              expected=w[:300], observed=g[:300], standalone=snippet(h, n, evs))
    # replay one history twice: determinism of the fresh route
    a = histmc.fresh_replay("mc.props.c09", "LazyModel", CANONICAL, probe_names)
    b = histmc.fresh_replay("mc.props.c09", "LazyModel", CANONICAL, probe_names)
    if a != b:
        raise MachineryError("fresh replay is not deterministic")


def replay(ctx, case, signature=None):
    hist = list(case["history"])
    is_memo = any(n.startswith("memo:") for n in hist + [case.get("event") or ""])
    is_priv = any(n.startswith("privinit") for n in hist + [case.get("event") or ""])
    is_aux = any(n.startswith("aux:") for n in hist + [case.get("event") or ""])
    model = MemoModel() if is_memo else (PrivFirstModel() if is_priv else (AuxFirstModel() if is_aux else LazyModel()))
    can_obs, can_dig = canonical(model)
    evs = dict((e.name, e) for e in model.events())
    if case.get("event"):
        got = histmc.fresh_replay("mc.props.c09", "MemoModel" if is_memo else ("PrivFirstModel" if is_priv else ("AuxFirstModel" if is_aux else "LazyModel")),
                                  hist, [case["event"]])[-1]
        want = can_obs[case["event"]]
        if got != want:
            ctx.acc.violation(signature or "replay", case, expected=want[:300], observed=got[:300],
                              standalone=snippet(hist, case["event"], evs))
    else:
        def work():
            ns = model.namespace()
            for n in hist:
                model.observe(evs[n], ns)
            return model.digest(ns, case.get("order", 0))
        d = histmc.in_fork(work)
        if list(d) != list(can_dig[case.get("order", 0)]):
            ctx.acc.violation(signature or "replay", case, expected="canonical digest", observed="differs")
