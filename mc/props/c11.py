"""C11 - mixtures keep the requested mass / volume proportions and a consistent density
(E1, mixture graph + string-form derivations; DESIGN section 4, C11).

Part A  mixture graph (call forms).  A state is a mixture expression
            base label | ["w"|"v", [[component, quantity], ...]] | ["x", 3.2, expression]
        i.e. mix_by_weight / mix_by_volume of 1..3 components, every component a base compound (with
        or without density, formula unit as written or scaled by 3.2) or itself a mixture (depth 2 / 3).
        Every event runs the real call once; the oracle is mc.ref.mix.mix on the reference materials
        of the components: per-species atom counts up to one common factor, the density, the
        vanishing of zero quantities, the documented error (volume of a material without density).
        The live component objects are built once per shard and serve every call of the shard (the same
        object in many calls, and several times in one call); they are observed (str, atoms, hill, mass ...)
        before their first use, and must come back unaltered from every call.
        Alphabet 'L' (same display string): materials that PRINT THE SAME but differ - several materials with
        one name=, a name that equals the text of an unnamed component, a string argument next to Formula
        objects - in every ordered tuple of 2 and 3 components, by weight and by volume, same oracle.
Part C  reuse histories.  Two live objects go through every sequence (length <= 3 / 4) of judged calls,
        calls with keyword overrides, and in-place updates by the caller (density, natural_density, name,
        `a += b`); every judged call must match the reference for the CURRENT state of the objects.
Part B  string forms.  Every derivation of a small AST of the documented mixture grammar (all
        percentage spellings, bare % on later parts, 1..3 parts + remainder, all 13 units in every
        pairing inside a family, nested parts with/without density tag, repeated groups, spacing
        around // and between number and unit) is printed, parsed by the real parser and compared
        with the call it abbreviates (evaluated through mix_by_weight / mix_by_volume on the parts),
        plus total_mass / thickness against the stated amounts and the documented error cases.
        Block 'repeats': the same compound twice with different density tags in every family.
        Sub-derivations are checked before their parent (a parent of a violating sub-mixture is not
        explored); a failure is named after the deviations from the canonical spelling that are
        individually necessary for it."""
import itertools
from ..common import Acc, load_pt, close, chunks, rotate, jdump, MachineryError
from ..ref import mix as R

META = dict(
    level="model_checking", engine="E1",
    technique="bounded-exhaustive exploration of the mixture graph and of the mixture grammar's derivations",
    rule=("Forced collision in all three parts: the SAME compound (equal structure) twice in one mixture with two "
          "different densities, or once with and once without a density (A: bases H2O@1 / H2O@0.92 and SiO2 / "
          "SiO2@2.2, a mixture and its copy with another density; C: object pairs of equal structure; B: block "
          "'repeats').  A failure that disappears when the later occurrence is replaced by the earlier object is "
          "named ':same-compound-other-density'.  Forced collision of the DISPLAY STRING (A, alphabet L): different "
          "materials with equal str(f) in one call - NaCl / KBr / SiO2 (no density) / 3.2KBr all with name='salt', "
          "an unnamed H2O@1 next to NaCl with name='H2O' and next to the string argument 'H2O@0.92'; a failure that "
          "disappears when every part is an equal object with a name of its own is named ':same-display-string'.  Percentages that add up to exactly 100 are judged: the remainder "
          "is a zero quantity, the last part vanishes (cause ':percentages-sum-to-100').  "
          "A: zero quantities of components WITHOUT density are ordinary members (they vanish: no error by volume, "
          "and the density is judged from the remaining parts); the Formula objects passed in are shared by all events "
          "of a shard, observed before use, and compared after every call (stored attributes; after each component "
          "tuple also the readable values).  C: all event sequences over {10 judged call forms, 2 keyword calls, 4-5 "
          "in-place updates} on two live objects, ending in a call; cause = the earlier events that are individually "
          "necessary.  B also: one part X directly after every percent spelling / bare % / unit, in first, later and "
          "last position, for X = every element whose symbol begins with a letter that begins a percent word or unit "
          "(W V Mo Mg Mn K Ge U N Li Cm ...; forced collisions), compounds led by them, and parts with a leading "
          "count (scaled formula unit).  "
          "A: every mix_by_weight / mix_by_volume call with k = 1..3 components drawn (ordered, with repetition) "
          "from the component alphabet of its level and every quantity tuple over {0,1e-6,0.5,1,2,3,1e6}; a level-d "
          "event has at least one component that is a depth-(d-1) mixture taken from a fixed representative list "
          "(R1: 10 depth-1, R2: 6 depth-2 mixtures; by weight / by volume, with and without density, ratios 1e12, "
          "a zero part, a rescaled mixture).  B: every string of the derivation blocks spellings / percentages / "
          "units / nested / groups (full products of spelling x position x unit x quantity x spacing, de-duplicated), "
          "sub-derivations before their parent.  Distinct = distinct expression resp. distinct (AST, spacing).  "
          "Non-trivial = at least two components with positive quantity (a proportion is really tested) or a "
          "documented error case."),
    bound=dict(
        quick=("A: depth 1: k<=2 over 22 bases (11 compounds incl. the subscripted pure elements N2@0.8 and S8, each also with the formula unit x3.2), k=3 over 12; "
               "depth 2: k<=2 over 18 bases + R1 (11), k=3 over 3 bases + 5 of R1; all 7 quantities; string arguments k<=2; "
               "same display string: all ordered pairs (7 quantities) and triples (5 quantities) over the 7 components "
               "of alphabet L, by weight and by volume, Formula objects (one string argument among them).  "
               "B repeats: 3 component triples (X@d1, Y, X@d2 / X without density) x 6 orders x (wt% / vol% with "
               "remainder and with sum 100, 13 unit pairs, across a repeated group, across a nested part, nested "
               "percentages) + the repeated compound alone: 552 derivations.  "
               "B: all 10+6 percentage spellings first, bare % or one spelling on all later parts, 1..3 explicit parts, "
               "4 spacings of // x 2 of number-unit; percentage tuples 13 + 169 + 6^3 over 3 component sets; all 13 units "
               "single x 6 quantities x 5 compounds, all 81 + 16 ordered unit pairs x 6 quantity pairs x 2 component "
               "pairs (+ missing-density pairs, + 8 spacings), all 729 + 64 unit triples; nested parts: 15 outer forms x "
               "7 inner mixtures x {no tag, @2.5, @1.5n} x 5 spacings (nesting depth 2); repeated groups: count "
               "{none,2,3} x {alone, first, later, two groups} x 19 + 9 inner mixtures (every unit), group in group; "
               "collisions: 53 parts (40 elements by the first-letter rule, 13 compounds) x (16 first spellings + 18 "
               "later spellings incl. bare % + 6 other positions + 13 units x 3 positions) x 2 number-unit spacings; "
               "5 scaled parts in the same forms; zero amounts of the density-less part in every unit pair.  "
               "C: histories of length <= 3 over 7 object pairs (25 380 histories)"),
        thorough=("A: depth 1: k<=3 over all 18 bases; depth 2: k<=2 full, k=3 over all 29 components with 5 quantities "
                  "and over the quick alphabet with 7; depth 3: k<=3 over 4 bases + 3 of R1 + R2; string arguments k<=2 full, k=3 over 8 bases with 5 quantities; "
                  "same display string: pairs and triples over alphabet L with all 7 quantities.  "
                  "B: as quick, plus: every later-part spelling independently; all 13^3 percentage tuples; all 48 "
                  "quantity pairs for every unit pair; 2 quantity triples per unit triple; nesting depth 3 (720 "
                  "derivations); group in group in group; collisions with every element of the table (131 parts).  "
                  "C: histories of length <= 4 (428 268 histories)")),
    assumptions=[
        "atomic masses and element densities are read from the library (their correctness is C06)",
        "compound parts of a string and base components are built with formula(text) (compound grammar: C01/C12)",
        "density tags on nested mixtures are applied to the call route with the density / natural_density setters (C12)",
        "percentage spellings other than wt% / vol% and spelled-out later parts are those of the implemented grammar "
        "(the rst documents wt%, vol% and the bare %)",
        "zero quantities vanish unconditionally (property text): a zero quantity of a material without density is "
        "judged like any other in mix_by_weight / mix_by_volume calls, in wt% / vol% strings, in mass units and in "
        "layer thicknesses",
        "excluded as left open by the text: a zero amount in a VOLUME UNIT ('0.0mL SiO2') of a material without "
        "density - the string is translated to grams with the part's density before anything is mixed, so the "
        "quantity of 'the corresponding call' (0 x unknown) is not defined and the documented missing-density error "
        "is as defensible as vanishing; quantity mixtures whose amounts are all zero and the density of an all-zero "
        "(empty) mixture (0/0); a parenthesised mixture as a whole formula (not in the documented grammar); the "
        "RESULT of a call with keyword arguments density/natural_density/name/table (such calls occur in the "
        "histories, only their side effects are judged); in-place `density = None` on a single-element Formula "
        "(formula(f) gives it the element density again); negative quantities; missing spaces between unit and "
        "part; fractional group counts",
        "argument objects are compared by their public instance attributes (structure by identity, density, name, "
        "total_mass, thickness ...) and by the values a caller can read (str, atoms, hill, mass, mass_fraction, "
        "charge, density, natural_density); attributes with a leading underscore (possible caches) are not looked at",
        "explicit percentages that sum to exactly 100 ARE judged: the statement says 'percentages leave the remainder "
        "to the last component', 'the string forms mean the same as the corresponding calls' and 'components with "
        "zero quantity vanish', and formula_grammar.rst says 'the final portion adding to 100%' - a final portion of "
        "zero adds to 100, the corresponding call has a zero quantity, and that component vanishes; the wording of the "
        "library's own error message ('must sum to less than 100%') is not part of the documentation.  Only tuples "
        "whose float sum is exactly 100.0 are judged (all multiples of 0.5 here)",
        "formula(f, density=d) gives the same structure with another density (used to build the structure-equal "
        "mixture component; C12)",
        "a name given with formula(text, name=...) changes what the material prints as and nothing else: the "
        "reference of a named component is that of its text (the name of the RESULT is not judged)",
        "error cases accept any exception class",
        "string forms are compared with the calls they abbreviate, so they are explored only when part A is silent",
    ],
    level_text=("every member of the stated finite families of mixture calls and mixture strings was executed on the "
                "real implementation and agreed with the reference prediction (calls) resp. with the call it "
                "abbreviates and the stated amounts (strings); nothing is claimed for other quantities or compounds"),
    level_note=("trusted: mc.ref.mix (60 lines of arithmetic, the AST printer), formula() on plain compounds, "
                "Formula.atoms, element masses/densities of the library"),
)

QS = (0, 1e-6, 0.5, 1, 2, 3, 1e6)
QS5 = (0, 1e-6, 1, 3, 1e6)
REL = 1e-9

# ------------------------------------------------------------------ components
# text, reference atoms, density: ("i", rho) | ("n", natural rho) | ("el", symbol) | None
BASE_TABLE = [
    ("H2O@1", {"H": 2, "O": 1}, ("i", 1.0)),
    ("D2O@1n", {"D": 2, "O": 1}, ("n", 1.0)),
    ("NaCl@2.16", {"Na": 1, "Cl": 1}, ("i", 2.16)),
    ("Fe", {"Fe": 1}, ("el", "Fe")),
    ("Co", {"Co": 1}, ("el", "Co")),
    ("Ti", {"Ti": 1}, ("el", "Ti")),
    ("SiO2", {"Si": 1, "O": 2}, None),
    # a pure element written with a subscript (the structure is ONE atom entry whose count is not 1), with a tag
    # and with the density it inherits from its element
    ("N2@0.8", {"N": 2}, ("i", 0.8)),
    ("S8", {"S": 8}, ("el", "S")),
    # forced collisions: the SAME compound (equal structure) with another density
    ("H2O@0.92", {"H": 2, "O": 1}, ("i", 0.92)),
    ("SiO2@2.2", {"Si": 1, "O": 2}, ("i", 2.2)),
]
SCALE = 3.2
UNSCALED = [b[0] for b in BASE_TABLE]
SCALED = ["3.2" + t for t in UNSCALED]
BASES = UNSCALED + SCALED
NATURAL = {"D": "H"}      # species whose natural-abundance mass is another species' mass

R1 = [
    ["w", [["H2O@1", 1], ["D2O@1n", 2]]],
    ["v", [["H2O@1", 1], ["D2O@1n", 2]]],
    ["w", [["NaCl@2.16", 1e-6], ["H2O@1", 1e6]]],
    ["v", [["Fe", 1e6], ["Co", 1e-6]]],
    ["w", [["SiO2", 1], ["Fe", 1]]],                      # no density
    ["w", [["3.2H2O@1", 0.5], ["NaCl@2.16", 3]]],
    ["v", [["Ti", 0], ["Co", 2]]],
    ["v", [["Fe", 0.5], ["Co", 1], ["Ti", 3]]],
    ["x", SCALE, ["v", [["H2O@1", 1], ["D2O@1n", 2]]]],
    ["w", [["D2O@1n", 2]]],
    ["d", 0.8, ["w", [["H2O@1", 1], ["D2O@1n", 2]]]],     # the structure of R1[0] with another density
]
R2 = [
    ["v", [[R1[0], 1], [R1[3], 2]]],
    ["w", [[R1[2], 1e6], ["Fe", 1e-6]]],
    ["w", [[R1[4], 1], [R1[1], 3]]],                      # no density
    ["v", [[R1[7], 0.5], [R1[8], 2], ["NaCl@2.16", 1]]],
    ["x", SCALE, ["v", [[R1[0], 1], [R1[3], 2]]]],
    ["w", [[R1[6], 2], [R1[5], 0]]],
]
# forced collisions of the DISPLAY STRING: components that print the same (str(f) is the name when there is one)
# but are different materials.  ["n", name, base text] = formula(text, name=name); ["s", text] = the text itself
# passed next to Formula objects (the constructors accept both; its display string is that of formula(text)).
LOOK_TABLE = [
    ("KBr@2.75", {"K": 1, "Br": 1}, ("i", 2.75)),
]
LOOK = [
    ["n", "salt", "NaCl@2.16"],        # two materials carrying the same name ...
    ["n", "salt", "KBr@2.75"],
    ["n", "salt", "SiO2"],             # ... a third without density
    ["n", "salt", "3.2KBr@2.75"],      # ... and one of them with another formula unit
    "H2O@1",                           # unnamed: prints as 'H2O'
    ["n", "H2O", "NaCl@2.16"],         # a name that equals the text of the unnamed one
    ["s", "H2O@0.92"],                 # a string argument that prints as 'H2O' as well, another density
]
ALPHABETS = {
    "L": (LOOK, []),
    "A1": (BASES, []),
    "A1q": (UNSCALED + ["3.2H2O@1"], []),
    "A2": (BASES, R1),
    "A2q": (["H2O@1", "Fe", "SiO2"], [R1[0], R1[3], R1[4], R1[8], R1[10]]),
    "A3": (["H2O@1", "Fe", "SiO2", "3.2NaCl@2.16"] + [R1[0], R1[4], R1[8]], R2),
}


class Env(object):
    def __init__(self):
        self.pt = load_pt()
        import periodictable.formulas as F
        self.formula, self.mixw, self.mixv = F.formula, F.mix_by_weight, F.mix_by_volume
        pt = self.pt
        self.amass = {"D": pt.D.mass, "T": pt.T.mass}
        self.eldens = {}
        for el in pt.elements:
            if el.number > 0:
                self.amass[el.symbol] = el.mass
                self.eldens[el.symbol] = el.density
        self.base_ref = {}
        for text, atoms, dens in BASE_TABLE + LOOK_TABLE:
            a = dict((k, float(v)) for k, v in atoms.items())
            if dens is None:
                rho = None
            elif dens[0] == "i":
                rho = dens[1]
            elif dens[0] == "el":
                rho = self.eldens[dens[1]]
            else:   # natural density: same cell, isotopes replaced by the natural element
                m_iso = R.mass_of(a, self.amass)
                m_nat = sum(c * self.amass[NATURAL.get(k, k)] for k, c in a.items())
                rho = dens[1] * m_iso / m_nat
            self.base_ref[text] = R.Mat(a, rho)
            self.base_ref["3.2" + text] = R.Mat(a, rho).scaled(SCALE)

    def names(self, atoms):
        out = {}
        for a, c in atoms.items():
            k = str(a)
            if k not in self.amass:
                raise KeyError(k)
            out[k] = out.get(k, 0.0) + c
        return out


# ================================================================== caller-owned objects
def cheap_state(f):
    """Everything a caller can have stored on a Formula: the structure (an immutable nested tuple, compared
    by identity), density, name and any other public instance attribute (total_mass, thickness ...).
    Private attributes (a leading underscore: possible caches) are not looked at."""
    if isinstance(f, str):
        return (f, None, None, ())
    try:
        extra = tuple(sorted((k, v) for k, v in vars(f).items()
                             if not k.startswith("_") and k not in ("structure", "density", "name")))
    except TypeError:
        extra = ()
    return (f.structure, f.density, f.name, extra)


def cheap_diff(old, new):
    if new[0] is not old[0]:
        return "structure"
    if new[1] != old[1]:
        return "density"
    if new[2] != old[2]:
        return "name"
    if new[3] != old[3]:
        ko, kn = dict(old[3]), dict(new[3])
        for k in sorted(set(ko) | set(kn)):
            if ko.get(k, KeyError) != kn.get(k, KeyError):
                return "attribute-" + k
    return None


OBSERVED = ("str", "atoms", "hill", "mass", "molecular_mass", "mass_fraction", "charge", "density", "natural_density")


def observe(f):
    """The values a caller can read from a Formula (and that an implementation could memoise on the object):
    read on every component BEFORE it is used as an operand, and compared afterwards."""
    if isinstance(f, str):
        return [f]
    out = []
    for what in OBSERVED:
        try:
            if what == "str":
                v = str(f)
            elif what == "atoms":
                v = sorted((str(a), c) for a, c in f.atoms.items())
            elif what == "hill":
                v = str(f.hill)
            elif what == "mass_fraction":
                v = sorted((str(a), c) for a, c in f.mass_fraction.items())
            elif what == "natural_density":
                v = None if f.density is None else f.natural_density
            else:
                v = getattr(f, what)
        except Exception as e:
            v = "raises " + type(e).__name__
        out.append(v)
    return out


def observe_diff(old, new):
    for what, a, b in zip(OBSERVED, old, new):
        if a != b:
            return "observed-" + what
    return None


# ================================================================== Part A: mixture graph
def expr_code(e):
    if isinstance(e, str):
        return "formula(%r)" % e
    if e[0] == "n":
        return "formula(%r, name=%r)" % (e[2], e[1])
    if e[0] == "s":
        return repr(e[1])
    if e[0] == "x":
        return "(%r*%s)" % (e[1], expr_code(e[2]))
    if e[0] == "d":
        return "formula(%s, density=%r)" % (expr_code(e[2]), e[1])
    fn = "mix_by_weight" if e[0] == "w" else "mix_by_volume"
    return "%s(%s)" % (fn, ", ".join("%s, %r" % (expr_code(c), q) for c, q in e[1]))


def expr_depth(e):
    if isinstance(e, str) or e[0] in ("n", "s"):
        return 0
    if e[0] in ("x", "d"):
        return expr_depth(e[2])
    return 1 + max(expr_depth(c) for c, q in e[1])


class Graph(object):
    def __init__(self, env=None):
        self.env = env or Env()
        self.lib = {}
        self.ref = {}

    # ---- construction of components (real objects / reference materials)
    def ref_of(self, e):
        if isinstance(e, str):
            return self.env.base_ref[e]
        if e[0] == "n":
            return self.env.base_ref[e[2]]
        if e[0] == "s":
            return self.env.base_ref[e[1]]
        if e[0] == "x":
            m = self.ref_of(e[2])
            return m.scaled(e[1]) if isinstance(m, R.Mat) else m
        if e[0] == "d":
            m = self.ref_of(e[2])
            return R.Mat(m.atoms, e[1]) if isinstance(m, R.Mat) else m
        parts = []
        for c, q in e[1]:
            m = self.ref_of(c)
            if not isinstance(m, R.Mat):
                raise MachineryError("component of %s is %s" % (jdump(e), m))
            parts.append((m, q))
        return R.mix(e[0], parts, self.env.amass)

    def lib_of(self, e):
        """Builds the component from scratch.  Every intermediate object is observed (str, atoms, hill,
        mass ...) before it is used as an operand of n*f or of a mix call."""
        env = self.env
        if isinstance(e, str):
            f = env.formula(e)
            observe(f)
            return f
        if e[0] == "n":       # a named material: str(f) is the name
            f = env.formula(e[2], name=e[1])
            observe(f)
            return f
        if e[0] == "s":       # the text itself is the argument
            return e[1]
        if e[0] == "x":
            f = self.lib_of(e[2])
            g = e[1] * f
            g.density = f.density
            observe(g)
            return g
        if e[0] == "d":       # the same structure with another density (the caller's own estimate)
            f = self.lib_of(e[2])
            g = env.formula(f, density=e[1])
            observe(g)
            return g
        args = []
        for c, q in e[1]:
            args += [self.lib_of(c), q]
        f = (env.mixw if e[0] == "w" else env.mixv)(*args)
        observe(f)
        return f

    def component(self, e, acc):
        """[expr, live formula, reference, cheap state, observed values] of a component; a mixture used as a
        component is first checked as a state of its own (a violating state has no successors)."""
        k = jdump(e)
        if k not in self.lib:
            ok = True
            if not isinstance(e, str) and e[0] not in ("n", "s"):
                probe = Acc()
                inner = e[2] if e[0] in ("x", "d") else e
                comps = [self.component(c, acc) for c, q in inner[1]]
                if any(c is None for c in comps):
                    ok = False
                else:
                    self.event(inner[0], comps, [q for c, q in inner[1]], probe)
                    ok = not probe.viol
            if ok:
                f = self.lib_of(e)
                self.lib[k] = [e, f, self.ref_of(e), cheap_state(f), observe(f)]
            else:
                self.lib[k] = None
        return self.lib[k]

    def _rebuild(self, comp):
        comp[1] = f = self.lib_of(comp[0])
        comp[3], comp[4] = cheap_state(f), observe(f)

    def altered(self, comps, deep=False):
        """Name of the first difference between the caller's objects and their state before the call (None if
        they are unaltered); an altered component is replaced by a fresh one."""
        what = None
        for c in comps:
            w = cheap_diff(c[3], cheap_state(c[1]))
            if w is None and deep:
                w = observe_diff(c[4], observe(c[1]))
            if w is not None:
                self._rebuild(c)
                what = what or w
        return what

    # ---- one transition
    def event(self, kind, comps, qs, acc, argstr=False, deep=False):
        """One call of the real mix_by_weight / mix_by_volume with the live component objects (the same
        objects serve every event of a shard, and one object may occur several times in one call)."""
        env = self.env
        expr = [kind, [[c[0], q] for c, q in zip(comps, qs)]]
        refs = [c[2] for c in comps]
        want = R.mix(kind, list(zip(refs, qs)), env.amass)
        args = []
        for c, q in zip(comps, qs):
            args += [c[0] if argstr else c[1], q]
        acc.states += 1
        acc.transitions += 1
        acc.evaluations += 1
        if sum(1 for q in qs if q > 0) >= 2 or want is R.ERROR:
            acc.nontrivial += 1
        case = dict(mode="graph", expr=expr, argstr=argstr)
        if deep:
            case["deep"] = True
        got = exc = None
        try:
            got = (env.mixw if kind == "w" else env.mixv)(*args)
        except Exception as e:
            exc = e
        if not argstr:
            what = self.altered(comps, deep)
            if what:
                return self._viol_altered(acc, kind, what, case)
        bad = self.judge(kind, refs, qs, want, got, exc)
        if bad[0] == "ok":
            acc.outcome("A:" + bad[1])
            return
        cause = bad[1] + self.input_class(kind, args[0::2], refs, qs)
        return self._viol(acc, "mix:%s:%s" % (kind, cause), case, want, bad[2], bad[3])

    def judge(self, kind, refs, qs, want, got, exc):
        """-> ("ok", outcome class) | ("bad", cause, observed, detail)."""
        env = self.env
        zud = ":zero-part-without-density" if any(q == 0 and m.density is None for m, q in zip(refs, qs)) else ""
        if exc is not None:
            if want is R.ERROR:
                return ("ok", "raises:missing-density")
            return ("bad", "raises-%s" % type(exc).__name__, "%s: %s" % (type(exc).__name__, exc), None)
        if want is R.ERROR:
            return ("bad", "accepted-missing-density", self._obs(got), None)
        try:
            atoms = env.names(got.atoms)
            density = got.density
        except Exception as e:
            return ("bad", "result-unreadable-%s" % type(e).__name__, "%s: %s" % (type(e).__name__, e), None)
        if want is R.EMPTY:
            if any(c != 0 for c in atoms.values()):
                return ("bad", "species", self._obs(got), None)
            return ("ok", "ok:empty")
        bad = R.compare_atoms(atoms, want.atoms, env.amass, REL)
        if bad:
            return ("bad", bad[0], self._obs(got), bad[1])
        if want.density is None:
            if density is not None:
                return ("bad", "density-not-none", self._obs(got), None)
            return ("ok", "ok:no-density")
        if density is None or not close(density, want.density, REL):
            return ("bad", "density", self._obs(got), None)
        return ("ok", "ok:density" + (":zero-dropped" if 0 in qs else "") + zud)

    def zero_cause(self, kind, objs, refs, qs):
        """Input class of a failing call: ':zero-part-without-density' when the call has a zero quantity of a
        material without density and is right once exactly those parts are left out (they must vanish like
        any other zero quantity), '' otherwise."""
        keep = [i for i in range(len(qs)) if not (qs[i] == 0 and refs[i].density is None)]
        if len(keep) == len(qs):
            return ""
        if keep:
            args = []
            for i in keep:
                args += [objs[i], qs[i]]
            got = exc = None
            try:
                got = (self.env.mixw if kind == "w" else self.env.mixv)(*args)
            except Exception as e:
                exc = e
            r2, q2 = [refs[i] for i in keep], [qs[i] for i in keep]
            if self.judge(kind, r2, q2, R.mix(kind, list(zip(r2, q2)), self.env.amass), got, exc)[0] != "ok":
                return ""
        return ":zero-part-without-density"

    def repeat_cause(self, kind, objs, refs, qs):
        """':same-compound-other-density' when two parts with positive quantity are the same compound with
        different densities (or one without) and the call is right once the later one is replaced by the
        earlier object itself (the same object twice in one call is an ordinary member), '' otherwise."""
        sub = {}
        for i in range(len(qs)):
            for j in range(i):
                if (qs[i] > 0 and qs[j] > 0 and j not in sub and refs[i].density != refs[j].density
                        and R.same_compound(refs[i].atoms, refs[j].atoms)):
                    sub[i] = j
                    break
        if not sub:
            return ""
        o2 = [objs[sub.get(i, i)] for i in range(len(qs))]
        r2 = [refs[sub.get(i, i)] for i in range(len(qs))]
        args = []
        for o, q in zip(o2, qs):
            args += [o, q]
        got = exc = None
        try:
            got = (self.env.mixw if kind == "w" else self.env.mixv)(*args)
        except Exception as e:
            exc = e
        if self.judge(kind, r2, qs, R.mix(kind, list(zip(r2, qs)), self.env.amass), got, exc)[0] != "ok":
            return ""
        return ":same-compound-other-density"

    def display_cause(self, kind, objs, refs, qs):
        """':same-display-string' when two different parts with positive quantity print the same (str(f): the
        name, or the text of an unnamed formula) and the call is right once every part is an equal object
        with a name of its own, '' otherwise."""
        shown = {}
        for i in range(len(qs)):
            if qs[i] > 0:
                try:
                    f = self.env.formula(objs[i]) if isinstance(objs[i], str) else objs[i]
                    shown.setdefault(str(f), []).append(i)
                except Exception:
                    return ""
        if not any(len(set(id(objs[i]) for i in ii)) > 1 for ii in shown.values()):
            return ""
        args = []
        try:
            for i in range(len(qs)):
                f = self.env.formula(objs[i])          # an equal object (same structure and density)
                f.name = "part %d" % i
                args += [f, qs[i]]
        except Exception:
            return ""
        got = exc = None
        try:
            got = (self.env.mixw if kind == "w" else self.env.mixv)(*args)
        except Exception as e:
            exc = e
        if self.judge(kind, refs, qs, R.mix(kind, list(zip(refs, qs)), self.env.amass), got, exc)[0] != "ok":
            return ""
        return ":same-display-string"

    def input_class(self, kind, objs, refs, qs):
        cause = self.zero_cause(kind, objs, refs, qs) + self.repeat_cause(kind, objs, refs, qs)
        if ":" + R.REPEAT not in cause:
            cause += self.display_cause(kind, objs, refs, qs)
        return cause

    def deep_check(self, kind, comps, qtuples, acc):
        """After all quantity tuples of one component tuple: the observable values of the caller's objects
        (not only the stored attributes) are what they were.  On a difference the quantity tuple that
        causes it is searched on fresh objects."""
        what = self.altered(comps, deep=True)
        if what is None:
            return
        fn = self.env.mixw if kind == "w" else self.env.mixv
        culprit = None
        for q in qtuples:
            args = []
            for c, x in zip(comps, q):
                args += [c[1], x]
            try:
                fn(*args)
            except Exception:
                pass
            acc.evaluations += 1
            w = self.altered(comps, deep=True)
            if w:
                culprit, what = q, w
                break
        q = culprit or qtuples[-1]
        case = dict(mode="graph", expr=[kind, [[c[0], x] for c, x in zip(comps, q)]], argstr=False, deep=True)
        self._viol_altered(acc, kind, what, case,
                           None if culprit else "only after the whole sequence of quantity tuples on the same objects")

    def _obs(self, got):
        try:
            return "atoms=%s density=%r" % (sorted((str(a), c) for a, c in got.atoms.items()), got.density)
        except Exception as e:
            return "unreadable result: %r" % e

    def _viol_altered(self, acc, kind, what, case, detail=None):
        expr = case["expr"]
        fn = "mix_by_weight" if kind == "w" else "mix_by_volume"
        lines = ["from periodictable import formula, mix_by_weight, mix_by_volume"]
        names = []
        for i, (c, q) in enumerate(expr[1]):
            prev = [j for j in range(i) if expr[1][j][0] == c]
            if prev:
                names.append(names[prev[0]])           # the same object again
            elif not isinstance(c, str) and c[0] == "s":
                names.append(repr(c[1]))               # a string argument
            else:
                names.append("c%d" % i)
                lines.append("c%d = %s" % (i, expr_code(c)))
        objs = ", ".join(sorted(set(n for n in names if n.startswith("c"))))
        look = ("lambda: [(str(c), c.mass, sorted((k, v) for k, v in vars(c).items() "
                "if not k.startswith('_'))) for c in (%s,)]" % objs)
        lines += ["look = " + look, "before = look()",
                  "try: %s(%s)" % (fn, ", ".join("%s, %r" % (n, q) for n, (c, q) in zip(names, expr[1]))),
                  "except Exception as e: print(repr(e))",
                  "print(before == look())    # expected: True, the caller's objects are unaltered"]
        acc.violation("mix:%s:argument-altered:%s" % (kind, what), case,
                      expected="the Formula objects passed to the call are unaltered (%s)" % what[what.find("-") + 1:],
                      observed="%s of an argument differs after the call" % what,
                      standalone="\n".join(lines) + "\n", detail=detail)

    def _viol(self, acc, sig, case, want, observed, detail=None):
        if isinstance(want, R.Mat):
            exp = "atoms (up to one common factor) %s density=%r" % (sorted(want.atoms.items()), want.density)
        else:
            exp = {R.ERROR: "an exception (volume of a material without density)",
                   R.EMPTY: "empty formula (all quantities zero)"}[want]
        expr = case["expr"]
        if case.get("argstr"):
            fn = "mix_by_weight" if expr[0] == "w" else "mix_by_volume"
            code = "%s(%s)" % (fn, ", ".join("%r, %r" % (c, q) for c, q in expr[1]))
        else:
            code = expr_code(expr)
        snippet = ("from periodictable import formula, mix_by_weight, mix_by_volume\n"
                   "r = %s\nprint(r.atoms, r.density)\n# expected: %s\n" % (code, exp))
        acc.violation(sig, case, expected=exp, observed=observed, standalone=snippet, detail=detail)


def graph_plans(quick):
    """(alphabet id, k, quantity set, level, argstr).  A shard is one plan x kind x first component."""
    if quick:
        return [("A1", 1, QS, 1, False), ("A1", 2, QS, 1, False), ("A1q", 3, QS, 1, False),
                ("A2", 1, QS, 2, False), ("A2", 2, QS, 2, False), ("A2q", 3, QS, 2, False),
                ("A1", 1, QS, 1, True), ("A1", 2, QS, 1, True),
                ("L", 2, QS, 1, False), ("L", 3, QS5, 1, False)]
    return [("A1", 1, QS, 1, False), ("A1", 2, QS, 1, False), ("A1", 3, QS, 1, False),
            ("A2", 1, QS, 2, False), ("A2", 2, QS, 2, False), ("A2", 3, QS5, 2, False), ("A2q", 3, QS, 2, False),
            ("A3", 1, QS, 3, False), ("A3", 2, QS, 3, False), ("A3", 3, QS, 3, False),
            ("A1", 1, QS, 1, True), ("A1", 2, QS, 1, True), ("A1q", 3, QS5, 1, True),
            ("L", 2, QS, 1, False), ("L", 3, QS, 1, False)]


def graph_shards(quick, seed):
    shards = []
    for pi, (aid, k, qs, level, argstr) in enumerate(graph_plans(quick)):
        old, new = ALPHABETS[aid]
        n = len(old) + len(new)
        for kind in ("w", "v"):
            if k < 3:
                shards.append((pi, kind, None))
            else:
                for first in rotate(range(n), seed):
                    shards.append((pi, kind, first))
    nev = max(len(hist_events(p)) for p in HIST_PAIRS)
    for pi in range(len(HIST_PAIRS)):
        for first in rotate(range(nev), seed):
            shards.append(("H", pi, first))
    return shards


def _graph_shard(arg):
    quick, (pi, kind, first) = arg
    if pi == "H":
        return _hist_shard(quick, kind, first)
    aid, k, qs, level, argstr = graph_plans(quick)[pi]
    old, new = ALPHABETS[aid]
    acc = Acc()
    g = Graph()
    comps = [g.component(e, acc) for e in old + new]
    nold = len(old)
    firsts = range(len(comps)) if first is None else [first]
    qtuples = list(itertools.product(qs, repeat=k))
    for i0 in firsts:
        for rest in itertools.product(range(len(comps)), repeat=k - 1):
            idx = (i0,) + rest
            if new and all(i < nold for i in idx):
                continue                      # belongs to the previous level
            cs = [comps[i] for i in idx]
            if any(c is None for c in cs):
                acc.count("skipped_successor_of_violating_state")
                continue
            v0 = acc.vcount
            for q in qtuples:
                g.event(kind, cs, q, acc, argstr)
                if acc.vcount > v0 + 20:      # same component tuple keeps failing: enough witnesses
                    if not acc.caps:
                        acc.cap("quantity tuples of a component tuple with > 20 violations not completed")
                    break
            if not argstr and acc.vcount == v0:
                g.deep_check(kind, cs, qtuples, acc)
            if acc.states % 4001 < len(qtuples):
                acc.sample(dict(mode="graph", expr=[kind, [[c[0], q] for c, q in zip(cs, qtuples[-2])]]))
    acc.info["max_depth_completed"] = level
    acc.count("A_events_level_%d%s" % (level, "_same_display_string" if aid == "L" else "_string_args" if argstr else ""),
              acc.states)
    return acc


# ================================================================== Part C: reuse histories
# Two live objects a, b (built once per history) go through a sequence of events: judged calls in several
# argument forms (also the same object twice in one call), calls with keyword overrides (their own result is
# not judged - keywords are outside the property - but they must not leak into the objects or into later
# calls), and in-place updates of `a` by the caller.  Every judged call must equal the reference prediction
# for the CURRENT state of the objects, the objects must come back unaltered from every call, and results
# obtained earlier must not change afterwards.
HIST_PAIRS = [("H2O@1", "NaCl@2.16"), ("D2O@1n", "Fe"), ("SiO2", "Co"), ("3.2NaCl@2.16", "SiO2"), ("Fe", "H2O@1"),
              # b is the same compound as a (equal structure) with another density / with a density
              ("H2O@1", "H2O@0.92"), ("SiO2", "SiO2@2.2")]
HIST_FORMS = {"ab": (("a", 1), ("b", 2)), "ba": (("b", 3), ("a", 0.5)), "aa": (("a", 1), ("a", 2)),
              "ab0": (("a", 1), ("b", 0)), "a0b": (("a", 0), ("b", 2))}
HIST_KW = dict(density=9.9, name="mixture")


def hist_events(pair):
    ev = [["call", kind, form] for kind in ("w", "v") for form in sorted(HIST_FORMS)]
    ev += [["kwcall", kind] for kind in ("w", "v")]
    ev += [["set", "density", 2.5], ["set", "natural_density", 1.7], ["set", "name", "A"], ["iadd"]]
    if len(BASE_ATOMS[pair[0]]) > 1:
        # a single-element Formula without density is given the element's density again by formula(f):
        # whether "without density" can be said at all for one element is left open
        ev.append(["set", "density", None])
    return ev


BASE_ATOMS = dict((t, a) for t, a, d in BASE_TABLE)
BASE_ATOMS.update(("3.2" + t, a) for t, a, d in BASE_TABLE)


def event_tag(ev):
    return "-".join(str(x) for x in ev[:2]) if ev[0] == "set" else ev[0]


class History(object):
    def __init__(self, graph=None):
        self.g = graph or Graph()
        self.env = self.g.env
        self.templates = {}

    def fresh(self, text):
        """A fresh object per history: formula(template) of a parsed template that is never used otherwise
        (parsing the text again for each of the histories would dominate the run time)."""
        if text not in self.templates:
            self.templates[text] = self.env.formula(text)
        return self.env.formula(self.templates[text])

    def natural_rho(self, atoms, value):
        m_iso = R.mass_of(atoms, self.env.amass)
        m_nat = sum(c * self.env.amass[NATURAL.get(k, k)] for k, c in atoms.items())
        return value * m_iso / m_nat

    def run(self, pair, events, acc=None):
        """Executes one history on fresh objects.  -> None or (index of the failing event, kind, cause,
        expected, observed).  Counts into acc when given."""
        env, g = self.env, self.g
        live = {"a": self.fresh(pair[0]), "b": self.fresh(pair[1])}
        ref = {"a": env.base_ref[pair[0]], "b": env.base_ref[pair[1]]}
        for f in live.values():
            observe(f)
        results = []
        for i, ev in enumerate(events):
            if ev[0] == "set":
                a = ref["a"]
                if ev[1] == "density":
                    live["a"].density = ev[2]
                    ref["a"] = R.Mat(a.atoms, ev[2])
                elif ev[1] == "natural_density":
                    live["a"].natural_density = ev[2]
                    ref["a"] = R.Mat(a.atoms, self.natural_rho(a.atoms, ev[2]))
                else:
                    live["a"].name = ev[2]
                continue
            if ev[0] == "iadd":
                f = live["a"]
                f += live["b"]
                live["a"] = f
                atoms = dict(ref["a"].atoms)
                for k, c in ref["b"].atoms.items():
                    atoms[k] = atoms.get(k, 0.0) + c
                ref["a"] = R.Mat(atoms, ref["a"].density)
                continue
            kind = ev[1]
            fn = env.mixw if kind == "w" else env.mixv
            form = HIST_FORMS["ab" if ev[0] == "kwcall" else ev[2]]
            args = []
            for n, q in form:
                args += [live[n], q]
            before = dict((n, (cheap_state(f), observe(f))) for n, f in live.items())
            got = exc = None
            try:
                got = fn(*args, **(HIST_KW if ev[0] == "kwcall" else {}))
            except Exception as e:
                exc = e
            if acc is not None:
                acc.evaluations += 1
                acc.transitions += 1
            for n in sorted(live):
                w = cheap_diff(before[n][0], cheap_state(live[n])) or observe_diff(before[n][1], observe(live[n]))
                if w:
                    return (i, kind + ("-kwcall" if ev[0] == "kwcall" else ""), "argument-altered:" + w,
                            "the objects passed to the call are unaltered",
                            "%s of object %s differs after the call" % (w, n))
            if ev[0] == "kwcall":
                continue
            refs = [ref[n] for n, q in form]
            qs = [q for n, q in form]
            want = R.mix(kind, list(zip(refs, qs)), env.amass)
            bad = g.judge(kind, refs, qs, want, got, exc)
            if bad[0] != "ok":
                bad = (bad[0], bad[1] + g.input_class(kind, args[0::2], refs, qs)) + tuple(bad[2:])
                exp = ("atoms (up to one common factor) %s density=%r" % (sorted(want.atoms.items()), want.density)
                       if isinstance(want, R.Mat) else str(want))
                return (i, kind, bad[1], exp, bad[2])
            if acc is not None:
                acc.outcome("C:" + bad[1])
            if got is not None:
                results.append((i, kind, got, observe(got)))
        for i, kind, got, seen in results:
            w = observe_diff(seen, observe(got))
            if w:
                return (i, kind, "result-changed-later:" + w, "a result is not changed by later events",
                        "%s of the result of event %d differs at the end of the history" % (w, i))
        return None

    def check(self, pair, events, acc):
        acc.states += 1
        nupd = sum(1 for e in events if e[0] in ("set", "iadd"))
        if events[-1][0] == "call" and (len(events) > 1):
            acc.nontrivial += 1
        bad = self.run(pair, events, acc)
        if bad is None:
            return True
        # the cause: the events that are individually necessary for the same failure
        events = [list(e) for e in events[:bad[0] + 1]]
        cause = bad[2]
        progress = True
        while progress:
            progress = False
            for j in range(len(events) - 2, -1, -1):
                trial = events[:j] + events[j + 1:]
                b2 = self.run(pair, trial)
                if b2 is not None and b2[2] == cause and b2[0] == len(trial) - 1:
                    events, bad, progress = trial, b2, True
                    break
        needs = sorted(set(event_tag(e) for e in events[:-1]))
        sig = "reuse:%s:%s:%s" % (bad[1], cause, "+".join("after-" + t for t in needs) if needs else "fresh-objects")
        acc.violation(sig, dict(mode="history", pair=list(pair), events=events), expected=bad[3], observed=bad[4],
                      standalone=history_code(pair, events, bad[3]))
        return False


def history_code(pair, events, expected):
    lines = ["from periodictable import formula, mix_by_weight, mix_by_volume",
             "a, b = formula(%r), formula(%r)" % (pair[0], pair[1])]
    for i, ev in enumerate(events):
        if ev[0] == "set":
            lines.append("a.%s = %r" % (ev[1], ev[2]))
        elif ev[0] == "iadd":
            lines.append("a += b")
        else:
            fn = "mix_by_weight" if ev[1] == "w" else "mix_by_volume"
            form = HIST_FORMS["ab" if ev[0] == "kwcall" else ev[2]]
            kw = "".join(", %s=%r" % kv for kv in sorted(HIST_KW.items())) if ev[0] == "kwcall" else ""
            lines.append("r%d = %s(%s%s)" % (i, fn, ", ".join("%s, %r" % nq for nq in form), kw))
    last = len(events) - 1
    lines.append("print(r%d.atoms, r%d.density, (a.structure, a.density, a.name), (b.structure, b.density, b.name))"
                 % (last, last))
    lines.append("# expected: %s" % expected)
    return "\n".join(lines) + "\n"


def hist_sequences(pair, first, depth):
    """All event sequences of length <= depth that start with event `first` and end with a call."""
    evs = hist_events(pair)
    for n in range(1, depth + 1):
        for rest in itertools.product(evs, repeat=n - 1):
            seq = [evs[first]] + list(rest)
            if seq[-1][0] in ("call", "kwcall"):
                yield seq


def hist_depth(quick):
    return 3 if quick else 4


def _hist_shard(quick, pi, first):
    acc = Acc()
    pair = HIST_PAIRS[pi]
    if first >= len(hist_events(pair)):
        return acc
    H = History()
    broken = []
    for seq in hist_sequences(pair, first, hist_depth(quick)):      # by length: prefixes first
        key = jdump(seq)
        if any(key.startswith(b) for b in broken):
            acc.count("skipped_successor_of_violating_state")
            continue
        if not H.check(pair, seq, acc):
            broken.append(key[:-1] + ",")
            if len(broken) > 20 and not acc.caps:
                acc.cap("histories of a shard with > 20 violations not completed")
                break
        if acc.states % 501 == 1:
            acc.sample(dict(mode="history", pair=list(pair), events=seq))
    acc.info["max_history_length"] = hist_depth(quick)
    acc.count("C_histories", acc.states)
    return acc


# ================================================================== Part B: string forms
def C(t): return ["c", t]
def P(kind, triples, last): return ["p", kind, [list(t) for t in triples], last]
def Q(fam, items): return ["q", fam, items]
def U(v, u, part): return ["u", v, u, part]
def G(q, n): return ["g", q, n]
def N(m, tag=None): return ["n", m, tag]


QSTR = ("0.0", "0.000001", "0.5", "1", "2", "3", "1000000")
PV = ("0.0", "0.000001", "0.5", "1", "2", "3", "10", "25", "50", "75", "97", "99.5", "100")
PV5 = ("0.0", "0.000001", "1", "25", "50", "99.5")
QPAIRS_QUICK = (("1", "1"), ("2", "3"), ("0.000001", "1000000"), ("1000000", "0.5"), ("0.0", "2"), ("3", "0.0"))
FAMILY = {"w": "pw", "v": "pv", "m": "massvol", "l": "layer"}


class Res(object):
    """Result of evaluating an AST through the calls it abbreviates."""
    __slots__ = ("kind", "f", "grams", "metres", "why", "code")

    def __init__(self, kind, f=None, grams=None, metres=None, why=None, code=None):
        self.kind, self.f, self.grams, self.metres, self.why, self.code = kind, f, grams, metres, why, code


class Strings(object):
    def __init__(self, env=None):
        self.env = env or Env()
        self.memo = {}
        self.fmemo = {}
        self.comps = {}
        self.ncalls = 0

    def comp(self, text):
        rec = self.comps.get(text)
        if rec is not None:
            f, snap = rec
            if f.structure is snap[0] and f.density == snap[1]:
                return f
        f = self.env.formula(text)
        self.ncalls += 1
        self.comps[text] = (f, (f.structure, f.density))
        return f

    # ---- the call a string abbreviates
    def evaluate(self, node, code):
        """-> Res('ok', f, grams, metres) | Res('error', why) | Res('excluded', why) | Res('callfail', why).
        `code` collects the lines of the equivalent python program."""
        env = self.env
        t = node[0]
        if t == "c":
            v = "c%d" % len(code)
            code.append("%s = formula(%r)" % (v, node[1]))
            return Res("ok", self.comp(node[1]), code=v)
        if t == "n":
            r = self.evaluate(node[1], code)
            if r.kind != "ok":
                return r
            if node[2]:
                try:
                    if node[2].endswith("n"):
                        r.f.natural_density = float(node[2][:-1])
                        code.append("%s.natural_density = %r" % (r.code, float(node[2][:-1])))
                    else:
                        r.f.density = float(node[2])
                        code.append("%s.density = %r" % (r.code, float(node[2])))
                except Exception as e:
                    return Res("callfail", why="density setter: %r" % e)
            return Res("ok", r.f, code=r.code)       # amounts of the inside do not carry over
        if t == "p":
            kind = node[1]
            vals = [v for v, sp, p in node[2]]
            cls = R.percent_class(vals)
            if cls == "over":
                return Res("error", why="percentages>100")
            if cls == "full" and sum(float(v) for v in vals) != 100.0:
                return Res("excluded", why="percentages sum to 100 only in exact arithmetic")
            rs = []
            for p in [p for v, sp, p in node[2]] + [node[3]]:
                r = self.evaluate(p, code)
                if r.kind != "ok":
                    return r
                rs.append(r)
            fl = [float(v) for v in vals]
            # the remainder goes to the last part; a remainder of zero is a zero quantity: the part vanishes
            qs = fl + [0.0 if cls == "full" else 100 - sum(fl)]
            return self._mix(kind, rs, qs, code)
        if t == "q":
            fam = node[1]
            rs, qs = [], []
            for it in node[2]:
                if it[0] == "u":
                    r = self.evaluate(it[3], code)
                    if r.kind != "ok":
                        return r
                    value, unit = float(it[1]), it[2]
                    if fam == "l":
                        q = value * R.LENGTH[unit]
                    elif unit in R.MASS:
                        q = value * R.MASS[unit]
                    else:
                        rho = r.f.density
                        if rho is None:
                            # "0 mL X" is translated to grams with the density of X before anything is mixed:
                            # the quantity of the corresponding call (0 x unknown) is not defined, so the text
                            # does not say whether this vanishes or is the documented missing-density error
                            return Res("excluded", why="zero volume UNIT of unknown density") if value == 0 \
                                else Res("error", why="volume-without-density")
                        q = value * R.VOLUME[unit] * R.CM3_PER_LITRE * rho
                else:
                    r = self.evaluate(it[1], code)
                    if r.kind != "ok":
                        return r
                    q = (r.metres if fam == "l" else r.grams) * (float(it[2]) if it[2] else 1)
                rs.append(r)
                qs.append(q)
            if not any(q > 0 for q in qs):
                return Res("excluded", why="all amounts zero")
            r = self._mix("v" if fam == "l" else "w", rs, qs, code)
            if r.kind == "ok":
                if fam == "l":
                    r.metres = sum(qs)
                else:
                    r.grams = sum(qs)
            return r
        raise MachineryError("bad node %r" % (node,))

    def _mix(self, kind, rs, qs, code):
        if kind == "v":
            for r, q in zip(rs, qs):
                if r.f.density is None and q != 0:       # a zero quantity vanishes, with or without density
                    return Res("error", why="volume-without-density")
        args = []
        for r, q in zip(rs, qs):
            args += [r.f, q]
        v = "m%d" % len(code)
        code.append("%s = %s(%s)" % (v, "mix_by_weight" if kind == "w" else "mix_by_volume",
                                     ", ".join("%s, %r" % (r.code, q) for r, q in zip(rs, qs))))
        try:
            self.ncalls += 1
            f = (self.env.mixw if kind == "w" else self.env.mixv)(*args)
        except Exception as e:
            return Res("callfail", why="%s: %s" % (type(e).__name__, e))
        return Res("ok", f, code=v)

    # ---- one case
    def run_one(self, node, lex):
        """-> (verdict, fail, info).  verdict in ok | error-ok | excluded | callfail | FAIL;
        fail = (check, expected, observed) when verdict == FAIL."""
        env = self.env
        code = []
        exp = self.evaluate(node, code)
        s = R.render(node, lex)
        info = dict(string=s, code=code, exp=exp)
        if exp.kind in ("excluded", "callfail"):
            return exp.kind, None, info
        self.ncalls += 1
        try:
            got = env.formula(s)
        except Exception as e:
            if exp.kind == "error":
                return "error-ok:" + exp.why, None, info
            return "FAIL", ("raises-" + type(e).__name__, self._expected(exp),
                            "%s: %s" % (type(e).__name__, e)), info
        if exp.kind == "error":
            return "FAIL", ("accepted-" + exp.why, "an exception (%s)" % exp.why, self._obs(got)), info
        try:
            gatoms, watoms = env.names(got.atoms), env.names(exp.f.atoms)
            gdens = got.density
        except Exception as e:
            return "FAIL", ("result-unreadable-" + type(e).__name__, self._expected(exp), repr(e)), info
        bad = R.compare_atoms(gatoms, watoms, env.amass, REL)
        if bad:
            return "FAIL", (bad[0], self._expected(exp), self._obs(got) + "  [" + bad[1] + "]"), info
        if not close(gdens, exp.f.density, REL):
            return "FAIL", ("density", self._expected(exp), self._obs(got)), info
        if exp.grams is not None:
            tm = getattr(got, "total_mass", None)
            if tm is None or not close(tm, exp.grams, REL):
                return "FAIL", ("total_mass", self._expected(exp), self._obs(got)), info
        if exp.metres is not None:
            th = getattr(got, "thickness", None)
            if th is None or not close(th, exp.metres, REL):
                return "FAIL", ("thickness", self._expected(exp), self._obs(got)), info
        return "ok", None, info

    def _expected(self, exp):
        if exp.kind == "error":
            return "an exception (%s)" % exp.why
        s = "same as the call: atoms (up to one common factor) %s density=%r" % (
            sorted((str(a), c) for a, c in exp.f.atoms.items()), exp.f.density)
        if exp.grams is not None:
            s += " total_mass=%r" % exp.grams
        if exp.metres is not None:
            s += " thickness=%r" % exp.metres
        return s

    def _obs(self, got):
        try:
            return "atoms=%s density=%r total_mass=%r thickness=%r" % (
                sorted((str(a), c) for a, c in got.atoms.items()), got.density,
                getattr(got, "total_mass", None), getattr(got, "thickness", None))
        except Exception as e:
            return "unreadable result: %r" % e

    def status(self, node, lex, acc):
        """Check one derivation (its sub-derivations first).  Returns the verdict; violations go to acc."""
        key = (jdump(node), lex["sep"], lex["cs"])
        if key in self.memo:
            return self.memo[key]
        for child in R.submixtures(node):
            if self.status(child, lex, acc) in ("FAIL", "skipped"):
                acc.count("B_skipped_parent_of_violating_subderivation")
                self.memo[key] = "skipped"
                return "skipped"
        n0 = self.ncalls
        verdict, fail, info = self.run_one(node, lex)
        if verdict == "FAIL":
            check = fail[0]
            mnode, mlex, left = self.minimise(node, lex, check)
            if left:
                verdict2, fail, info = self.run_one(mnode, mlex)
                if verdict2 != "FAIL" or fail[0] != check:
                    raise MachineryError("minimised case does not fail: %s" % R.render(mnode, mlex))
            left = self.generalise(mnode, mlex, check, left)
            # a cause that needs a parenthesised part lives in the handling of parts, whatever the outer family
            fam = "part" if "nested" in left else FAMILY[mnode[1]]
            sig = "string:%s:%s:%s" % (fam, check, "+".join(left) if left else "plain")
            snippet = ("from periodictable import formula, mix_by_weight, mix_by_volume\n"
                       "r = formula(%r)\nprint(r.atoms, r.density, getattr(r, 'total_mass', None), "
                       "getattr(r, 'thickness', None))\n" % info["string"])
            if info["exp"].kind == "ok":
                snippet += ("# the call it abbreviates:\n" + "\n".join(info["code"]) +
                            "\nprint(%s.atoms, %s.density)\n" % (info["exp"].code, info["exp"].code))
            snippet += "# expected: %s\n" % fail[1]
            acc.violation(sig, dict(mode="string", ast=mnode, lex=mlex, string=info["string"]),
                          expected=fail[1], observed=fail[2], standalone=snippet,
                          detail=None if mnode == node and mlex == lex else
                          "minimised from %r" % R.render(node, lex))
        acc.evaluations += self.ncalls - n0
        self.memo[key] = verdict
        return verdict

    def generalise(self, node, lex, check, left):
        """A spelling that is necessary for the failure is named by its shape ('%word' / 'word%') when every
        spelling of that shape fails in the same way - the cause is then the shape, not the word."""
        out = []
        for f in left:
            if f.split("=")[0] in ("first", "later") and f.split("=", 1)[1] != "%":
                sibs = [R.respell(node, f, i) for i in range(len(R.WEIGHT_WORDS))]
                sibs = [n for n in sibs if n is not None]
                if len(sibs) > 1 and all(self.fails(n, lex, check) for n in sibs):
                    f = f.split("=")[0] + "=" + R.spelling_class(f.split("=", 1)[1])
            out.append(f)
        return sorted(set(out))

    def fails(self, node, lex, check):
        key = (jdump(node), lex["sep"], lex["cs"], check)
        if key not in self.fmemo:
            try:
                verdict, fail, info = self.run_one(node, lex)
                self.fmemo[key] = verdict == "FAIL" and fail[0] == check
            except MachineryError:
                raise
            except Exception:
                self.fmemo[key] = False
        return self.fmemo[key]

    def minimise(self, node, lex, check):
        """Greedy delta-debugging over the deviations from the canonical spelling (spacing, spellings,
        units, tag, nesting, grouping): a deviation is taken back whenever the case keeps failing the
        same check without it.  Returns the 1-minimal failing case and the deviations it still has -
        they name the cause.  Every intermediate case is a member of the documented grammar."""
        lex = dict(lex)
        progress = True
        while progress:
            progress = False
            for f in ("sep", "cs"):
                if lex[f] != CANON[f]:
                    l2 = dict(lex)
                    l2[f] = CANON[f]
                    if self.fails(node, l2, check):
                        lex, progress = l2, True
            for f in sorted(R.features(node)):
                n2 = R.revert(node, f)
                if n2 != node and self.fails(n2, lex, check):
                    node, progress = n2, True
                    break
        left = sorted(R.features(node)) + ["%s=%r" % (f, lex[f]) for f in ("sep", "cs") if lex[f] != CANON[f]]
        return node, lex, left


# ---- derivation blocks
def lexes(seps=R.SEPARATORS, css=("", " ")):
    return [dict(sep=s, cs=c) for s in seps for c in css]


CANON = dict(sep=" // ", cs="")


def block_spellings(quick):
    out = []
    sets = [("Fe", "Co", "Ti", "Ni"), ("NaCl@2.16", "H2O@1", "D2O@1n", "Fe")]
    vals = ("10", "15", "20")
    for kind, sps in (("w", R.WEIGHT_SPELLINGS), ("v", R.VOLUME_SPELLINGS)):
        later_all = ("%",) + sps
        for cset in sets:
            for first in sps:
                for nexp in (1, 2, 3):
                    if quick:
                        laters = [(l,) * (nexp - 1) for l in later_all] if nexp > 1 else [()]
                    else:
                        laters = list(itertools.product(later_all, repeat=nexp - 1))
                    for later in laters:
                        sp = (first,) + tuple(later)
                        node = P(kind, [(vals[i], sp[i], C(cset[i])) for i in range(nexp)], C(cset[nexp]))
                        for lex in lexes():
                            out.append((node, lex))
    return out


def block_percentages(quick):
    out = []
    sets = [("Fe", "Co", "Ti", "Ni"), ("H2O@1", "SiO2", "NaCl@2.16", "D2O@1n"), ("SiO2", "Fe", "D2O@1n", "Co")]
    for kind in ("w", "v"):
        for cset in sets:
            for nexp in (1, 2, 3):
                pv = PV5 if (quick and nexp == 3) else PV
                for vals in itertools.product(pv, repeat=nexp):
                    sp = (R.CANON_SPELLING[kind],) + ("%",) * (nexp - 1)
                    node = P(kind, [(vals[i], sp[i], C(cset[i])) for i in range(nexp)], C(cset[nexp]))
                    out.append((node, CANON))
    return out


def block_units(quick):
    out = []
    # one part: every unit, every quantity, with and without space between number and unit
    for fam, units in (("m", R.MV_ORDER), ("l", R.LENGTH_ORDER)):
        for u in units:
            for v in QSTR[1:]:
                for c in ("Fe", "H2O@1", "NaCl@2.16", "D2O@1n", "SiO2"):
                    for cs in ("", " "):
                        out.append((Q(fam, [U(v, u, C(c))]), dict(sep=" // ", cs=cs)))
    # two parts: every ordered unit pair of a family
    for fam, units in (("m", R.MV_ORDER), ("l", R.LENGTH_ORDER)):
        for u1 in units:
            for u2 in units:
                qpairs = QPAIRS_QUICK if quick else [p for p in itertools.product(QSTR, repeat=2)
                                                     if p != ("0.0", "0.0")]
                for c1, c2 in (("NaCl@2.16", "H2O@1"), ("Fe", "D2O@1n")):
                    for v1, v2 in qpairs:
                        out.append((Q(fam, [U(v1, u1, C(c1)), U(v2, u2, C(c2))]), CANON))
                for c1, c2 in (("SiO2", "Fe"), ("Fe", "SiO2")):
                    out.append((Q(fam, [U("1", u1, C(c1)), U("2", u2, C(c2))]), CANON))
                    # a zero amount of the part without density (vanishes; a zero volume UNIT is left open)
                    v1, v2 = ("0.0", "2") if c1 == "SiO2" else ("2", "0.0")
                    out.append((Q(fam, [U(v1, u1, C(c1)), U(v2, u2, C(c2))]), CANON))
                    out.append((Q(fam, [U(v1, u1, C(c1)), U(v2, u2, C(c2)), U("3", u1, C("Co"))]), CANON))
                for lex in lexes():
                    out.append((Q(fam, [U("1", u1, C("NaCl@2.16")), U("2", u2, C("H2O@1"))]), lex))
    # three parts: every unit triple
    triples = (("1", "2", "3"),) if quick else (("1", "2", "3"), ("1000000", "0.000001", "0.5"))
    for fam, units in (("m", R.MV_ORDER), ("l", R.LENGTH_ORDER)):
        for us in itertools.product(units, repeat=3):
            for vs in triples:
                out.append((Q(fam, [U(vs[i], us[i], C(("Fe", "H2O@1", "NaCl@2.16")[i])) for i in range(3)]), CANON))
    return out


INNER = [
    P("w", [("10", "wt%", C("NaCl@2.16"))], C("H2O@1")),
    P("v", [("10", "vol%", C("Fe"))], C("Co")),
    P("v", [("30", "vol%", C("D2O@1n"))], C("H2O@1")),
    Q("m", [U("1", "g", C("Fe")), U("2", "mL", C("Co"))]),
    Q("l", [U("1", "nm", C("Fe")), U("2", "nm", C("Ti"))]),
    P("w", [("10", "wt%", C("SiO2"))], C("Fe")),                 # no density
    Q("m", [U("1", "g", C("SiO2")), U("2", "g", C("Fe"))]),      # no density
]
TAGS = (None, "2.5", "1.5n")


def outer_forms(X):
    out = []
    for kind in ("w", "v"):
        sp = R.CANON_SPELLING[kind]
        out.append(P(kind, [("20", sp, X)], C("H2O@1")))
        out.append(P(kind, [("20", sp, C("Fe")), ("30", "%", X)], C("H2O@1")))
        out.append(P(kind, [("20", sp, C("Fe"))], X))
    for fam, u, other in (("m", "g", "g"), ("m", "mL", "g"), ("l", "nm", "nm")):
        out.append(Q(fam, [U("5", u, X)]))
        out.append(Q(fam, [U("5", u, X), U("2", other, C("Fe"))]))
        out.append(Q(fam, [U("2", other, C("Fe")), U("5", u, X)]))
    return out


def block_nested(quick):
    out = []
    for m in INNER:
        for tag in TAGS:
            for node in outer_forms(N(m, tag)):
                for sep in R.SEPARATORS:
                    out.append((node, dict(sep=sep, cs="")))
                out.append((node, dict(sep=" // ", cs=" ")))
    if not quick:      # nesting depth 3
        for m in (INNER[0], INNER[4], INNER[6]):
            for tag in (None, "2.5"):
                forms = outer_forms(N(m, tag))
                for mid in (forms[0], forms[5], forms[11], forms[13]):
                    for tag2 in (None, "2.5"):
                        for node in outer_forms(N(mid, tag2)):
                            out.append((node, CANON))
    return out


def block_groups(quick):
    out = []
    for fam, units, base, alt in (("m", R.MV_ORDER, "g", "mg"), ("l", R.LENGTH_ORDER, "nm", "um")):
        inners = [Q(fam, [U("1", u, C("Fe"))]) for u in units]
        inners += [Q(fam, [U("1", base, C("Fe")), U("2", u, C("Ni"))]) for u in units]
        inners.append(Q(fam, [U("0.5", alt, C("SiO2" if fam == "m" else "Ti")), U("3", base, C("H2O@1"))]))
        other = U("2", base, C("Co"))
        for inner in inners:
            forms = []
            for n in (None, "2", "3"):
                if n:
                    forms.append(Q(fam, [G(inner, n)]))
                forms.append(Q(fam, [G(inner, n), other]))
                forms.append(Q(fam, [other, G(inner, n)]))
                forms.append(Q(fam, [G(inner, n), G(inners[-1], "2")]))
            forms.append(Q(fam, [G(Q(fam, [G(inner, "2"), U("1", base, C("Ti"))]), "3")]))
            forms.append(Q(fam, [other, G(Q(fam, [U("1", base, C("Ti")), G(inner, "2")]), "3")]))
            if not quick:
                forms.append(Q(fam, [G(Q(fam, [G(Q(fam, [G(inner, "3"), other]), "2")]), "2"), other]))
            for node in forms:
                for sep in R.SEPARATORS:
                    out.append((node, dict(sep=sep, cs="")))
    return out


COLLISION_COMPOUNDS = ("WO3@7.16", "W2C", "MoS2@5.06", "MgO@3.58", "MnO2", "V2O5@3.36", "VN@6.13", "UO2@10.97",
                       "GeO2", "KCl@1.98", "LiF@2.64", "NH3", "CO2")
# parts whose formula unit is written scaled (a leading count directly after the blank that follows % or a unit)
SCALED_PARTS = ("3.2H2O@1", "2Fe", "0.5NaCl@2.16", "2MgO@3.58", "2SiO2")


def collision_components(quick):
    """Compounds whose leading symbol collides with a percent word or a unit spelling: every element of the
    library's table whose symbol begins (case-insensitively) with a letter that begins one of those words
    (thorough: every element), with its own density or tagged @5 when it has none, plus a few compounds."""
    pt = load_pt()
    out = []
    for el in pt.elements:
        if el.number > 0 and (not quick or R.collides(el.symbol)):
            out.append(el.symbol if el.density is not None else el.symbol + "@5")
    return out + [c for c in COLLISION_COMPOUNDS]


def block_collisions(quick):
    return part_forms(collision_components(quick))


def block_scaled(quick):
    return part_forms(SCALED_PARTS)


def part_forms(texts):
    """One part X directly after every percent spelling, the bare % and every unit, as first / later / last part."""
    out = []
    css = [dict(sep=" // ", cs=c) for c in ("", " ")]
    for X in [C(t) for t in texts]:
        forms = []
        for kind, sps in (("w", R.WEIGHT_SPELLINGS), ("v", R.VOLUME_SPELLINGS)):
            canon = R.CANON_SPELLING[kind]
            for sp in sps:                                   # directly after every spelling of the first part
                forms.append(P(kind, [("10", sp, X)], C("Ni")))
            for sp in ("%",) + sps:                          # after the bare % and every spelling of a later part
                forms.append(P(kind, [("10", canon, C("Fe")), ("15", sp, X)], C("Ni")))
            forms.append(P(kind, [("10", canon, C("Fe")), ("15", "%", C("Co")), ("20", "%", X)], C("Ni")))
            forms.append(P(kind, [("10", canon, C("Fe"))], X))                         # as the remainder
            forms.append(P(kind, [("10", canon, C("Fe")), ("15", "%", C("Co"))], X))
        for fam, units, base in (("m", R.MV_ORDER, "g"), ("l", R.LENGTH_ORDER, "nm")):
            for u in units:                                  # directly after every unit, first / later / last part
                forms.append(Q(fam, [U("2", u, X)]))
                forms.append(Q(fam, [U("2", u, X), U("3", base, C("Fe"))]))
                forms.append(Q(fam, [U("3", base, C("Fe")), U("2", u, X)]))
        for node in forms:
            for lex in css:
                out.append((node, lex))
    return out


# the same compound twice in one mixture with different densities (thermal and native oxide, dense and porous
# layer, water and ice), also once with and once without a density
REPEAT_SETS = (("SiO2@2.2", "Si", "SiO2@2.65"), ("H2O@1", "NaCl@2.16", "H2O@0.92"), ("SiO2", "Fe", "SiO2@2.2"))


def block_repeats(quick):
    out = []
    for cset in REPEAT_SETS:
        X1, Y, X2 = [C(t) for t in cset]
        orders = [(X1, Y, X2), (X1, X2, Y), (Y, X1, X2), (X2, Y, X1), (X2, X1, Y), (Y, X2, X1)]
        forms = []
        for a, b, c in orders:
            for kind in ("w", "v"):
                sp = R.CANON_SPELLING[kind]
                forms.append(P(kind, [("20", sp, a), ("30", "%", b)], c))
                forms.append(P(kind, [("50", sp, a), ("50", "%", b)], c))        # remainder zero: c vanishes
            for fam, units in (("m", ("g", "mL", "kg")), ("l", ("nm", "um"))):
                for u1 in units:
                    for u3 in units:
                        forms.append(Q(fam, [U("10", u1, a), U("5", units[0], b), U("2", u3, c)]))
                g2 = Q(fam, [U("10", units[0], a), U("5", units[0], b)])
                forms.append(Q(fam, [G(g2, "3"), U("2", units[0], c)]))                # repeat across a group
                forms.append(Q(fam, [U("2", units[0], c), G(g2, None)]))
                forms.append(Q(fam, [G(Q(fam, [U("10", units[0], a), U("5", units[0], b), U("2", units[0], c)]), "2")]))
                forms.append(Q(fam, [U("5", units[0], N(g2)), U("2", units[0], c)]))    # repeat across a nested part
            for kind in ("w", "v"):
                sp = R.CANON_SPELLING[kind]
                inner = N(P(kind, [("40", sp, a)], b))
                forms.append(P(kind, [("20", sp, inner)], c))
                forms.append(P(kind, [("20", sp, c)], inner))
        for a, c in ((X1, X2), (X2, X1)):                       # nothing but the repeated compound
            for kind in ("w", "v"):
                forms.append(P(kind, [("20", R.CANON_SPELLING[kind], a)], c))
            for fam, u in (("m", "g"), ("m", "mL"), ("l", "nm")):
                forms.append(Q(fam, [U("10", u, a), U("2", u, c)]))
        for node in forms:
            out.append((node, CANON))
    return out


BLOCKS = (("repeats", block_repeats), ("collisions", block_collisions), ("scaled", block_scaled), ("spellings", block_spellings), ("percentages", block_percentages), ("units", block_units),
          ("nested", block_nested), ("groups", block_groups))


def string_cases(quick):
    seen = set()
    out = []
    for name, fn in BLOCKS:
        n = 0
        for node, lex in fn(quick):
            key = (jdump(node), lex["sep"], lex["cs"])
            if key in seen:
                continue
            seen.add(key)
            out.append((name, node, lex))
            n += 1
    return out


def ast_depth(node):
    t = node[0]
    if t == "c":
        return 0
    if t == "n":
        return ast_depth(node[1])
    if t == "p":
        return 1 + max(ast_depth(p) for p in [p for v, sp, p in node[2]] + [node[3]])
    return 1 + max(ast_depth(it[3]) if it[0] == "u" else ast_depth(it[1]) for it in node[2])


def positive_parts(node):
    if node[0] == "p":
        return sum(1 for v, sp, p in node[2] if float(v) > 0) + (R.percent_class([v for v, sp, p in node[2]]) == "ok")
    return sum(1 for it in node[2] if it[0] == "g" or float(it[1]) > 0)


def _string_shard(cases):
    acc = Acc()
    S = Strings()
    for name, node, lex in cases:
        verdict = S.status(node, lex, acc)
        acc.states += 1
        acc.transitions += 1
        acc.count("B_cases_" + name)
        acc.info["max_string_nesting"] = max(acc.info.get("max_string_nesting", 0), ast_depth(node))
        if verdict.startswith("error-ok") or (verdict == "ok" and positive_parts(node) >= 2):
            acc.nontrivial += 1
        acc.outcome("B:%s:%s" % (FAMILY[node[1]], verdict))
        if acc.states % 997 == 1:
            acc.sample(dict(mode="string", string=R.render(node, lex), verdict=verdict))
    return acc


# ================================================================== driver
def run(ctx):
    quick = ctx.quick
    gshards = [(quick, s) for s in graph_shards(quick, ctx.seed)]
    cases = rotate(string_cases(quick), ctx.seed)
    sshards = chunks(cases, max(1, len(cases) // 400))
    gres = ctx.pmap(_graph_shard, gshards, "C11 graph")
    acc = ctx.acc
    ctx.log("graph done: %d events" % acc.transitions)
    if acc.viol:
        # the calls are the reference route of the string forms: no successors of a violating state
        acc.cap("string forms not explored: the call forms they abbreviate violate (%s)" % ", ".join(sorted(acc.viol)))
        sres = []
    else:
        sres = ctx.pmap(_string_shard, sshards, "C11 strings")
    picks = [r.samples[0] for r in gres if r.samples][:6] + [r.samples[len(r.samples) // 2] for r in sres if r.samples][:6]
    acc.samples = picks
    acc.traces = acc.transitions
    acc.info["string_cases"] = len(cases)
    acc.info["graph_shards"] = len(gshards)
    if not any(k.startswith("A:ok:density") for k in acc.outcomes) and not acc.viol:
        raise MachineryError("vacuous exploration: no mixture with a density was ever confirmed")


def replay(ctx, case, signature=None):
    acc = ctx.acc
    if case.get("mode") == "graph":
        g = Graph()
        kind, parts = case["expr"]
        comps = [g.component(c, acc) for c, q in parts]
        if any(c is None for c in comps):
            return
        g.event(kind, comps, [q for c, q in parts], acc, case.get("argstr", False), deep=True)
    elif case.get("mode") == "history":
        History().check(tuple(case["pair"]), case["events"], acc)
    elif case.get("mode") == "string":
        Strings().status(case["ast"], case["lex"], acc)
    else:
        raise MachineryError("unknown replay case %r" % (case,))
