"""C19 - Hill form is a canonical, composition-preserving normal form
(E1, permutation / grouping graph; DESIGN section 4, C19).

A *class* is a multiset of entries (atom spelling, count) - all formulas with those total atom
counts.  Its members are every way the framework knows to write that class down:
    struct  formula(nested list) for every distinct permutation of the entries and every grouping
            (mc.ref.hill.groupings: contiguous blocks, multiplier 1 or 2, nested)
    parse   the same trees printed as strings and parsed (subset stated in META.bound)
    dict    formula({atom: total}) in every insertion order of the distinct atoms
    arith   c1*formula(a1) + c2*formula(a2) + ..., the same with +=, and 2*(half the sum)
Oracle per member f (h = f.hill):
    (a) h.atoms == f.atoms                                    hill-atoms-differ
    (b) h is a flat list of distinct atoms in an order that breaks none of the rules of the
        statement (mc.ref.hill.must_precede; pairs the statement leaves open are not judged)
    (c) canonicity: h == h0 and h0 == h and str(h) == str(h0) for the first member's h0
    (d) idempotence: h.hill == h
    (e) once per class: the string written in the order of h0 (own printer), parsed, == its own
        Hill form (both directions of ==)
Members whose own atoms are not the intended totals (a parser / operator defect: C01, C02) are
not members of the class: they are skipped and reported as a cap."""
import itertools
from ..common import Acc, load_pt, close, chunks, rotate, jdump, MachineryError
from ..ref import hill as R

# token, element symbol, mass number (0 = natural), charge, own symbol (D, T)
ALPHABET = [
    ("C", "C", 0, 0, False), ("H", "H", 0, 0, False), ("D", "H", 2, 0, True), ("T", "H", 3, 0, True),
    ("H[1]", "H", 1, 0, False), ("H[2]", "H", 2, 0, True), ("O", "O", 0, 0, False),
    ("O[18]", "O", 18, 0, False), ("O[16]", "O", 16, 0, False), ("Ca", "Ca", 0, 0, False),
    ("Cl", "Cl", 0, 0, False), ("Co", "Co", 0, 0, False), ("Cu", "Cu", 0, 0, False),
    ("Fe{2+}", "Fe", 0, 2, False), ("Fe{3+}", "Fe", 0, 3, False), ("Fe[56]{2+}", "Fe", 56, 2, False),
    ("Fe[54]{2+}", "Fe", 54, 2, False), ("Cl{-}", "Cl", 0, -1, False), ("C[13]", "C", 13, 0, False),
    ("C{4+}", "C", 0, 4, False),
    # not in the design's list: the only way to have mass numbers of different width inside one
    # element of this alphabet (needed for the '%4d' -> '%d' mutation of the sort key)
    ("C[9]", "C", 9, 0, False),
]
COUNTS = (1, 2, 0.5)
TOK = dict((a[0], a) for a in ALPHABET)

META = dict(
    level="model_checking", engine="E1",
    technique="bounded-exhaustive enumeration of every spelling (order, grouping, constructor) of every small atom multiset",
    rule=("classes = all multisets of n entries (atom spelling, count) over 21 spellings (20 atoms: D and H[2] are "
          "one atom) x counts {1, 2, 0.5}; members of a class = every distinct permutation x every grouping "
          "(contiguous blocks, multiplier 1 or 2 with the inner counts divided, nested) built from a nested list, "
          "the stated subset of them also printed and parsed, every insertion order of the dict constructor, and "
          "four arithmetic spellings per permutation (one of them reading .hill and str() of every intermediate before use).  Distinct = distinct (class, member spelling).  Non-trivial = "
          "a member of a class with >= 2 distinct atoms (the sort has something to order)."),
    bound=dict(
        quick=("classes of n <= 3 entries.  dict (every insertion order), arith (4 spellings x every permutation), "
               "struct flat x every permutation: complete.  struct groupings: n <= 2 all; n = 3 all 15 per permutation "
               "for classes with all counts 1, the 7 single-level ones for the others.  parse: n <= 2 every permutation "
               "x every grouping; n = 3: classes with all counts 1 every permutation flat and every grouping of the first "
               "permutation; check (e) (the string written in the order of the Hill form) for every class of n <= 2 and "
               "for the n = 3 classes with counts all 1 or {2, 1, 0.5}"),
        thorough=("classes of n <= 4 entries.  n <= 3: struct (every permutation x all groupings), dict, arith complete; "
                  "parse: n <= 2 complete, n = 3 every permutation flat for every class, every permutation x every "
                  "grouping for all-ones classes, every class once in Hill order.  n = 4: struct flat x every "
                  "permutation and dict in every insertion order for every class; all 93 groupings per permutation "
                  "for all-ones classes; arith and the Hill-order string for all-ones classes and classes with counts "
                  "{2, 1, 1, 0.5}; parse for all-ones classes: every permutation flat, every single-level grouping of "
                  "the first permutation")),
    assumptions=[
        "the order of D and T is not judged (symbol 'D'/'T' vs. hydrogen isotopes by mass number); only canonicity, "
        "composition and idempotence are required of formulas containing them",
        "the order of different charge states of one nuclide and of a natural element against its own isotopes is "
        "not judged (the statement orders isotopes of one element by mass number and nothing else); only canonicity",
        "'a formula already written in that order' is the string whose atoms are listed in the order of the class's "
        "Hill form as produced by the library (after that order passed the order rules), printed by the framework's "
        "own printer without separators",
        "Hill's refinement 'without carbon everything is alphabetical' is not what the statement says (C first, H "
        "second, unconditionally)",
        "equality is Formula.__eq__ as documented (structure equality), evaluated in both directions",
        "counts are dyadic rationals, so regrouped totals are exact",
        "one atom beyond the design's list (C[9]) so that mass numbers of different width occur in one element",
    ],
    level_text=("every member of every class inside the bound was built on the real implementation and its Hill form "
                "compared with the reference order rules, with the Hill form of every other member of its class, with "
                "its own Hill form and with the parsed string written in that order; nothing is claimed for atoms "
                "outside the alphabet or larger formulas"),
    level_note="trusted: mc.ref.hill (order rules, grouping generator, printer), Formula.atoms, dict equality",
)


# ------------------------------------------------------------------ environment
class Env(object):
    def __init__(self):
        pt = load_pt()
        from periodictable import formula
        self.pt, self.formula = pt, formula
        self.atom = {}
        self.desc = {}       # id(atom) -> descriptor (sym, A, q, own)
        self.first_token = {}
        for tok, sym, A, q, own in ALPHABET:
            a = getattr(pt, sym)
            if A:
                a = a[A]
            if q:
                a = a.ion[q]
            self.atom[tok] = a
            self.desc[id(a)] = (sym, A, q, own)
            self.first_token.setdefault(id(a), tok)
        if self.atom["D"] is not self.atom["H[2]"]:
            raise MachineryError("D and H[2] are expected to be one atom")

    def pyname(self, tok):
        _, sym, A, q, own = TOK[tok]
        s = "pt.%s" % sym + ("[%d]" % A if A else "")
        if tok in ("D", "T"):
            s = "pt." + tok
        return s + (".ion[%d]" % q if q else "")


_ENV = None
def env():
    global _ENV
    if _ENV is None:
        _ENV = Env()
    return _ENV


# ------------------------------------------------------------------ members
def _tree_struct(E, tree):
    return [(c, _tree_struct(E, x) if isinstance(x, list) else E.atom[x]) for c, x in tree]


def _tree_code(E, tree):
    return "[" + ", ".join("(%r, %s)" % (c, _tree_code(E, x) if isinstance(x, list) else E.pyname(x))
                           for c, x in tree) + "]"


def build(E, spec):
    """spec: ['struct', tree] | ['parse', text] | ['dict', [[tok, total], ...]] | ['arith', kind, [[tok, count], ...]]"""
    kind = spec[0]
    F = E.formula
    if kind == "struct":
        return F(_tree_struct(E, spec[1]))
    if kind == "parse":
        return F(spec[1])
    if kind == "dict":
        d = {}
        for tok, c in spec[1]:
            d[E.atom[tok]] = c
        return F(d)
    if kind == "arith":
        how, seq = spec[1], spec[2]
        if how == "add":
            f = None
            for tok, c in seq:
                g = c * F(E.atom[tok])
                f = g if f is None else f + g
            return f
        if how == "iadd":
            f = F()
            for tok, c in seq:
                f += c * F(E.atom[tok])
            return f
        if how == "twice":
            f = None
            for tok, c in seq:
                g = (c / 2) * F(E.atom[tok])
                f = g if f is None else f + g
            return 2 * f
        if how == "twice-observed":
            # the same, but the Hill form and the text of every intermediate are read BEFORE it is used as
            # an operand (a memoised Hill form must not be handed on to n*f, f+g)
            f = None
            for tok, c in seq:
                a = F(E.atom[tok]); a.hill; str(a)
                g = (c / 2) * a; g.hill; str(g)
                f = g if f is None else f + g
                f.hill; str(f)
            return 2 * f
    raise MachineryError("unknown member spec %r" % (spec,))


def code(E, spec):
    kind = spec[0]
    if kind == "struct":
        return "formula(%s)" % _tree_code(E, spec[1])
    if kind == "parse":
        return "formula(%r)" % spec[1]
    if kind == "dict":
        return "formula({%s})" % ", ".join("%s: %r" % (E.pyname(t), c) for t, c in spec[1])
    how, seq = spec[1], spec[2]
    if how == "add":
        return " + ".join("%r*formula(%s)" % (c, E.pyname(t)) for t, c in seq)
    if how == "iadd":
        return "sum_iadd([%s])" % ", ".join("%r*formula(%s)" % (c, E.pyname(t)) for t, c in seq)
    if how == "twice-observed":
        return "twice_observed([%s])" % ", ".join("(%r, %s)" % (c / 2, E.pyname(t)) for t, c in seq)
    return "2*(%s)" % " + ".join("%r*formula(%s)" % (c / 2, E.pyname(t)) for t, c in seq)


PRELUDE = ("import periodictable as pt\nfrom periodictable import formula\n"
           "def sum_iadd(parts):\n    f = formula()\n    for p in parts: f += p\n    return f\n"
           "def twice_observed(parts):\n    f = None\n    for c, a in parts:\n        a = formula(a); a.hill; str(a)\n"
           "        g = c*a; g.hill; str(g)\n        f = g if f is None else f + g\n        f.hill; str(f)\n    return 2*f\n")


def _flat(seq):
    return [[c, t] for t, c in seq]


def plan(n, tier, entries):
    """Which spellings a class of n entries gets (this IS the bound; META.bound describes it)."""
    ones = all(c == 1 for t, c in entries)
    mixed = sorted(c for t, c in entries) == [0.5, 1, 1, 2]
    quick = tier == "quick"
    if n <= 2:
        return dict(group="all", arith=True, parse_flat=True, parse_group="all", parse_hill=True)
    if n == 3 and quick:
        distinct = sorted(c for t, c in entries) == [0.5, 1, 2]
        return dict(group="all" if ones else "single", arith=True, parse_flat=ones,
                    parse_group="first" if ones else None, parse_hill=ones or distinct)
    if n == 3:
        return dict(group="all", arith=True, parse_flat=True, parse_group="all" if ones else None, parse_hill=True)
    return dict(group="all" if ones else "flat", arith=ones or mixed, parse_flat=ones,
                parse_group="first-single" if ones else None, parse_hill=ones or mixed)


def members(E, entries, n, tier, P):
    """Yield member specs of the class."""
    perms = sorted(set(itertools.permutations(entries)))
    tok = lambda t: t
    for pi, perm in enumerate(perms):
        seq = list(perm)
        if P["group"] == "all":
            trees = R.groupings(seq)
        elif P["group"] == "single":
            trees = R.groupings(seq, depth=1)
        else:
            trees = [_flat(seq)]
        for ti, tree in enumerate(trees):
            yield ["struct", tree]
            if ti == 0:
                p = P["parse_flat"]
            else:
                pg = P["parse_group"]
                p = (pg == "all" or (pg == "first" and pi == 0)
                     or (pg == "first-single" and pi == 0 and _depth(tree) <= 1))
            if p:
                yield ["parse", R.text(tree, tok)]
        if P["arith"]:
            for how in ("add", "iadd", "twice", "twice-observed"):
                yield ["arith", how, [[t, c] for t, c in seq]]
    tot = R.merged([(E.first_token[id(E.atom[t])], c) for t, c in entries])
    for order in itertools.permutations(list(tot)):
        yield ["dict", [[t, tot[t]] for t in order]]


def _depth(tree):
    d = 0
    for c, x in tree:
        if isinstance(x, list):
            d = max(d, 1 + _depth(x))
    return d


# ------------------------------------------------------------------ oracle
def _same_atoms(got, want):
    """Equality of two {atom: count} maps, zero counts ignored; atoms by identity."""
    if got == want:
        return True
    g = dict((id(a), c) for a, c in got.items() if c != 0)
    w = dict((id(a), c) for a, c in want.items() if c != 0)
    if set(g) != set(w):
        return False
    return all(close(g[k], w[k], 1e-12, 0) for k in w)


def _show_atoms(d):
    return sorted((str(a), float(c)) for a, c in d.items())


def _norm(s):
    """Container-blind nested form of a structure."""
    if isinstance(s, (list, tuple)):
        return tuple((float(c), _norm(x)) for c, x in s)
    return id(s)


def _typed_key(s):
    if isinstance(s, (list, tuple)):
        return (type(s).__name__,) + tuple((type(c).__name__, repr(c), _typed_key(x)) for c, x in s)
    return id(s)


class ClassCheck(object):
    """Runs the oracle over the members of one class."""
    def __init__(self, E, entries, acc):
        self.E, self.entries, self.acc = E, entries, acc
        self.want = {}
        for t, c in entries:
            a = E.atom[t]
            self.want[a] = self.want.get(a, 0) + c
        self.h0 = None
        self.h0_spec = None
        self.h0_str = None
        self.h0_order_ok = False
        self.seen = set()
        self.skipped = 0
        self.distinct_atoms = len(self.want)

    def case(self, *specs):
        return dict(entries=[[t, c] for t, c in self.entries], members=[list(s) for s in specs])

    def snippet(self, *specs):
        E = self.E
        lines = [PRELUDE.rstrip("\n")]
        for i, s in enumerate(specs):
            lines.append("f%d = %s" % (i, code(E, s)))
            lines.append("print(repr(f%d.structure), '->', repr(f%d.hill.structure), str(f%d.hill))" % (i, i, i))
        if len(specs) == 2:
            lines.append("assert f0.hill == f1.hill and str(f0.hill) == str(f1.hill)")
        else:
            lines.append("assert f0.hill.atoms == f0.atoms and f0.hill.hill == f0.hill")
        return "\n".join(lines) + "\n"

    def viol(self, sig, specs, expected, observed, standalone=None):
        self.acc.violation(sig, self.case(*specs), expected=expected, observed=observed,
                           standalone=standalone or self.snippet(*specs))

    def member(self, spec):
        E, acc = self.E, self.acc
        acc.evaluations += 1
        try:
            f = build(E, spec)
            A = f.atoms
        except Exception as e:
            # construction is C01 / C02; a member that cannot be built is not a member
            self.skipped += 1
            acc.count("members_not_built")
            return
        if not _same_atoms(A, self.want):
            self.skipped += 1
            acc.count("members_not_in_class")
            return
        acc.states += 1
        acc.traces += 1
        try:
            h = f.hill
            hA = h.atoms
            hs = h.structure
        except Exception as e:
            self.viol("hill-raises:%s" % type(e).__name__, [spec], "a Hill form", "%s: %s" % (type(e).__name__, e))
            return
        acc.evaluations += 1
        # (a) composition
        if not _same_atoms(hA, A):
            self.viol("hill-atoms-differ", [spec], _show_atoms(A), _show_atoms(hA))
            return
        key = _typed_key(hs)
        first_time = key not in self.seen
        if first_time:
            self.seen.add(key)
            # (b) shape and order
            if not all(not isinstance(x, (list, tuple)) for c, x in hs):
                self.viol("hill-not-flat", [spec], "a flat list of atoms", repr(hs))
                return
            ids = [id(x) for c, x in hs]
            if len(set(ids)) != len(ids) or any(i not in E.desc for i in ids):
                self.viol("hill-repeats-an-atom", [spec], "each atom once", repr(hs))
                return
            bad = R.order_violation([E.desc[i] for i in ids])
            if bad:
                rule, first, second = bad
                self.viol("hill-order:" + rule, [spec],
                          "%s before %s" % (_dstr(second), _dstr(first)), str(h))
                return
            # (d) idempotence
            try:
                hh = h.hill
                ok = (hh == h) and (h == hh)
            except Exception as e:
                self.viol("hill-of-hill-raises:%s" % type(e).__name__, [spec], "h.hill == h", repr(e))
                return
            acc.evaluations += 1
            if not ok:
                why = "list-vs-tuple" if _norm(hh.structure) == _norm(hs) else "order-or-counts"
                self.viol("idempotence:" + why, [spec], repr(hs), repr(hh.structure),
                          standalone=PRELUDE + "h = %s.hill\nprint(repr(h.structure), repr(h.hill.structure))\n"
                                               "assert h.hill == h\n" % code(E, spec))
                return
        # (c) canonicity
        if self.h0 is None:
            self.h0, self.h0_spec, self.h0_str = h, spec, str(h)
            self.h0_order_ok = True
            acc.outcome("hill-order:" + _order_class(E, hs))
            return
        if first_time:
            h0 = self.h0
            eq = (h == h0) and (h0 == h)
            if not eq:
                self.viol("canonicity:" + self._why_differs(hs, h0.structure), [self.h0_spec, spec],
                          "equal Hill forms: %s" % self.h0_str, str(h))
                return
            if str(h) != self.h0_str:
                self.viol("canonicity:equal-but-printed-differently", [self.h0_spec, spec], self.h0_str, str(h))
                return

    def _why_differs(self, s, s0):
        E = self.E
        a = [id(x) for c, x in s]
        b = [id(x) for c, x in s0]
        if a != b:
            for x, y in zip(a, b):
                if x != y:
                    return R.pair_class(E.desc[x], E.desc[y])
            return "length"
        if _norm(s) == _norm(s0):
            return "list-vs-tuple"
        return "counts"

    def finish(self):
        """(e) the string written in the order of the class's Hill form, parsed, == its own Hill form."""
        E, acc = self.E, self.acc
        if self.h0 is None or not self.h0_order_ok:
            return
        seq = [[E.first_token[id(x)], c] for c, x in self.h0.structure]
        try:
            s = R.text([[c, t] for t, c in seq], lambda t: t)
        except ValueError:
            return
        spec = ["parse", s]
        acc.evaluations += 1
        try:
            g = build(E, spec)
            if not _same_atoms(g.atoms, self.want):
                raise ValueError("other atoms")
        except Exception:
            acc.count("members_not_in_class")
            self.skipped += 1
            return
        acc.traces += 1
        try:
            gh = g.hill
            ok = (g == gh) and (gh == g)
        except Exception as e:
            self.viol("hill-raises:%s" % type(e).__name__, [spec], "a Hill form", repr(e))
            return
        if not ok:
            if _norm(g.structure) == _norm(gh.structure):
                why = "list-vs-tuple"
            elif [id(x) for c, x in g.structure] != [id(x) for c, x in gh.structure]:
                why = "order"
            else:
                why = "counts"
            self.viol("parsed-in-hill-order-ne-own-hill:" + why, [spec],
                      "formula(%r) == formula(%r).hill" % (s, s),
                      "%r vs %r" % (g.structure, gh.structure),
                      standalone="from periodictable import formula\nf = formula(%r)\n"
                                 "print(repr(f.structure), repr(f.hill.structure))\nassert f == f.hill\n" % s)


def _dstr(d):
    sym, A, q, own = d
    s = sym + ("[%d]" % A if A else "")
    if q:
        s += "{%s%s}" % (abs(q) if abs(q) > 1 else "", "+" if q > 0 else "-")
    return s


def _order_class(E, hs):
    """Coarse description of a Hill order (outcome histogram: shows the exploration is not vacuous)."""
    out = []
    for c, x in hs:
        sym, A, q, own = E.desc[id(x)]
        k = "own" if own else ("C" if sym == "C" else "H" if sym == "H" else "x")
        k += "i" if A and not own else ""
        k += "q" if q else ""
        out.append(k)
    return "-".join(out)


def check_class(E, entries, acc, tier):
    n = len(entries)
    P = plan(n, tier, entries)
    cc = ClassCheck(E, entries, acc)
    v0 = acc.vcount
    k = 0
    for spec in members(E, entries, n, tier, P):
        cc.member(spec)
        k += 1
        if acc.vcount != v0:
            break                # one report per class: the rest of a broken class adds only noise
    if acc.vcount == v0 and P["parse_hill"]:
        cc.finish()
    acc.transitions += k
    if cc.distinct_atoms >= 2:
        acc.nontrivial += k
    acc.info["max_members_per_class"] = max(acc.info.get("max_members_per_class", 0), k)
    return cc


def classes(n):
    types = [(a[0], c) for a in ALPHABET for c in COUNTS]
    return itertools.combinations_with_replacement(types, n)


def _shard(args):
    tier, n, idx, nshards = args
    E = env()
    acc = Acc()
    for i, entries in enumerate(classes(n)):
        if i % nshards != idx:
            continue
        cc = check_class(E, list(entries), acc, tier)
        acc.count("classes")
        acc.count("classes_n%d" % n)
        if cc.skipped:
            acc.count("classes_with_skipped_members")
        if i % 4001 == 0:
            acc.sample(dict(entries=[list(e) for e in entries],
                            hill=cc.h0_str, members=acc.info.get("max_members_per_class")))
    return acc


def run(ctx):
    nmax = 3 if ctx.quick else 4
    jobs = []
    for n in range(1, nmax + 1):
        nsh = {1: 1, 2: 4, 3: 64, 4: 256}[n]
        for idx in range(nsh):
            jobs.append((ctx.tier, n, idx, nsh))
    jobs = rotate(jobs, ctx.seed)
    # large shards first
    jobs.sort(key=lambda j: -j[1])
    ctx.pmap(_shard, jobs)
    acc = ctx.acc
    acc.info["max_entries_completed"] = nmax
    skipped = acc.info.get("members_not_in_class", 0) + acc.info.get("members_not_built", 0)
    if skipped:
        acc.cap("%d member spellings did not denote the intended atoms (construction is C01/C02) and were "
                "left out of their classes" % skipped)


def replay(ctx, case, signature=None):
    E = env()
    entries = [(t, c) for t, c in case["entries"]]
    cc = ClassCheck(E, entries, ctx.acc)
    specs = case["members"]
    if signature and signature.startswith("parsed-in-hill-order"):
        # member 0 is the parsed string itself: rebuild the class reference from it, then run (e)
        cc.member(specs[0])
        if not ctx.acc.viol:
            cc.finish()
        return
    for spec in specs:
        cc.member(spec)
