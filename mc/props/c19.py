"""C19 - Hill form is a canonical, composition-preserving normal form
(E1, permutation / grouping graph; DESIGN section 4, C19).

A *class* is a multiset of entries (atom spelling, count) - all formulas with those total atom
counts.  Its members are every way the framework knows to write that class down:
    struct  formula(nested list) for every distinct permutation of the entries and every grouping
            (mc.ref.hill.groupings: contiguous blocks, multiplier 1 or 2, nested)
    parse   the same trees printed as strings and parsed (subset stated in META.bound)
    dict    formula({atom: total}) in every insertion order of the distinct atoms
    arith   c1*formula(a1) + c2*formula(a2) + ..., the same with +=, and 2*(half the sum)
    derived formula(f) of a member (plain / after .hill and str() were read / of its Hill form),
            f.replace(X, a) of the member that holds a placeholder X for one entry, and
            formula(d) of a dict object that was already used for another formula and then
            updated in place by the caller
    nested  (block `nested`) groups inside groups, 2 and 3 deep, multiplier 1, 2, 3 or 0.5 at every level,
            groups of a single leaf or of nothing but another group included (mc.ref.hill.nestings): as a
            nested list, as a parsed string, as operators m*(f + n*(g + h)), and as operators with every
            operand observed (.atoms, .hill, str) before it is used
    precise (blocks `precise`, `precise-sums`, `nested-precise`) counts that need all 17 significant digits of a
            float (PRECISE: 1/3, 2/3, 0.1+0.2, 1e-3/7, 1e6/3, 123456789.123456789, 1e-12/3, 2**53-1) as leaf
            counts and as group multipliers, through every route above; the texts that are parsed write
            every count with the digits that read back as the same float
The expected composition of a class is the check's OWN count of what it built (the entries of the class;
for a nested tree: leaf count x the multipliers of ALL enclosing groups, exact Fractions, mc.ref.hill.totals)
- never the library's .atoms.
Oracle per member f (h = f.hill):
    (0) f.atoms == the expected composition.  If it is not: the library's structure of f is counted with the
        check's own counter; if that denotes the class, the constructor did its work and the library's
        count of its own structure is wrong              atoms-differ-from-structure:<flat|groups|groups-inside-groups>
        (otherwise the member was not built as intended - C01 / C02 - and is skipped, see below)
    (a) h.atoms == f.atoms, atoms compared as OBJECTS                      hill-atoms-differ[:cause]
    (a') the counts as listed in h.structure == the expected composition   hill-lists-other-counts-than-the-formula-has
    (0), (a), (a') are decided twice: roughly (1e-12, the signatures above), then TO THE LAST DIGIT
    (signature + :in-the-last-digits:total-of-one-term | total-up-to-rounding).  The exact total of an atom is
    a Fraction (own counter).  A count of the Hill form that is bit for bit the formula's own count is right.
    A total with ONE term and at most one rounded multiplication (at most two factors that are not powers of
    two) has one float value in any order of operations: f.atoms, h.atoms and the listed count must be that
    float.  Any other total (a sum of terms, a longer product) must be within 1e-15 relative of the exact one.
    (b) h is a flat list of distinct atoms in an order that breaks none of the rules of the
        statement (mc.ref.hill.must_precede; pairs the statement leaves open are not judged)
    (c) canonicity: h == h0 and h0 == h and str(h) == str(h0) for h0 = the Hill form of the first member whose
        .atoms are bit for bit the same ('two formulas with EQUAL atom counts'); two lists that differ only in
        the last digits of totals that are not determined (sums) are not judged
    (d) idempotence: h.hill == h
    (e) once per class: the string written in the order of h0 (own printer), parsed, == its own
        Hill form (both directions of ==)
    (f) reading .hill leaves f.structure as it was; formula(d) / formula(f) leave d / f as they were
Members whose own atoms are not the intended totals (a parser / operator defect: C01, C02) are
not members of the class: they are skipped and reported as a cap.

Blocks of classes:
    main     the design's alphabet x counts {1, 2, 0.5}, n <= 3 / 4 entries, public table
    special  the alphabet around the special symbols D and T (C, H, D, T in every spelling, their
             ions, symbols alphabetically before / between / after C, D, H, T), on THREE tables in
             one process: the public one, a private one with the same data and a private one with
             edited masses and densities - in all six orders (rotating with the class)
    tables   the main alphabet, n <= 2, on the same three tables in the same way
    nested   trees of 1-4 leaves with groups nested 2-3 deep (4 in the thorough tier), public table; the class
             of a tree is the multiset of its own totals, its first member the flat spelling of the totals
    precise        the atoms C, D, Fe[56]{2+} x (PRECISE + {1, 2, 0.5}), classes of n <= 2 entries with at least
                   one PRECISE count, every member as in main n <= 2, public table
    precise-sums   C, D x {1/3, 2/3, 0.1+0.2}, n = 3: sums of three terms in every order and grouping
    nested-precise one tree = one class (its totals are not floats): a leaf under 0-2 groups with every
                   assignment of PRECISE + {3} to its positions; two / three leaves in every bracketing with
                   every PRECISE value at every single position and at all positions at once"""
import itertools
import os
from fractions import Fraction
from ..common import Acc, load_pt, close, chunks, rotate, jdump, MachineryError
from ..ref import hill as R

# token, element symbol, mass number (0 = natural), charge, own symbol (D, T)
ALPHABET = [
    ("C", "C", 0, 0, False), ("H", "H", 0, 0, False), ("D", "H", 2, 0, True), ("T", "H", 3, 0, True),
    ("H[1]", "H", 1, 0, False), ("H[2]", "H", 2, 0, True), ("O", "O", 0, 0, False),
    ("O[18]", "O", 18, 0, False), ("O[16]", "O", 16, 0, False), ("Ca", "Ca", 0, 0, False),
    ("Cl", "Cl", 0, 0, False), ("Co", "Co", 0, 0, False), ("Cu", "Cu", 0, 0, False),
    ("Fe{2+}", "Fe", 0, 2, False), ("Fe{3+}", "Fe", 0, 3, False), ("Fe[56]{2+}", "Fe", 56, 2, False),
    ("Fe[54]{2+}", "Fe", 54, 2, False), ("Cl{-}", "Cl", 0, -1, False), ("C[13]", "C", 13, 0, False),
    ("C{4+}", "C", 0, 4, False),
    # not in the design's list: the only way to have mass numbers of different width inside one
    # element of this alphabet (needed for the '%4d' -> '%d' mutation of the sort key)
    ("C[9]", "C", 9, 0, False),
]
# The alphabet around D and T: carbon and hydrogen in every spelling (element, isotope, ion, isotope
# ion; D = H[2], T = H[3]) and symbols that sort before C (B), between C and D (Ca, Cl), between D and
# H (Dy), between H and T (He, O), after T (Ta, U: 'T' < 'Ta').
SPECIAL = [
    ("C", "C", 0, 0, False), ("H", "H", 0, 0, False), ("D", "H", 2, 0, True), ("T", "H", 3, 0, True),
    ("H[1]", "H", 1, 0, False), ("H[2]", "H", 2, 0, True), ("H[3]", "H", 3, 0, True),
    ("H{+}", "H", 0, 1, False), ("D{+}", "H", 2, 1, True), ("T{+}", "H", 3, 1, True),
    ("H[1]{+}", "H", 1, 1, False), ("C{4+}", "C", 0, 4, False), ("C[13]", "C", 13, 0, False),
    ("B", "B", 0, 0, False), ("Ca", "Ca", 0, 0, False), ("Cl", "Cl", 0, 0, False), ("Dy", "Dy", 0, 0, False),
    ("He", "He", 0, 0, False), ("Ta", "Ta", 0, 0, False), ("U", "U", 0, 0, False), ("O{2-}", "O", 0, -2, False),
]
COUNTS = (1, 2, 0.5)
# counts that need all 16-17 significant digits of a float: thirds, a sum with float noise, a seventh of a small
# power of ten, a third of a large one, a nine-digit number with nine decimals, a tiny count (normal, and so
# are its products up to four deep), and the largest odd integer a float holds.  (Some of their sums and
# products are short again - 1/3 + 2/3, 3 * (1/3) - most are not.)
PRECISE = (1 / 3., 2 / 3., 0.1 + 0.2, 1e-3 / 7, 1e6 / 3, 123456789.123456789, 1e-12 / 3, float(2 ** 53 - 1))
PRECISE_TOKENS = ("C", "D", "Fe[56]{2+}")
PRECISE_SUM_TOKENS = ("C", "D")
PRECISE_SUM_COUNTS = PRECISE[:3]
# a count that is determined only up to the rounding of the single operations (a sum of terms, a product of
# three or more inexact factors) may differ from the exactly computed total by this much (relative): nine
# roundings of 2**-53; the largest number of roundings one total goes through inside the bound is five (three
# leaves of one atom under three multipliers: three products per leaf, two additions)
REL_ROUNDING = Fraction(1, 10 ** 15)
TOK = dict((a[0], a) for a in ALPHABET + SPECIAL)
for _a in ALPHABET + SPECIAL:
    if TOK[_a[0]] != _a:
        raise MachineryError("token %s described twice" % _a[0])
TOKENS = []
for _a in ALPHABET + SPECIAL:
    if _a[0] not in TOKENS:
        TOKENS.append(_a[0])

# tables: the public one, a private one with the same data, a private one with data of its own
KINDS = ("public", "private", "private-edited")
KIND_ORDERS = list(itertools.permutations(KINDS))


def _edits():
    """[(symbol, mass number, mass factor)] for every element / isotope under the tokens, and density
    factors: the edited private table differs from the public one in every value a formula reads."""
    out, seen = [], set()
    for tok in TOKENS:
        _, sym, A, q, own = TOK[tok]
        for key in ((sym, 0), (sym, A)):
            if key not in seen:
                seen.add(key)
                out.append((key[0], key[1], 1.0 + 0.03125 * (1 + len(out) % 7)))
    return out


EDITS = _edits()
DENSITY_FACTOR = 1.5

META = dict(
    level="model_checking", engine="E1",
    technique="bounded-exhaustive enumeration of every spelling (order, grouping, constructor) of every small atom multiset, on the public and on private tables",
    rule=("classes = all multisets of n entries (atom spelling, count) over an alphabet of spellings x counts; four "
          "blocks: MAIN = 21 spellings (20 atoms: D and H[2] are one atom) x counts {1, 2, 0.5} on the public table; "
          "SPECIAL = 21 spellings around the special symbols (C, H, D, T, H[1], H[2], H[3], H{+}, D{+}, T{+}, H[1]{+}, "
          "C{4+}, C[13], B, Ca, Cl, Dy, He, Ta, U, O{2-}: 19 atoms, symbols alphabetically before, between and after "
          "C, D, H, T) x count 1; SPECIAL-COUNTS = the same x counts {1, 2, 0.5}; TABLES = the MAIN alphabet.  The "
          "last three blocks work every class through on THREE tables in one process - the public table, a private "
          "table with the same data, a private table whose masses and densities were edited - in an order that "
          "rotates through all six with the class, so every table is used before and after every other.  "
          "Members of a class = every distinct permutation x every grouping "
          "(contiguous blocks, multiplier 1 or 2 with the inner counts divided, nested) built from a nested list, "
          "the stated subset of them also printed and parsed (with table= on a private table), every insertion order "
          "of the dict constructor, four arithmetic spellings per permutation (one of them reading .hill and str() of "
          "every intermediate before use), and the derived members: formula(f) of a member (plain, after .hill / str() "
          "/ .atoms were read, of its Hill form), f.replace(X, a) for every entry a (X a placeholder atom of the same "
          "table; plain and after .hill was read), formula(d) of a dict object used before and updated in place.  "
          "NESTED = trees over 1-4 leaves (leaf = spelling x count {1, 2, 0.5}) whose groups are nested up to 3 deep "
          "(4 in the thorough tier) with a multiplier from {1, 2, 3, 0.5} at EVERY level (the two largest sets of "
          "shapes of the thorough tier: {2, 3, 0.5}), groups that hold a single "
          "leaf or nothing but another group included; the leaves keep their counts, the class of a tree is the "
          "multiset of totals the check's own counter gets for it (leaf count x the multipliers of all enclosing "
          "groups, exact Fractions); members = the flat spelling of the totals, then every tree as a nested list, "
          "as operators m*(f + n*(g + h)), as operators with .atoms / .hill / str() of every operand read first, "
          "and (stated subset) printed and parsed.  "
          "The expected composition of every member of every block is the check's own count of what it built, "
          "never the library's .atoms: a member whose .atoms differ from it although its structure, counted by "
          "the check's own counter, denotes the class is a violation of its own (atoms-differ-from-structure), "
          "and the counts listed in the Hill form are compared with the expected composition directly.  "
          "PRECISE = the three blocks with counts that need all 17 significant digits (1/3, 2/3, 0.1+0.2, 1e-3/7, "
          "1e6/3, 123456789.123456789, 1e-12/3, 2**53-1): `precise` = every class of n <= 2 entries over {C, D, "
          "Fe[56]{2+}} x (the eight counts + {1, 2, 0.5}) that holds at least one of the eight, with every member "
          "kind of MAIN n <= 2 (struct x groupings, parse, dict, four arithmetic spellings, formula(f), replace, "
          "reused dict) and check (e) on the text with all digits; `precise-sums` = every class of n = 3 over "
          "{C, D} x {1/3, 2/3, 0.1+0.2} (sums whose value depends on the order), every permutation x all 15 "
          "groupings, flat parse, arithmetic, dict, derived, (e); `nested-precise` = trees: a single leaf of C, D, "
          "Fe[56]{2+} under 0, 1, 2 groups with EVERY assignment of the eight counts + {3} to the leaf count and the "
          "multipliers; two and three leaves in every bracketing of mc.ref.hill.nestings with the baseline "
          "multiplier 3 or 0.5 at every group, and mc.ref.hill.placements: every one of the eight counts at every "
          "single position (leaf count or multiplier), and all positions at once in eight rotations.  A tree is a "
          "class of its own (members: flat list and dict of the correctly rounded exact totals, nested list, "
          "operators, operators with observed operands, parsed text, and (e)).  In all blocks every count is now "
          "also decided to the last digit (see assumptions): exact totals are Fractions from the check's own "
          "counter; canonicity is demanded between members whose .atoms are bit for bit equal.  "
          "Atom counts are compared with the atoms as OBJECTS (an equal-looking atom of another table is another "
          "atom).  Distinct = distinct (class, table, member spelling).  Non-trivial = "
          "a member of a class with >= 2 distinct atoms (the sort has something to order)."),
    bound=dict(
        quick=("MAIN: classes of n <= 3 entries.  dict (every insertion order), arith (4 spellings x every permutation), "
               "struct flat x every permutation, derived members: complete.  struct groupings: n <= 2 all; n = 3 all 15 per permutation "
               "for classes with all counts 1, the 7 single-level ones for the others.  parse: n <= 2 every permutation "
               "x every grouping; n = 3: classes with all counts 1 every permutation flat and every grouping of the first "
               "permutation; check (e) (the string written in the order of the Hill form) for every class of n <= 2 and "
               "for the n = 3 classes with counts all 1 or {2, 1, 0.5}.  SPECIAL: n <= 3 on three tables; n <= 2 as "
               "MAIN n <= 2; n = 3 every permutation flat as struct and parsed, arith, dict, derived, check (e): complete "
               "(no groupings).  SPECIAL-COUNTS and TABLES: n <= 2 on three tables, everything as MAIN n <= 2.  "
               "NESTED (every tree of mc.ref.hill.nestings, multipliers {1, 2, 3, 0.5} at every level, as nested list + "
               "operators + observed operators): one leaf: 21 spellings x 3 counts, depth <= 3 (85 trees each); two "
               "leaves: every sequence of two leaves over {C, H, D, O[18], Fe[56]{2+}} x 3 counts (225) and "
               "Fe[56]{2+}2 Cl{-}0.5, depth <= 2 (557 trees each); the three leaf pairs C H2, D0.5 D, Fe[56]{2+}2 "
               "Cl{-}0.5 at depth 3 (8896 trees each); the three leaf triples C H2 O[18]0.5, H D2 H0.5, Fe[56]{2+}2 "
               "Cl{-} Fe[56]{2+} at depth <= 2 (14809 trees each); the two leaf quadruples C H2 O0.5 D, H2 O H "
               "O[18]0.5 at depth <= 3 with at least two nodes in every group (505 trees each: the trees operators "
               "build without collapsing).  Also parsed: one leaf: depth <= 2 all, depth 3 for the five spellings; "
               "two leaves depth <= 2: the three named pairs; the deep pairs and the triples: the trees whose "
               "multipliers are all 2 or 0.5; the quadruples: all.  PRECISE: `precise` n <= 2 (24 + 516 classes), "
               "`precise-sums` n = 3 (56 classes), `nested-precise`: one leaf x 3 atoms at depth <= 2 (all 819 "
               "assignments each, those without one of the eight counts left out); two leaves C H2 and D D2 at depth "
               "<= 3 (30 bracketings x baselines 3 and 0.5, 1440 placements each); three leaves C H2 C0.5 at depth <= 2 (70 "
               "bracketings, baseline 3, 3864 placements): 12 072 trees, every one also parsed"),
        thorough=("MAIN: classes of n <= 4 entries.  n <= 3: struct (every permutation x all groupings), dict, arith, derived complete; "
                  "parse: n <= 2 complete, n = 3 every permutation flat for every class, every permutation x every "
                  "grouping for all-ones classes, every class once in Hill order.  n = 4: struct flat x every "
                  "permutation and dict in every insertion order for every class; all 93 groupings per permutation "
                  "for all-ones classes; arith and the Hill-order string for all-ones classes and classes with counts "
                  "{2, 1, 1, 0.5}; parse for all-ones classes: every permutation flat, every single-level grouping of "
                  "the first permutation; no derived members.  SPECIAL: n <= 4 on three tables, n = 4 like n = 3.  "
                  "SPECIAL-COUNTS and TABLES as in the quick tier.  NESTED: one leaf depth <= 4 (341 trees each), all "
                  "parsed; two leaves: the same 226 sequences at depth <= 2, and at depth 3 (8896 trees each) every "
                  "sequence of two leaves over {C, D} x 3 counts (36) and the three named pairs; parsed: the three "
                  "named pairs all, the others the trees with multipliers 2 / 0.5; three leaves: C, H, D with the "
                  "six arrangements of the counts 1, 2, 0.5 and the three named triples at depth <= 2 (14809 trees "
                  "each), C H2 O[18]0.5 also at depth 3 with multipliers {2, 3, 0.5} (126 144 trees); four leaves "
                  "C H2 O0.5 D at depth <= 2 with multipliers {2, 3, 0.5} (69 115 trees); parsed: the trees with "
                  "multipliers 2 / 0.5; the quadruples without single-node groups as in the quick tier.  PRECISE: "
                  "`precise` and `precise-sums` as in the quick tier; `nested-precise`: one leaf at depth <= 3 (all "
                  "7380 assignments per atom), the quick tier's families with both baselines, and Fe[56]{2+}2 Cl{-}0.5 at depth "
                  "<= 3, D D2 D0.5 at depth <= 2, C H2 C0.5 at depth 3 (176 bracketings), each x baselines 3 and 0.5: "
                  "71 280 trees, all parsed")),
    assumptions=[
        "'alphabetically by symbol' is read literally: the symbol of an atom is what it is written with, so D and T "
        "(= H[2], H[3], and their ions) are neither carbon nor hydrogen but 'other atoms' filed under 'D' and 'T': "
        "C, H, then B < Ca < Cl < D < Dy < He < O < T < Ta < U.  The unchanged library agrees (CH3D, HDO, CaD2, OT2 are "
        "their own Hill forms).  The reading 'D is hydrogen-2: C, H, D, T, rest' would agree with the rules "
        "carbon-and-hydrogen-before-D-T and D-before-T and not with D-T-alphabetical-by-own-symbol; only the first two "
        "are judged, the place of D / T among the symbols other than C and H is left to canonicity",
        "the order of different charge states of one nuclide and of a natural element against its own isotopes is "
        "not judged (the statement orders isotopes of one element by mass number and nothing else); only canonicity",
        "'exactly the same atom counts' means the same atom objects: the atoms of a formula over a private table are "
        "the atoms of that table, whether or not its data differ from the public table's",
        "'a formula already written in that order' is the string whose atoms are listed in the order of the class's "
        "Hill form as produced by the library (after that order passed the order rules), printed by the framework's "
        "own printer without separators, parsed with table= on a private table",
        "Hill's refinement 'without carbon everything is alphabetical' is not what the statement says (C first, H "
        "second, unconditionally)",
        "equality is Formula.__eq__ as documented (structure equality), evaluated in both directions",
        "outside the PRECISE blocks counts are dyadic rationals, so regrouped totals are exact; in the NESTED block the leaves keep their "
        "counts and the totals are products of them with multipliers from {1, 2, 3, 0.5}: small integers times "
        "powers of two, exact in binary floating point in any order of multiplication and addition (the check "
        "computes them as Fractions and refuses a total that is not a float); the comparison still allows 1e-12 relative",
        "'exactly the same atom counts' is decided to the last digit, soundly for any order of floating-point "
        "operations: (i) a count of the Hill form that is bit for bit the formula's own .atoms count is right; (ii) a "
        "total with one term and at most two factors that are not powers of two is ONE correctly rounded "
        "multiplication however it is carried out (powers of two only move the exponent; no total of the bound "
        "under- or overflows), so .atoms, hill.atoms and the listed count must be the float nearest the exact "
        "rational total - a single leaf's count comes back identical; (iii) every other total (a sum of terms, "
        "a product of three or more inexact factors) may differ from the exact total by 1e-15 relative = nine "
        "roundings of 2**-53 (the bound holds at most five per total); whole-number counts may be int or float",
        "'two formulas with equal atom counts': equal as the library reports them (f.atoms == g.atoms bit for "
        "bit; an int beyond 2**53 equals no float but its own value).  Members of one class whose totals went through "
        "different roundings have different counts and are compared with another reference; Hill forms of "
        "equal .atoms that differ only in the last digits of totals of kind (iii) are not judged (a library that "
        "totals the Hill form in another order than .atoms is within the statement)",
        "texts with 17-digit counts are written with repr's digits (the shortest that read back as the same "
        "float), in plain positional notation where repr uses an exponent (the grammar has none); a parser that "
        "returns another float for them is C01's subject and the member is left out",
        "a formula's .atoms is part of 'the same atom counts': the statement's counts are the counts of the atoms "
        "the formula is made of, so a formula whose structure (as a nested sequence of (count, atom or sequence), "
        "the documented representation) denotes one composition while .atoms reports another breaks the first "
        "clause whether or not the Hill form repeats the error",
        "one atom beyond the design's list (C[9]) so that mass numbers of different width occur in one element",
        "reading .hill and constructing formula(d) / formula(f) are observations: the composition of f and the "
        "content of d (atoms as objects, counts) afterwards are what they were (order inside d, memoised attributes "
        "of f are not looked at)",
        "the edited private table scales the mass of every element and isotope under the alphabet by 1 + k/32 "
        "(k = 1..7) and the density of the elements by 1.5; nothing else of a private table is customised",
    ],
    level_text=("every member of every class inside the bound was built on the real implementation and its Hill form "
                "compared with the reference order rules, with the Hill form of every other member of its class, with "
                "its own Hill form and with the parsed string written in that order, on the public table and - for "
                "the blocks that say so - on two private tables in the same process; nothing is claimed for atoms "
                "outside the alphabets or larger formulas"),
    level_note=("trusted: mc.ref.hill (order rules, grouping and nesting generators, own counter in exact rational "
                "arithmetic, printer that writes every count with the digits that read back as the same float), "
                "Python's float(), repr() and fractions.Fraction (correctly rounded / exact), identity of "
                "atom objects, Formula.structure as the representation of a formula (read only to attribute a wrong count)"),
)


# ------------------------------------------------------------------ environment
_SERIAL = [0]
REG = {}          # id(atom) -> (table kind, descriptor): every atom object any Env of this process knows


class ArgumentAltered(Exception):
    """A constructor changed the object it was given (what, before, after)."""


class Env(object):
    def __init__(self, kind="public"):
        pt = load_pt()
        from periodictable import formula
        self.pt, self.formula, self.kind = pt, formula, kind
        if kind == "public":
            T = pt.elements
            self.kw = {}
        else:
            import periodictable.core, periodictable.mass, periodictable.density
            _SERIAL[0] += 1
            T = periodictable.core.PeriodicTable("c19-%s-%d-%d" % (kind, os.getpid(), _SERIAL[0]))
            periodictable.mass.init(T)
            periodictable.density.init(T)
            if kind == "private-edited":
                for sym, A, factor in EDITS:
                    a = getattr(T, sym)
                    if A:
                        a = a[A]
                    else:
                        if a._density is not None:
                            a._density = a._density * DENSITY_FACTOR
                    a._mass = a._mass * factor
            self.kw = dict(table=T)
        self.table = T
        self.atom = {}
        self.desc = {}       # id(atom) -> descriptor (sym, A, q, own)
        self.first_token = {}
        self.keep = []       # the atom objects stay alive, so their ids stay theirs
        for tok in TOKENS:
            _, sym, A, q, own = TOK[tok]
            a = getattr(T, sym)
            if A:
                a = a[A]
            if q:
                a = a.ion[q]
            self.atom[tok] = a
            self.keep.append(a)
            self.desc[id(a)] = (sym, A, q, own)
            self.first_token.setdefault(id(a), tok)
            if REG.setdefault(id(a), (kind, (sym, A, q, own))) != (kind, (sym, A, q, own)):
                raise MachineryError("atom %s of the %s table is also %r" % (tok, kind, REG[id(a)]))
        if self.atom["D"] is not self.atom["H[2]"] or self.atom["T"] is not self.atom["H[3]"]:
            raise MachineryError("D and H[2] (T and H[3]) are expected to be one atom")
        if self.atom["D{+}"] is not self.atom["D"].ion[1]:
            raise MachineryError("D{+} is expected to be the ion of D")
        if kind == "private-edited" and not self.atom["C"].mass > 1.01 * pt.elements.C.mass:
            raise MachineryError("the edits of the private table did not take")

    def pyname(self, tok):
        _, sym, A, q, own = TOK[tok]
        root = "pt" if self.kind == "public" else "T"
        s = "%s.%s" % (root, sym) + ("[%d]" % A if A else "")
        if tok in ("D", "T"):
            s = "%s.%s" % (root, tok)
        return s + (".ion[%d]" % q if q else "")

    def prelude(self):
        s = PRELUDE
        if self.kind != "public":
            s += ("from periodictable import mass, density\nfrom periodictable.core import PeriodicTable\n"
                  "T = PeriodicTable('private'); mass.init(T); density.init(T)\n")
        if self.kind == "private-edited":
            s += ("for el in (%s):\n    if el._density is not None: el._density *= %r\n"
                  % (", ".join("T.%s" % sym for sym, A, f in EDITS if not A), DENSITY_FACTOR))
            s += "".join("T.%s%s._mass *= %r\n" % (sym, "[%d]" % A if A else "", f) for sym, A, f in EDITS)
        return s


_ENVS = {}
def env(kind="public"):
    if kind not in _ENVS:
        if kind not in KINDS:
            raise MachineryError("unknown table kind %r" % (kind,))
        _ENVS[kind] = Env(kind)
    return _ENVS[kind]


# ------------------------------------------------------------------ members
def _tree_struct(E, tree):
    return [(c, _tree_struct(E, x) if isinstance(x, list) else E.atom[x]) for c, x in tree]


def _tree_arith(E, tree, observe):
    """The tree spelled with operators: a group [m, sub] is m*(sum of its nodes), a leaf [c, a] is c*formula(a).
    observe: everything that could be memoised on an intermediate is read before it is used as an operand."""
    F, f = E.formula, None
    for c, x in tree:
        g = _tree_arith(E, x, observe) if isinstance(x, list) else F(E.atom[x])
        if observe:
            g.atoms; g.hill; str(g)
        g = c * g
        if observe:
            g.atoms; g.hill; str(g)
        f = g if f is None else f + g
    if observe:
        f.atoms; f.hill; str(f)
    return f


def _tree_arith_code(E, tree):
    return " + ".join("%r*%s" % (c, "(%s)" % _tree_arith_code(E, x) if isinstance(x, list)
                                 else "formula(%s)" % E.pyname(x)) for c, x in tree)


def _tree_code(E, tree):
    return "[" + ", ".join("(%r, %s)" % (c, _tree_code(E, x) if isinstance(x, list) else E.pyname(x))
                           for c, x in tree) + "]"


def build(E, spec):
    """spec: ['struct', tree] | ['parse', text] | ['dict', [[tok, total], ...]] | ['arith', kind, [[tok, count], ...]]"""
    kind = spec[0]
    F = E.formula
    if kind == "struct":
        return F(_tree_struct(E, spec[1]))
    if kind == "parse":
        return F(spec[1], **E.kw)
    if kind == "dict":
        d = {}
        for tok, c in spec[1]:
            d[E.atom[tok]] = c
        before = _dict_key(d)
        f = F(d)
        if _dict_key(d) != before:
            raise ArgumentAltered("dict", before, _dict_key(d))
        return f
    if kind == "dict-reused":
        # one dict object: used for a formula, updated in place by the caller, used again
        d = {}
        for tok, c in spec[1]:
            d[E.atom[tok]] = c
        F(d).hill
        d.clear()
        for tok, c in spec[2]:
            d[E.atom[tok]] = c
        before = _dict_key(d)
        f = F(d)
        if _dict_key(d) != before:
            raise ArgumentAltered("dict", before, _dict_key(d))
        return f
    if kind == "copy":
        how = spec[1]
        f = build(E, spec[2])
        if how == "observed":
            f.hill; str(f); f.atoms
        elif how == "of-hill":
            f = f.hill
        before = _atoms_key(f.atoms)
        g = F(f)
        if _atoms_key(f.atoms) != before:
            raise ArgumentAltered("formula", before, _atoms_key(f.atoms))
        return g
    if kind == "replace":
        # the member that holds the placeholder atom X in place of entry i, then X -> the entry's atom
        xtok, i, seq = spec[1], spec[2], spec[3]
        tree = [[c, (xtok if j == i else t)] for j, (t, c) in enumerate(seq)]
        f = F(_tree_struct(E, tree))
        if spec[4] == "observed":
            f.hill; str(f)
        return f.replace(E.atom[xtok], E.atom[seq[i][0]])
    if kind == "arith" and spec[1] in ("tree", "tree-observed"):
        return _tree_arith(E, spec[2], spec[1] == "tree-observed")
    if kind == "arith":
        how, seq = spec[1], spec[2]
        if how == "add":
            f = None
            for tok, c in seq:
                g = c * F(E.atom[tok])
                f = g if f is None else f + g
            return f
        if how == "iadd":
            f = F()
            for tok, c in seq:
                f += c * F(E.atom[tok])
            return f
        if how == "twice":
            f = None
            for tok, c in seq:
                g = (c / 2) * F(E.atom[tok])
                f = g if f is None else f + g
            return 2 * f
        if how == "twice-observed":
            # the same, but the Hill form and the text of every intermediate are read BEFORE it is used as
            # an operand (a memoised Hill form must not be handed on to n*f, f+g)
            f = None
            for tok, c in seq:
                a = F(E.atom[tok]); a.hill; str(a)
                g = (c / 2) * a; g.hill; str(g)
                f = g if f is None else f + g
                f.hill; str(f)
            return 2 * f
    raise MachineryError("unknown member spec %r" % (spec,))


def code(E, spec):
    kind = spec[0]
    if kind == "struct":
        return "formula(%s)" % _tree_code(E, spec[1])
    if kind == "parse":
        return "formula(%r%s)" % (spec[1], ", table=T" if E.kw else "")
    if kind == "dict":
        return "formula({%s})" % ", ".join("%s: %r" % (E.pyname(t), c) for t, c in spec[1])
    if kind == "dict-reused":
        return "reused_dict([%s], [%s])" % tuple(", ".join("(%s, %r)" % (E.pyname(t), c) for t, c in part)
                                                 for part in (spec[1], spec[2]))
    if kind == "copy":
        inner = code(E, spec[2])
        return {"plain": "formula(%s)", "observed": "formula(observed(%s))", "of-hill": "formula(%s.hill)"}[spec[1]] % inner
    if kind == "replace":
        xtok, i, seq = spec[1], spec[2], spec[3]
        tree = [[c, (xtok if j == i else t)] for j, (t, c) in enumerate(seq)]
        inner = "formula(%s)" % _tree_code(E, tree)
        if spec[4] == "observed":
            inner = "observed(%s)" % inner
        return "%s.replace(%s, %s)" % (inner, E.pyname(xtok), E.pyname(seq[i][0]))
    how, seq = spec[1], spec[2]
    if how == "tree":
        return _tree_arith_code(E, seq)
    if how == "tree-observed":
        return "tree_observed(%s)" % _tree_code(E, seq)
    if how == "add":
        return " + ".join("%r*formula(%s)" % (c, E.pyname(t)) for t, c in seq)
    if how == "iadd":
        return "sum_iadd([%s])" % ", ".join("%r*formula(%s)" % (c, E.pyname(t)) for t, c in seq)
    if how == "twice-observed":
        return "twice_observed([%s])" % ", ".join("(%r, %s)" % (c / 2, E.pyname(t)) for t, c in seq)
    return "2*(%s)" % " + ".join("%r*formula(%s)" % (c / 2, E.pyname(t)) for t, c in seq)


PRELUDE = ("import periodictable as pt\nfrom periodictable import formula\n"
           "def sum_iadd(parts):\n    f = formula()\n    for p in parts: f += p\n    return f\n"
           "def twice_observed(parts):\n    f = None\n    for c, a in parts:\n        a = formula(a); a.hill; str(a)\n"
           "        g = c*a; g.hill; str(g)\n        f = g if f is None else f + g\n        f.hill; str(f)\n    return 2*f\n"
           "def observed(f):\n    f.hill; str(f); f.atoms\n    return f\n"
           "def tree_observed(tree):\n    # m*(... + ...) for every group, c*formula(atom) for every leaf; every operand is looked at first\n"
           "    f = None\n    for c, x in tree:\n        g = observed(tree_observed(x) if isinstance(x, list) else formula(x))\n"
           "        g = observed(c*g)\n        f = g if f is None else f + g\n    return observed(f)\n"
           "def reused_dict(first, second):\n    d = dict(first); formula(d).hill\n    d.clear(); d.update(second)\n"
           "    return formula(d)\n")


def _flat(seq):
    return [[c, t] for t, c in seq]


def plan(n, tier, entries, block="main"):
    """Which spellings a class of n entries gets (this IS the bound; META.bound describes it)."""
    P = _plan(n, tier, entries, block)
    P["derived"] = n <= 3 or block != "main"
    return P


def _plan(n, tier, entries, block):
    ones = all(c == 1 for t, c in entries)
    mixed = sorted(c for t, c in entries) == [0.5, 1, 1, 2]
    quick = tier == "quick"
    if n <= 2:
        return dict(group="all", arith=True, parse_flat=True, parse_group="all", parse_hill=True)
    if block == "precise":
        # n = 3: sums of three terms of one atom, in every order and grouping
        return dict(group="all", arith=True, parse_flat=True, parse_group=None, parse_hill=True)
    if block == "special":
        # grouping does not reach the sort (the atoms are totalled first) and is the main block's subject
        return dict(group="flat", arith=True, parse_flat=True, parse_group=None, parse_hill=True)
    if n == 3 and quick:
        distinct = sorted(c for t, c in entries) == [0.5, 1, 2]
        return dict(group="all" if ones else "single", arith=True, parse_flat=ones,
                    parse_group="first" if ones else None, parse_hill=ones or distinct)
    if n == 3:
        return dict(group="all", arith=True, parse_flat=True, parse_group="all" if ones else None, parse_hill=True)
    return dict(group="all" if ones else "flat", arith=ones or mixed, parse_flat=ones,
                parse_group="first-single" if ones else None, parse_hill=ones or mixed)


def members(E, entries, n, tier, P):
    """Yield member specs of the class."""
    perms = sorted(set(itertools.permutations(entries)))
    tok = lambda t: t
    for pi, perm in enumerate(perms):
        seq = list(perm)
        if P["group"] == "all":
            trees = R.groupings(seq)
        elif P["group"] == "single":
            trees = R.groupings(seq, depth=1)
        else:
            trees = [_flat(seq)]
        for ti, tree in enumerate(trees):
            yield ["struct", tree]
            if ti == 0:
                p = P["parse_flat"]
            else:
                pg = P["parse_group"]
                p = (pg == "all" or (pg == "first" and pi == 0)
                     or (pg == "first-single" and pi == 0 and _depth(tree) <= 1))
            if p:
                yield ["parse", R.text(tree, tok)]
        if P["arith"]:
            for how in ("add", "iadd", "twice", "twice-observed"):
                yield ["arith", how, [[t, c] for t, c in seq]]
    tot = R.merged([(E.first_token[id(E.atom[t])], c) for t, c in entries])
    for order in itertools.permutations(list(tot)):
        yield ["dict", [[t, tot[t]] for t in order]]
    if P.get("derived"):
        seq0 = [[t, c] for t, c in perms[0]]
        first = ["struct", _flat(perms[0])]
        for how in ("plain", "observed", "of-hill"):
            yield ["copy", how, first]
        if P["parse_flat"]:
            yield ["copy", "observed", ["parse", R.text(_flat(perms[0]), tok)]]
        yield ["copy", "of-hill", ["dict", [[t, tot[t]] for t in tot]]]
        inside = set(id(E.atom[t]) for t, c in entries)
        xtok = [t for t in TOKENS if id(E.atom[t]) not in inside][0]
        for i in range(n):
            for obs in ("plain", "observed"):
                yield ["replace", xtok, i, seq0, obs]
        other = [[xtok, 1]] + [[t, 2 * tot[t]] for t in reversed(list(tot))]
        yield ["dict-reused", other, [[t, tot[t]] for t in tot]]


def _depth(tree):
    d = 0
    for c, x in tree:
        if isinstance(x, list):
            d = max(d, 1 + _depth(x))
    return d


# ------------------------------------------------------------------ oracle
def _same_atoms(got, want):
    """Equality of two {atom: count} maps, zero counts ignored; atoms by identity."""
    g = dict((id(a), c) for a, c in got.items() if c != 0)
    w = dict((id(a), c) for a, c in want.items() if c != 0)
    if set(g) != set(w):
        return False
    return all(close(g[k], w[k], 1e-12, 0) for k in w)


def _own_count(f):
    """{atom: count} of the library's structure of f by the check's own counter (mc.ref.hill.totals), or
    None if the structure is not a nested sequence of (number, atom or sequence)."""
    try:
        return dict((a, float(q)) for a, q in R.totals(f.structure).items())
    except Exception:
        return None


def _by_id(d):
    return dict((id(a), c) for a, c in d.items())


def _own_exact(f):
    """{atom: Fraction} of the library's structure of f by the check's own counter, exact; None if unreadable."""
    try:
        return R.totals(f.structure)
    except Exception:
        return None


def _shape(s):
    """Input class of a structure for the signature of a counting defect."""
    try:
        d = R.depth(s)
    except Exception:
        return "unreadable"
    return "flat" if d == 0 else "groups" if d == 1 else "groups-inside-groups"


def _atoms_key(d):
    """Content of an {atom: count} map, atoms as objects (order of insertion is not content)."""
    return sorted((id(a), float(c)) for a, c in d.items())


_dict_key = _atoms_key


def _species(d):
    """Table-blind content of an {atom: count} map: what the atoms are called, not which objects
    (only used to name the cause of a composition difference that was found by identity)."""
    out = {}
    for a, c in d.items():
        if c != 0:
            out[str(a)] = out.get(str(a), 0) + c
    return out


def _same_counts(g, w):
    return set(g) == set(w) and all(close(g[k], w[k], 1e-12, 0) for k in w)


def _show_atoms(d):
    return sorted(("%s@%s" % (a, REG[id(a)][0] if id(a) in REG else "an-object-of-no-table-of-this-check"), float(c))
                  for a, c in d.items())


def _norm(s):
    """Container-blind nested form of a structure."""
    if isinstance(s, (list, tuple)):
        return tuple((float(c), _norm(x)) for c, x in s)
    return id(s)


def _typed_key(s):
    if isinstance(s, (list, tuple)):
        return (type(s).__name__,) + tuple((type(c).__name__, repr(c), _typed_key(x)) for c, x in s)
    return id(s)


ROUTES = {"dict": "dict-constructor", "dict-reused": "dict-used-before", "copy": "formula-of-formula", "replace": "replace"}


class ClassCheck(object):
    """Runs the oracle over the members of one class."""
    def __init__(self, E, entries, acc, tables_before=(), exact=None):
        """exact: [(token, Fraction total, determined)] where the class is not simply the sum of its entries
        (a nested tree with counts that are not dyadic); None: the exact totals are the sums of the entries,
        and a total is determined (= one float, whatever the order of the operations) iff it has one term -
        the members regroup with multipliers 1, 2 and 0.5 only."""
        self.E, self.entries, self.acc = E, entries, acc
        self.tables_before = list(tables_before)
        self.block, self.tier = "main", "quick"
        self.want = {}
        for t, c in entries:
            a = E.atom[t]
            self.want[a] = self.want.get(a, 0) + c
        self.exact_given = exact
        ex = {}
        if exact is None:
            for t, c in entries:
                a = E.atom[t]
                rec = ex.setdefault(id(a), [a, Fraction(0), 0])
                rec[1] += Fraction(c)
                rec[2] += 1
            self.exact = [(a, q, n == 1, float(q)) for a, q, n in ex.values()]
        else:
            self.exact = [(E.atom[t], Fraction(q), bool(strict), float(q)) for t, q, strict in exact]
            if sorted(id(a) for a in self.want) != sorted(id(x[0]) for x in self.exact):
                raise MachineryError("exact totals and entries name different atoms")
        self.h0_by = {}
        self.h0 = None
        self.h0_spec = None
        self.h0_str = None
        self.h0_order_ok = False
        self.seen = set()
        self.skipped = 0
        self.distinct_atoms = len(self.want)

    def case(self, *specs):
        d = dict(entries=[[t, c] for t, c in self.entries], members=[list(s) for s in specs],
                 table=self.E.kind, tables_before=self.tables_before, block=self.block, tier=self.tier)
        if self.exact_given is not None:
            d["exact"] = [[t, str(Fraction(q).numerator), str(Fraction(q).denominator), bool(st)]
                          for t, q, st in self.exact_given]
        return d

    def _inexact(self, got, ref=None):
        """The first atom whose count in `got` is not the class's total to the last digit, as
        (atom, count, exact total, determined), or None.  A count that is bit for bit the count of `ref` (the
        formula's own .atoms, already judged) is right.  A determined total (one term, at most one rounded
        multiplication) must be THE float nearest to the exact total; any other total must be within
        REL_ROUNDING of it (the order of summation / multiplication is the library's business)."""
        # got, ref: {id(atom): count}
        for a, q, strict, qf in self.exact:
            x = got.get(id(a))
            if x == qf or x is None or not q:
                continue
            try:
                xf = float(x)
                if ref is not None and id(a) in ref and xf == float(ref[id(a)]):
                    continue
                if xf == qf:
                    continue
                if strict:
                    ok = xf == qf
                else:
                    ok = abs(Fraction(x) - q) <= q * REL_ROUNDING
            except (TypeError, ValueError, OverflowError):
                ok = False
            if not ok:
                return a, x, q, strict
        return None

    def _last_digits(self, bad):
        a, x, q, strict = bad
        return ":in-the-last-digits:" + ("total-of-one-term" if strict else "total-up-to-rounding")

    def _digits_text(self, bad):
        a, x, q, strict = bad
        return "%s: %r, exact total %r%s" % (a, x, float(q), "" if strict else " (up to 1e-15 relative)")

    def want_code(self):
        E = self.E
        return "{%s}" % ", ".join("%s: %r" % (E.pyname(E.first_token[id(a)]), c) for a, c in self.want.items())

    SAME = ("same = lambda x, y: sorted((id(a), float(c)) for a, c in x.items() if c) == "
            "sorted((id(a), float(c)) for a, c in y.items() if c)   # atoms as objects")

    def snippet(self, *specs, **kw):
        E = self.E
        asserts = kw.get("asserts")
        lines = [E.prelude().rstrip("\n")]
        if self.tables_before:
            lines.append("# in the run the same class had been worked through on the table(s) %s before"
                         % ", ".join(self.tables_before))
        for i, s in enumerate(specs):
            lines.append("f%d = %s" % (i, code(E, s)))
            lines.append("print(repr(f%d.structure), '->', repr(f%d.hill.structure), str(f%d.hill))" % (i, i, i))
        if asserts:
            lines.extend(asserts)
        elif len(specs) == 2:
            lines.append("assert f0.hill == f1.hill and str(f0.hill) == str(f1.hill)")
        else:
            lines.append("assert f0.hill.atoms == f0.atoms and f0.hill.hill == f0.hill")
        return "\n".join(lines) + "\n"

    def viol(self, sig, specs, expected, observed, standalone=None, asserts=None):
        self.acc.violation(sig, self.case(*specs), expected=expected, observed=observed,
                           standalone=standalone or self.snippet(*specs, asserts=asserts))

    def member(self, spec):
        E, acc = self.E, self.acc
        acc.evaluations += 1
        try:
            f = build(E, spec)
            A = f.atoms
        except ArgumentAltered as e:
            what, before, after = e.args
            self.viol("constructor-alters-its-argument:" + what, [spec], "the %s as the caller left it" % what,
                      "%d entries before, %d after; same content: %s" % (len(before), len(after), before == after))
            return
        except Exception as e:
            # construction is C01 / C02; a member that cannot be built is not a member
            self.skipped += 1
            acc.count("members_not_built")
            return
        if not _same_atoms(A, self.want):
            # self.want is the check's own count of what it built (exact, from the class).  Whose fault?  The
            # library's structure is counted with the check's own counter: if THAT denotes the class, the
            # constructor did its work and the formula's count of its own structure is wrong
            S = _own_count(f)
            if S is not None and _same_atoms(S, self.want):
                self.viol("atoms-differ-from-structure:%s%s" % (_shape(f.structure), self._cause(A, self.want)),
                          [spec], _show_atoms(self.want), _show_atoms(A),
                          asserts=[self.SAME, "print(f0.atoms)", "assert same(f0.atoms, %s)" % self.want_code()])
                return
            route = ROUTES.get(spec[0])
            if route and self._inner_ok(spec):
                # formula(dict) is the constructor of Hill forms, formula(f) and f.replace() hand its atoms on:
                # what they were given was right, what they return is not
                self.viol("%s-atoms-differ%s" % (route, self._cause(A, self.want)), [spec],
                          _show_atoms(self.want), _show_atoms(A),
                          asserts=[self.SAME, "assert same(f0.atoms, %s)" % self.want_code()])
                return
            self.skipped += 1
            acc.count("members_not_in_class")
            return
        Ai = _by_id(A)
        bad = self._inexact(Ai)
        if bad:
            # the same question in the last digits: the structure's own exact count decides whose rounding it is
            S = _own_exact(f)
            if S is not None and not self._inexact(_by_id(S)):
                self.viol("atoms-differ-from-structure:%s%s" % (_shape(f.structure), self._last_digits(bad)),
                          [spec], _show_atoms(self.want), self._digits_text(bad),
                          asserts=["print(f0.atoms)", "assert %s" % self._exact_assert("f0.atoms", bad)])
                return
            self.skipped += 1
            acc.count("members_not_in_class")
            acc.count("members_whose_constructor_rounded_a_count")
            return
        acc.states += 1
        acc.traces += 1
        try:
            h = f.hill
            hA = h.atoms
            hs = h.structure
        except Exception as e:
            self.viol("hill-raises:%s" % type(e).__name__, [spec], "a Hill form", "%s: %s" % (type(e).__name__, e))
            return
        acc.evaluations += 1
        # (f) reading the Hill form is an observation
        try:
            A2 = f.atoms
        except Exception as e:
            A2 = {}
        if not _same_atoms(A2, A):
            self.viol("hill-alters-the-composition-of-the-formula", [spec], _show_atoms(A), _show_atoms(A2))
            return
        # (a) composition, atoms as objects
        if not _same_atoms(hA, A):
            self.viol("hill-atoms-differ" + self._cause(hA, A), [spec], _show_atoms(A), _show_atoms(hA),
                      asserts=[self.SAME, "assert same(f0.atoms, %s)" % self.want_code(),
                               "assert same(f0.hill.atoms, f0.atoms)"])
            return
        bad = self._inexact(_by_id(hA), Ai)
        if bad:
            self.viol("hill-atoms-differ" + self._last_digits(bad), [spec],
                      "%r" % (A[bad[0]],), self._digits_text(bad),
                      asserts=["print(f0.atoms, f0.hill.atoms)", "assert %s" % self._exact_assert("f0.hill.atoms", bad, A)])
            return
        key = _typed_key(hs)
        first_time = key not in self.seen
        if first_time:
            self.seen.add(key)
            # (b) shape and order
            if not all(not isinstance(x, (list, tuple)) for c, x in hs):
                self.viol("hill-not-flat", [spec], "a flat list of atoms", repr(hs))
                return
            ids = [id(x) for c, x in hs]
            if len(set(ids)) != len(ids) or any(i not in E.desc for i in ids):
                self.viol("hill-repeats-an-atom", [spec], "each atom once", repr(hs))
                return
            # (a') the counts as they stand in the Hill form, against the check's own count of the class
            listed = dict((x, c) for c, x in hs)
            if not _same_atoms(listed, self.want):
                self.viol("hill-lists-other-counts-than-the-formula-has" + self._cause(listed, self.want), [spec],
                          _show_atoms(self.want), repr(hs),
                          asserts=[self.SAME, "assert same(dict((a, c) for c, a in f0.hill.structure), %s)"
                                   % self.want_code()])
                return
            badc = self._inexact(_by_id(listed), Ai)
            if badc:
                self.viol("hill-lists-other-counts-than-the-formula-has" + self._last_digits(badc), [spec],
                          "%r" % (A[badc[0]],), self._digits_text(badc),
                          asserts=["print(f0.atoms, f0.hill.structure)",
                                   "assert %s" % self._exact_assert("dict((a, c) for c, a in f0.hill.structure)", badc, A)])
                return
            bad = R.order_violation([E.desc[i] for i in ids])
            if bad:
                rule, first, second = bad
                tok = dict((TOK[t][1:], t) for t in reversed(TOKENS))
                self.viol("hill-order:" + rule, [spec],
                          "%s before %s" % (_dstr(second), _dstr(first)), str(h),
                          asserts=["listed = [a for c, a in f0.hill.structure]",
                                   "place = lambda x: [a is x for a in listed].index(True)",
                                   "assert place(%s) < place(%s)" % (E.pyname(tok[second]), E.pyname(tok[first]))])
                return
            # (d) idempotence
            try:
                hh = h.hill
                ok = (hh == h) and (h == hh)
            except Exception as e:
                self.viol("hill-of-hill-raises:%s" % type(e).__name__, [spec], "h.hill == h", repr(e))
                return
            acc.evaluations += 1
            if not ok:
                why = "list-vs-tuple" if _norm(hh.structure) == _norm(hs) else "order-or-counts"
                self.viol("idempotence:" + why, [spec], repr(hs), repr(hh.structure),
                          standalone=E.prelude() + "h = %s.hill\nprint(repr(h.structure), repr(h.hill.structure))\n"
                                               "assert h.hill == h\n" % code(E, spec))
                return
        # (c) canonicity: 'two formulas with equal atom counts' - equal as the library reports them, bit for
        # bit (members whose totals went through other roundings have other counts, and another reference)
        # (a whole-number count beyond 2**53 held as an int is equal to no float but its own)
        ak = tuple(sorted((id(a), c if isinstance(c, int) else float(c)) for a, c in A.items() if c != 0))
        ref = self.h0_by.get(ak)
        if ref is None:
            self.h0_by[ak] = (h, spec, str(h))
            if self.h0 is None:
                self.h0, self.h0_spec, self.h0_str = h, spec, str(h)
                self.h0_order_ok = True
                acc.outcome("hill-order:" + _order_class(E, hs))
            return
        if first_time:
            h0, h0_spec, h0_str = ref
            eq = (h == h0) and (h0 == h)
            if not eq:
                why = self._why_differs(hs, h0.structure)
                if why == "counts" and self._differ_by_rounding_only(hs, h0.structure):
                    # both lists passed (a'): every count is the formula's own or within the rounding of the
                    # exact total.  A library that totals the Hill form by another order of operations than
                    # .atoms is not judged on the last digit of a total that has no single value
                    acc.count("hill_forms_equal_up_to_the_rounding_of_sums")
                    return
                self.viol("canonicity:" + why, [h0_spec, spec], "equal Hill forms: %s" % h0_str, str(h))
                return
            if str(h) != h0_str:
                self.viol("canonicity:equal-but-printed-differently", [h0_spec, spec], h0_str, str(h))
                return

    def _differ_by_rounding_only(self, s, s0):
        """Two flat lists over the same atoms in the same order: do they differ only in counts of totals that
        are not determined (sums, products of three or more inexact factors)?"""
        loose = set(id(a) for a, q, strict, qf in self.exact if not strict)
        return all(c == c0 or id(x) in loose for (c, x), (c0, x0) in zip(s, s0))

    def _exact_assert(self, expr, bad, A=None):
        """Python text: the count of the atom in `expr` is what it has to be."""
        a, x, q, strict = bad
        name = self.E.pyname(self.E.first_token[id(a)])
        want = float(q)
        if strict:
            return "%s[%s] == %r" % (expr, name, want)
        return "abs(%s[%s] - %r) <= 1e-15 * %r" % (expr, name, want, want)

    def _cause(self, got, want):
        """Names the kind of composition difference (found by identity of the atoms)."""
        try:
            if _same_counts(_species(got), _species(want)):
                if any(id(a) in REG and REG[id(a)][0] != self.E.kind for a in got):
                    return ":atoms-of-another-table"
                return ":same-species-but-other-atom-objects"
        except Exception:
            pass
        return ""

    def _inner_ok(self, spec):
        """Was the route given what the class intends?  (If not, the defect is the inner constructor's.)"""
        E = self.E
        try:
            if spec[0] == "copy":
                return _same_atoms(build(E, spec[2]).atoms, self.want)
            if spec[0] == "replace":
                xtok, i, seq = spec[1], spec[2], spec[3]
                tree = [[c, (xtok if j == i else t)] for j, (t, c) in enumerate(seq)]
                want = {}
                for c, t in tree:
                    want[E.atom[t]] = want.get(E.atom[t], 0) + c
                return _same_atoms(E.formula(_tree_struct(E, tree)).atoms, want)
            return True
        except Exception:
            return False

    def _why_differs(self, s, s0):
        E = self.E
        a = [id(x) for c, x in s]
        b = [id(x) for c, x in s0]
        if a != b:
            for x, y in zip(a, b):
                if x != y:
                    return R.pair_class(E.desc[x], E.desc[y])
            return "length"
        if _norm(s) == _norm(s0):
            return "list-vs-tuple"
        return "counts"

    def finish(self):
        """(e) the string written in the order of the class's Hill form, parsed, == its own Hill form."""
        E, acc = self.E, self.acc
        if self.h0 is None or not self.h0_order_ok:
            return
        seq = [[E.first_token[id(x)], c] for c, x in self.h0.structure]
        try:
            s = R.text([[c, t] for t, c in seq], lambda t: t)
        except ValueError:
            return
        spec = ["parse", s]
        acc.evaluations += 1
        try:
            g = build(E, spec)
            if not _same_atoms(g.atoms, self.want):
                raise ValueError("other atoms")
        except Exception:
            acc.count("members_not_in_class")
            self.skipped += 1
            return
        acc.traces += 1
        try:
            gh = g.hill
            ok = (g == gh) and (gh == g)
        except Exception as e:
            self.viol("hill-raises:%s" % type(e).__name__, [spec], "a Hill form", repr(e))
            return
        if not ok:
            if _norm(g.structure) == _norm(gh.structure):
                why = "list-vs-tuple"
            elif [id(x) for c, x in g.structure] != [id(x) for c, x in gh.structure]:
                why = "order"
            else:
                why = "counts"
            self.viol("parsed-in-hill-order-ne-own-hill:" + why, [spec],
                      "formula(%r) == formula(%r).hill" % (s, s),
                      "%r vs %r" % (g.structure, gh.structure),
                      standalone=E.prelude() + "f = %s\n"
                                 "print(repr(f.structure), repr(f.hill.structure))\nassert f == f.hill\n" % code(E, spec))


def _dstr(d):
    sym, A, q, own = d
    s = R.written(d) if own else sym + ("[%d]" % A if A else "")
    if q:
        s += "{%s%s}" % (abs(q) if abs(q) > 1 else "", "+" if q > 0 else "-")
    return s


def _order_class(E, hs):
    """Coarse description of a Hill order (outcome histogram: shows the exploration is not vacuous)."""
    out = []
    for c, x in hs:
        sym, A, q, own = E.desc[id(x)]
        k = "own" if own else ("C" if sym == "C" else "H" if sym == "H" else "x")
        k += "i" if A and not own else ""
        k += "q" if q else ""
        out.append(k)
    return "-".join(out)


def check_class(E, entries, acc, tier, block="main", tables_before=()):
    n = len(entries)
    P = plan(n, tier, entries, block)
    cc = ClassCheck(E, entries, acc, tables_before)
    cc.block, cc.tier = block, tier
    v0 = acc.vcount
    k = 0
    for spec in members(E, entries, n, tier, P):
        cc.member(spec)
        k += 1
        if acc.vcount != v0:
            break                # one report per class: the rest of a broken class adds only noise
    if acc.vcount == v0 and P["parse_hill"]:
        cc.finish()
    acc.transitions += k
    if cc.distinct_atoms >= 2:
        acc.nontrivial += k
    acc.info["max_members_per_class"] = max(acc.info.get("max_members_per_class", 0), k)
    return cc


# ------------------------------------------------------------------ nested groups
# Groups inside groups, with a multiplier at every level.  The leaves keep their counts, so the totals are
# whatever the multipliers make of them: the class of a tree is the multiset the check's OWN counter
# (mc.ref.hill.totals: leaf count x the multipliers of all enclosing groups, exact Fractions) gets for it.
NEST_MULTS = (1, 2, 3, 0.5)
NEST_MULTS_NOT_1 = (2, 3, 0.5)
NEST_TOKENS = ("C", "H", "D", "O[18]", "Fe[56]{2+}")
# leaves for the large sets of shapes: different atoms / one atom in several groups / ions and isotopes
NEST_LEAVES = {
    2: [[("C", 1), ("H", 2)], [("D", 0.5), ("D", 1)], [("Fe[56]{2+}", 2), ("Cl{-}", 0.5)]],
    3: [[("C", 1), ("H", 2), ("O[18]", 0.5)], [("H", 1), ("D", 2), ("H", 0.5)],
        [("Fe[56]{2+}", 2), ("Cl{-}", 1), ("Fe[56]{2+}", 1)]],
    4: [[("C", 1), ("H", 2), ("O", 0.5), ("D", 1)], [("H", 2), ("O", 1), ("H", 1), ("O[18]", 0.5)]],
}


def _fam(name, leaves, depth, shards, parse, singletons=True, only_deepest=False, mults=NEST_MULTS):
    return dict(name=name, leaves=leaves, depth=depth, shards=shards, parse=parse, singletons=singletons,
                only_deepest=only_deepest, mults=mults)


PARSE_MULTS = (2, 0.5)


def nested_families(tier):
    """The bound of the block (META.bound describes it).  Per family: the leaf sequences, the nesting depth,
    whether a group may hold a single node, whether only the trees of exactly that depth are taken (the
    shallower ones belong to another family), and which trees are ALSO printed and parsed (parsing costs
    twenty times as much as the other three spellings together):
        all      every tree
        shallow  trees of depth <= 2, and the deeper ones over NEST_TOKENS
        fixed    the leaf sequences of NEST_LEAVES: every tree; the others: as `mults`
        mults    the trees whose multipliers are all in PARSE_MULTS"""
    quick = tier == "quick"
    types = [(t, c) for t in NEST_TOKENS for c in COUNTS]
    one = [[(a[0], c)] for a in ALPHABET for c in COUNTS]
    pairs = [list(p) for p in itertools.product(types, repeat=2)]
    pairs += [l for l in NEST_LEAVES[2] if l not in pairs]
    if quick:
        return [_fam("one-leaf", one, 3, 2, "shallow"),
                _fam("two-leaves", pairs, 2, 25, "fixed-only"),
                _fam("two-leaves-deep", NEST_LEAVES[2], 3, 6, "mults", only_deepest=True),
                _fam("three-leaves", NEST_LEAVES[3], 2, 9, "mults"),
                _fam("four-leaves-no-singletons", NEST_LEAVES[4], 3, 1, "all", singletons=False)]
    # the large sets of shapes of the thorough tier leave the multiplier 1 out (NEST_MULTS_NOT_1): it is the one
    # that changes no count, and it is at every level of the smaller families
    deep_pairs = [[(t, a), (u, b)] for t in ("C", "D") for a in COUNTS for u in ("C", "D") for b in COUNTS]
    deep_pairs += [l for l in NEST_LEAVES[2] if l not in deep_pairs]
    triples = [[("C", a), ("H", b), ("D", c)] for a, b, c in itertools.permutations(COUNTS)]
    return [_fam("one-leaf", one, 4, 7, "all"),
            _fam("two-leaves", pairs, 2, 10, "fixed"),
            _fam("two-leaves-deep", deep_pairs, 3, 38, "fixed", only_deepest=True),
            _fam("three-leaves", triples + NEST_LEAVES[3], 2, 18, "mults"),
            _fam("three-leaves-deep", NEST_LEAVES[3][:1], 3, 16, "mults", only_deepest=True, mults=NEST_MULTS_NOT_1),
            _fam("four-leaves", NEST_LEAVES[4][:1], 2, 12, "mults", mults=NEST_MULTS_NOT_1),
            _fam("four-leaves-no-singletons", NEST_LEAVES[4], 3, 1, "all", singletons=False)]


def _tree_mults(tree, out):
    for c, x in tree:
        if isinstance(x, list):
            out.add(c)
            _tree_mults(x, out)
    return out


def _parsed_too(fam, leaves, tree, d):
    rule = fam["parse"]
    if rule == "all":
        return True
    if rule == "shallow":
        return d <= 2 or all(t in NEST_TOKENS for t, c in leaves)
    if rule in ("fixed", "fixed-only") and leaves in NEST_LEAVES.get(len(leaves), []):
        return True
    if rule == "fixed-only":
        return False
    return _tree_mults(tree, set()) <= set(PARSE_MULTS)


def check_nested(E, fam, leaves, trees, acc, tier):
    """trees: nestings of `leaves`.  They are sorted into classes by their own totals; a class starts with
    the flat spelling of its totals (the reference of canonicity), then every tree of the class as a nested
    list, as a parsed string, as operators m*(f + g) and as operators with every operand observed first."""
    classes = {}
    leaves = [tuple(l) for l in leaves]
    for tree in trees:
        d = R.depth(tree)
        if fam["only_deepest"] and d != fam["depth"]:
            continue
        tot = {}
        for t, q in R.totals(tree).items():
            t = E.first_token[id(E.atom[t])]
            tot[t] = tot.get(t, 0) + q
        try:
            entries = [(t, R.exact_float(q)) for t, q in tot.items()]
        except ValueError as e:
            raise MachineryError("nested alphabet: %s" % e)
        key = tuple(entries)
        cc = classes.get(key)
        k = 0
        if cc is None:
            cc = classes[key] = ClassCheck(E, entries, acc)
            cc.block, cc.tier, cc.broken = "nested", tier, False
            acc.count("classes")
            acc.count("classes_nested")
            v = acc.vcount
            cc.member(["struct", [[c, t] for t, c in entries]])
            k += 1
            cc.broken = acc.vcount != v
        if not cc.broken:
            specs = [["struct", tree], ["arith", "tree", tree], ["arith", "tree-observed", tree]]
            if _parsed_too(fam, leaves, tree, d):
                specs.append(["parse", R.text(tree, lambda t: t)])
                acc.count("nested_trees_parsed")
            for spec in specs:
                v = acc.vcount
                cc.member(spec)
                k += 1
                if acc.vcount != v:
                    cc.broken = True     # one report per class
                    break
            acc.outcome("nesting-depth:%d" % d)
            acc.count("nested_trees")
        acc.transitions += k
        if cc.distinct_atoms >= 2:
            acc.nontrivial += k
    return classes


def _nested_shard(args):
    tier, fi, idx, nshards = args
    fam = nested_families(tier)[fi]
    name, leafseqs, depth, singletons = fam["name"], fam["leaves"], fam["depth"], fam["singletons"]
    acc = Acc()
    E = env("public")
    whole = len(leafseqs) >= nshards       # enough leaf sequences: a shard takes whole ones
    for li, leaves in enumerate(leafseqs):
        if whole and li % nshards != idx:
            continue
        trees = R.nestings(leaves, fam["mults"], depth, singletons)
        if not whole:
            trees = itertools.islice(trees, idx, None, nshards)
        classes = check_nested(E, fam, leaves, trees, acc, tier)
        acc.count("nested_leaf_sequences_" + name, 1 if whole or idx == 0 else 0)
        if li % 40 == 0 and idx == 0 and classes:
            cc = list(classes.values())[-1]
            acc.sample(dict(block="nested", family=name, leaves=[list(x) for x in leaves], depth=depth,
                            totals=[list(e) for e in cc.entries], hill=cc.h0_str))
        if any(cc.skipped for cc in classes.values()):
            acc.count("classes_with_skipped_members", sum(1 for cc in classes.values() if cc.skipped))
    return acc


# ------------------------------------------------------------------ nested groups, counts that need every digit
PRECISE_NESTED_SHARDS = {"quick": 16, "thorough": 48}
BASE_MULTS = (3, 0.5)


def precise_trees(tier):
    """The bound of the block `nested-precise` (META.bound describes it): (family, tree) in a fixed order.
    one leaf: EVERY assignment of PRECISE + (3,) to the positions (leaf count, multipliers) of a leaf under
    0..2 groups (0..3 in the thorough tier); more leaves: mc.ref.hill.placements - every PRECISE value at every
    single position of every bracketing (the other positions hold the leaves' short counts and the baseline
    multiplier, 3 or 0.5), and all positions at once in eight rotations."""
    quick = tier == "quick"
    values = list(PRECISE)
    for tok in PRECISE_TOKENS:
        for shape in R.nestings([(tok, 1)], (3,), 2 if quick else 3):
            for tree in R.cross(shape, values + [3]):
                if any(c in PRECISE for c in R.counts_of(tree)):
                    yield "one-leaf", tree
    fams = [("two-leaves", [("C", 1), ("H", 2)], 3), ("two-leaves-one-atom", [("D", 1), ("D", 2)], 3),
            ("three-leaves", [("C", 1), ("H", 2), ("C", 0.5)], 2)]
    if not quick:
        fams += [("two-leaves-ions", [("Fe[56]{2+}", 2), ("Cl{-}", 0.5)], 3),
                 ("three-leaves-one-atom", [("D", 1), ("D", 2), ("D", 0.5)], 2),
                 ("three-leaves-deep", [("C", 1), ("H", 2), ("C", 0.5)], 3)]
    for name, leaves, depth in fams:
        for base in BASE_MULTS:
            if quick and name == "three-leaves" and base != BASE_MULTS[0]:
                continue             # the quick tier takes the three leaves with the baseline 3 only
            for shape in R.nestings(leaves, (base,), depth):
                if name == "three-leaves-deep" and R.depth(shape) != depth:
                    continue
                for tree in R.placements(shape, values):
                    yield name, tree


def precise_class(E, tree):
    """(entries, exact) of a tree: the totals by the check's own exact counter, and whether each is determined."""
    tot, how = {}, {}
    for t, q in R.totals(tree).items():
        k = E.first_token[id(E.atom[t])]
        tot[k] = tot.get(k, 0) + q
    for t, (n, inexact) in R.terms(tree).items():
        k = E.first_token[id(E.atom[t])]
        rec = how.setdefault(k, [0, 0])
        rec[0] += n
        rec[1] = max(rec[1], inexact)
    exact = [(k, q, how[k][0] == 1 and how[k][1] <= 2) for k, q in tot.items()]
    return [(k, float(q)) for k, q in tot.items()], exact


def check_precise_tree(E, tree, acc, tier):
    """One tree is one class: its totals are no floats, the next tree has others.  Members: the flat spelling
    and the dict of the correctly rounded totals, the tree as a nested list, as operators (plain and with every
    operand observed), as a parsed string; then (e), the string written in the order of the Hill form."""
    entries, exact = precise_class(E, tree)
    cc = ClassCheck(E, entries, acc, exact=exact)
    cc.block, cc.tier = "nested-precise", tier
    acc.count("classes")
    acc.count("classes_nested_precise")
    specs = [["struct", [[c, t] for t, c in entries]], ["dict", [[t, c] for t, c in entries]],
             ["struct", tree], ["arith", "tree", tree], ["arith", "tree-observed", tree],
             ["parse", R.text(tree, lambda t: t)]]
    v, k = acc.vcount, 0
    for spec in specs:
        cc.member(spec)
        k += 1
        if acc.vcount != v:
            break
    if acc.vcount == v:
        cc.finish()
    acc.outcome("nesting-depth:%d" % R.depth(tree))
    acc.outcome("totals-determined:%s" % ("all" if all(st for t, q, st in exact) else
                                          "none" if not any(st for t, q, st in exact) else "some"))
    acc.transitions += k
    if cc.distinct_atoms >= 2:
        acc.nontrivial += k
    return cc


def _precise_nested_shard(args):
    tier, idx, nshards = args
    acc = Acc()
    E = env("public")
    for i, (name, tree) in enumerate(precise_trees(tier)):
        if i % nshards != idx:
            continue
        cc = check_precise_tree(E, tree, acc, tier)
        acc.count("nested_precise_trees_" + name)
        if cc.skipped:
            acc.count("classes_with_skipped_members")
        if i % 2003 == 0:
            acc.sample(dict(block="nested-precise", family=name, tree=tree, totals=[list(e) for e in cc.entries],
                            hill=cc.h0_str))
    return acc


def _job(args):
    if args[0] == "nested-precise":
        return _precise_nested_shard(args[1:])
    return _nested_shard(args[1:]) if args[0] == "nested" else _shard(args)


BLOCKS = {
    # block: (alphabet, counts, tables)
    "main": (ALPHABET, COUNTS, False),
    "tables": (ALPHABET, COUNTS, True),
    "special": (SPECIAL, (1,), True),
    "special-counts": (SPECIAL, COUNTS, True),
    # counts that need every digit of a float (classes with at least one of them), n <= 2; and n = 3 over
    # fewer atoms and the three counts whose sums depend on the order of summation
    "precise": ([TOK[t] for t in PRECISE_TOKENS], PRECISE + COUNTS, False),
    "precise-sums": ([TOK[t] for t in PRECISE_SUM_TOKENS], PRECISE_SUM_COUNTS, False),
}
PLAN_BLOCK = {"special-counts": "special", "precise-sums": "precise"}


def classes(n, block="main"):
    alphabet, counts, _ = BLOCKS[block]
    types = [(a[0], c) for a in alphabet for c in counts]
    every = itertools.combinations_with_replacement(types, n)
    if block == "precise":
        return (e for e in every if any(c in PRECISE for t, c in e))
    return every


def _shard(args):
    tier, block, n, idx, nshards = args
    several = BLOCKS[block][2]
    acc = Acc()
    for i, entries in enumerate(classes(n, block)):
        if i % nshards != idx:
            continue
        # every class of a block with several tables is worked through on all of them, in one process;
        # the order rotates through all six, so every table is met before and after every other
        order = KIND_ORDERS[(i // nshards) % len(KIND_ORDERS)] if several else ("public",)
        done = []
        v0 = acc.vcount
        for kind in order:
            cc = check_class(env(kind), list(entries), acc, tier, PLAN_BLOCK.get(block, block), done)
            done.append(kind)
            acc.outcome("table:" + kind)
            acc.count("class_table_pairs")
            if cc.skipped:
                acc.count("classes_with_skipped_members")
            if acc.vcount != v0:
                break
        acc.count("classes")
        acc.count("classes_n%d" % n if block == "main" else "classes_%s_n%d" % (block, n))
        if i % 4001 == 0:
            acc.sample(dict(block=block, entries=[list(e) for e in entries], tables=list(order),
                            hill=cc.h0_str, members=acc.info.get("max_members_per_class")))
    return acc


SHARDS = {"main": {1: 1, 2: 4, 3: 64, 4: 256}, "tables": {1: 1, 2: 12},
          "special": {1: 1, 2: 2, 3: 24, 4: 192}, "special-counts": {1: 1, 2: 12},
          "precise": {1: 1, 2: 4}, "precise-sums": {3: 2}}


def run(ctx):
    nmax = 3 if ctx.quick else 4
    jobs = []
    for block in ("main", "special", "tables", "special-counts"):
        top = nmax if block in ("main", "special") else 2
        for n in range(1, top + 1):
            nsh = SHARDS[block][n]
            for idx in range(nsh):
                jobs.append((ctx.tier, block, n, idx, nsh))
    for block in ("precise", "precise-sums"):
        for n, nsh in sorted(SHARDS[block].items()):
            for idx in range(nsh):
                jobs.append((ctx.tier, block, n, idx, nsh))
    for fi, fam in enumerate(nested_families(ctx.tier)):
        for idx in range(fam["shards"]):
            jobs.append(("nested", ctx.tier, fi, idx, fam["shards"]))
    nsh = PRECISE_NESTED_SHARDS[ctx.tier]
    for idx in range(nsh):
        jobs.append(("nested-precise", ctx.tier, idx, nsh))
    jobs = rotate(jobs, ctx.seed)
    # large shards first
    jobs.sort(key=lambda j: -(2.5 if j[0] in ("nested", "nested-precise") else j[2]))
    ctx.pmap(_job, jobs)
    acc = ctx.acc
    acc.info["max_entries_completed"] = nmax
    skipped = acc.info.get("members_not_in_class", 0) + acc.info.get("members_not_built", 0)
    if skipped:
        acc.cap("%d member spellings did not denote the intended atoms (construction is C01/C02) and were "
                "left out of their classes" % skipped)


def replay(ctx, case, signature=None):
    entries = [(t, c) for t, c in case["entries"]]
    block, tier = case.get("block", "main"), case.get("tier", "quick")
    for kind in case.get("tables_before", []):
        # the history of the run: the same class on the tables that came first (not judged again)
        check_class(env(kind), list(entries), Acc(), tier, block)
    E = env(case.get("table", "public"))
    exact = None
    if case.get("exact") is not None:
        exact = [(t, Fraction(int(n), int(d)), st) for t, n, d, st in case["exact"]]
    cc = ClassCheck(E, entries, ctx.acc, case.get("tables_before", []), exact=exact)
    cc.block, cc.tier = block, tier
    specs = case["members"]
    if signature and signature.startswith("parsed-in-hill-order"):
        # member 0 is the parsed string itself: rebuild the class reference from it, then run (e)
        cc.member(specs[0])
        if not ctx.acc.viol:
            cc.finish()
        return
    for spec in specs:
        cc.member(spec)
