"""C13 - printing a formula and parsing it back gives the same formula (E1, producer graph;
DESIGN section 4, C13).

State  = a formula as the printer sees it: (structure with container and count types, name).
Graph  = the PRODUCERS of formulas:
         P  parsing: sentences of the C01 generators (lexical + structural + count chains) and the
            same structural generator with the count menu replaced by the magnitude list;
         S  direct construction: every atom of the table as a one-atom formula; every atom of the
            C13 alphabet x every magnitude x every position (atom count, group count, inside a
            group, before / after another piece, dict, n*atom, n*group); all ordered atom pairs;
         A  formula arithmetic: the operator graph  r=s+g, s+=g, r=n*s, r=formula(s),
            r=formula(s.atoms), r=formula([(c, s.structure)]), r=s+t, s+=t  to depth 2 (3);
         M  mixtures: mix_by_weight / mix_by_volume over components x quantities (calls, named calls
            and the string forms), depth 1.
         Every produced formula is also re-produced with a name (formula(f, name=...)).
         N  awkward names: every name of 1..2 (3) characters over {a, blank, ', ", \\, a non-ASCII letter,
            newline} given through every route a formula comes by a name (name= of formula() on a string / a
            structure / a Formula, name= of the mixture calls, the .name attribute, n*named, named += g).
         H  round-trip histories: event sequences over a few texts - parse(text), parse(text, name=), build
            the formula that PRINTS as that text from atoms, customise the formula made last in place
            (+=, .name, .density), n*last - each path in its own chain of forked interpreters that start
            from one in which nothing was ever parsed; after every event ALL live formulas are judged
            (a parsed formula nobody named must print as a formula and read back as itself, however the
            caller customised an earlier formula parsed from the same text).
Oracle = s = str(f): formula(s) must succeed (public table) and return the same nesting (modulo the
         grammar's own (X)1 == X), the identical atom objects and every count equal to f's count to
         six significant digits (exactly, when the count needs no more); repr(f) == "formula('%s')" % s;
         a named formula prints its name; the formula g read back must itself round-trip (free when
         str(g) == s, else one more parse).
States are de-duplicated by the whole printer input (structure, types, name), so merging is exact."""
import os, re, copy
from decimal import Decimal, ROUND_HALF_EVEN, localcontext
from ..common import Acc, MachineryError, load_pt, rotate
from ..ref import formula as R
from . import c01

META = dict(
    level="model_checking", engine="E1",
    technique="bounded-exhaustive exploration of the producer graph of formulas; print/parse round trip on every state",
    rule=("every formula produced by (P) parsing a generated sentence, (S) direct construction over atoms x "
          "count magnitudes x positions, (A) an operator sequence of the arithmetic graph, (M) a mixture call "
          "or mixture string is printed, parsed back and compared; distinct = distinct printer input (nested "
          "structure with count and container types, atoms, name, requested name), merged across all producers "
          "and shards; non-trivial = anything but the empty formula and a bare count-1 element.  The named copy "
          "formula(f, name=...) of every silent unnamed state is judged too, but counted apart "
          "(info.named_copies_*), not as a state.  N: names over an alphabet of characters that a quoting repr "
          "would treat specially, through every naming route.  H: every event history of <= 4 events over "
          "{parse, parse with name=, build from atoms} x texts and {+=, .name, .density, 2*f} on the formula made "
          "last, starting from an interpreter that has parsed nothing; all live formulas are judged after every "
          "event; a violating history has no successors; cause = the earlier events that are individually "
          "necessary (re-run in fresh interpreters)"),
    bound=dict(
        quick=("P: C01 lexical graph <= 2 symbols over the 14 colliding symbols (all 6 separators, all decorations) "
               "and all 2744 adjacent triples; C01 structural graph <= 2 elements over {H,O,Co,D}, deviation <= 2, "
               "nesting <= 2, all C01 menus; C01 count chains (deviation 3..4, nesting <= 3); magnitude graph: <= 2 "
               "elements over {H,D,T,O}, 1 isotope tag, ion tags {+,-}, every count / group count from the 18 "
               "magnitude spellings, leading counts {2, 0.00001, 1234567}, deviation <= 2, nesting <= 2.  "
               "S: all 17 763 atoms of the table (elements, ions, isotopes x counts {1, 2.5}; isotope ions with "
               "count 1); 13 atoms x 19 magnitudes x 10 positions; 169 ordered atom pairs x 9 count pairs.  "
               "A: 15 bases (string, atom, dict, nested list/tuple, count-1 group, named), base + 2 operators, 19 "
               "multipliers, 6 wrapping counts, every base as operand.  M: 9 components, all ordered pairs x 81 "
               "quantity pairs x {weight, volume}, triples over 4 components x 27 quantity triples, single "
               "component, named calls, wt% / vol% / mass-unit / layer strings over 7 component spellings.  "
               "N: 56 names (length <= 2 over 7 characters) x 10 naming routes.  H: histories of <= 4 events over 3 "
               "texts (H2O, CaCO3, 'CaCO3 6H2O' which prints as CaCO3(H2O)6 = CaCO3 += 6 H2O): 9 producers + 4 "
               "updates, 21 420 histories"),
        thorough=("as quick, plus P: lexical triples also blank-separated and with one decoration (adjacent); count "
                  "chains deviation 3..5; C01 structural graph with 3 elements over {H,Co,D}; magnitude graph at "
                  "deviation 3 with 6 magnitudes; S: every atom of the table x counts {1, 2.5, 0.1234567}; "
                  "A: base + 3 operators, the third with 5 multipliers, 2 wrapping counts, 3 operands; "
                  "M: triples over 6 components; N: 399 names (length <= 3); H: histories of <= 4 events over 5 texts "
                  "(+ D2O, Fe[56]{3+}O[18]1.5): 15 producers + 4 updates, 108 600 histories")),
    assumptions=[
        "public table only: str() carries no table, so formulas over a private table are read back with other "
        "atom objects - the text does not say which table applies; excluded",
        "positive counts only (quantifier); no zero multipliers, no zero quantities, no empty groups",
        "six significant digits = |count read back - count| <= half a unit of the sixth digit of the count, and "
        "exact equality when the correctly rounded six-digit value is the count itself; so a printer that shows "
        "MORE digits stays silent, one that shows fewer does not",
        "(X)1 == X: a group whose count is 1 (or prints as 1 at six digits) may come back spliced into its parent; "
        "nothing else about the nesting may change (container types list/tuple and int/float are not compared)",
        "a named formula is one whose .name is set; n*named and named+=g keep the name (copy semantics of the "
        "library) and are judged as named; their structure is judged through the unnamed twin",
        "idempotence str(formula(str(f))) == str(f) is not required literally (the text does not ask for it): when "
        "the second print differs, the formula read back must round-trip in its own right",
        "producers that raise are not judged here (C01 / C02 / C11); they are counted under outcome producer-raised",
        "names: the statement makes no exception for any character ('repr shows formula('<that string>')', 'a named "
        "formula prints its name'), so quotes, backslash, non-ASCII and the newline are judged literally; the empty "
        "name is no name",
        "histories: a formula parsed without name= that nobody named afterwards is an unnamed formula (it must print "
        "a string of the grammar) whatever its .name attribute says; n*named and named += g are judged by the .name "
        "they have (copy semantics of the library); "
        "the density is customised but never judged (C13 says nothing about it)",
        "boundary magnitudes added to the list of the design: 10, 1200000 (trailing zeros), 1.00001 (needs all six "
        "digits), 1.0000001 (prints as 1: the count==1 elision against %g)",
    ],
    level_text=("every formula of the stated finite producer families was printed by the real printer and read back "
                "by the real parser; nothing is claimed for other atoms, magnitudes or deeper operator sequences"),
    level_note=("trusted: decimal arithmetic of the standard library for the six-digit rounding; attribute access of "
                "the table (C08); the sentence generators of C01 (only as producers - a sentence the parser rejects "
                "is simply not a state)"),
)

# ------------------------------------------------------------------------------------ alphabets
#: the magnitude list of the design
MAGS = (1, 2, 0.5, 1.5, 1.0 / 3, 0.1234567, 1e-3, 1e-4, 9.9e-5, 1e-5, 123456, 999999.5, 1234567, 1e6,
        32.43950556758257)
#: code-visible break points added: trailing zeros, all six digits needed, prints as "1"
BOUNDARY = (10, 1200000, 1.00001, 1.0000001)
ALLMAGS = MAGS + BOUNDARY
#: spellings of the magnitudes in the grammar's count syntax (no exponent, no leading zeros)
MAG_TEXT = ("2", "0.5", "1.5", "0.3333333333333333", "0.1234567", "0.001", "0.0001", "0.000099", "0.00001",
            "123456", "999999.5", "1234567", "1000000", "32.43950556758257", "10", "1200000", "1.00001",
            "1.0000001")
#: atoms of the C13 alphabet: (symbol of the element, isotope or 0, charge)
ATOMS = (("H", 0, 0), ("O", 0, 0), ("Co", 0, 0), ("H", 2, 0), ("H", 3, 0), ("H", 2, 1), ("H", 3, -1),
         ("H", 1, 1), ("H", 0, 1), ("O", 18, 0), ("Fe", 0, 2), ("Fe", 56, 3), ("O", 16, -2))
PAIR_COUNTS = (1, 2, 0.5)
NAME = "sample 1 (named)"
#: awkward names: every string of 1..2 (3) characters over a plain letter, the blank, both quotes, the backslash,
#: a non-ASCII letter and a control character (the statement says repr SHOWS formula('<str>') - it makes no
#: exception for characters that Python's own repr would escape or that make it switch quotes)
NAME_CHARS = ("a", " ", "'", '"', "\\", "\u00b5", "\n")
WRAPS = (1, 2, 0.5, 1e-5, 1234567, 1.0000001)
MULTS_LAST = (2, 1.0 / 3, 1e-5, 1234567, 1.0000001)      # thorough: multipliers of the third operator
MIX_QS = (1, 2, 0.5, 1.0 / 3, 1e-3, 1e-5, 123456, 1e6, 1234567)
MIX_QS3 = (1, 1e-5, 1234567)

_ENV = {}


class Env(object):
    """The library under test, per process (public table)."""

    def __init__(self):
        pt = load_pt()
        import periodictable.formulas as F
        self.pt = pt
        self.T = pt.elements
        self.formula = F.formula
        self.mix = dict(w=F.mix_by_weight, v=F.mix_by_volume)
        self.memo = {}            # state key -> list of findings
        self.keys = {}            # hash of state key -> nontrivial?
        self._atoms = {}
        self.parsed = {}
        self.diag = {}

    def atom(self, key):
        key = tuple(key)
        a = self._atoms.get(key)
        if a is None:
            sym, iso, q = key
            a = getattr(self.T, sym)
            if iso:
                a = a[iso]
            if q:
                a = a.ion[q]
            self._atoms[key] = a
        return a

    def akey(self, a):
        return (self.T[a.number].symbol, getattr(a, "isotope", 0), getattr(a, "charge", 0))


def env():
    e = _ENV.get(os.getpid())
    if e is None:
        e = _ENV[os.getpid()] = Env()
    return e


# ------------------------------------------------------------------------------------ structures <-> JSON
def _isseq(x):
    return isinstance(x, (list, tuple))


def from_json(E, j):
    return [(c, E.atom(frag) if (frag and isinstance(frag[0], str)) else from_json(E, frag)) for c, frag in j]


def state_key(E, f):
    def k(struct):
        return (type(struct).__name__,) + tuple(
            (type(c).__name__, repr(c), k(frag) if _isseq(frag) else E.akey(frag)) for c, frag in struct)
    return (f.name or None, k(f.structure))


def pyatom(key):
    sym, iso, q = key
    base = {("H", 2): "pt.D", ("H", 3): "pt.T"}.get((sym, iso), "pt.%s%s" % (sym, "[%d]" % iso if iso else ""))
    return base + (".ion[%d]" % q if q else "")


def pystruct(j):
    return "[" + ", ".join("(%r, %s)" % (c, pyatom(frag) if (frag and isinstance(frag[0], str)) else pystruct(frag))
                           for c, frag in j) + "]"


def show(E, struct):
    """Printable form of a structure that does not use the printer under test."""
    return "(" + ", ".join("%r*%s" % (c, show(E, frag) if _isseq(frag) else pyatom(E.akey(frag))[3:])
                           for c, frag in struct) + ")"


# ------------------------------------------------------------------------------------ oracle
def round6(c):
    """The count correctly rounded (half even) to six significant digits, as an exact Decimal."""
    with localcontext() as ctx:
        ctx.prec = 60
        d = Decimal(c)
        if d == 0:
            return d
        return d.quantize(Decimal(1).scaleb(d.adjusted() - 5), rounding=ROUND_HALF_EVEN)


def needs_no_more(c):
    return float(round6(c)) == float(c)


def count_ok(cf, cg):
    """Is the count read back equal to the count of f 'to the printed precision'?"""
    if isinstance(cg, bool) or not isinstance(cg, (int, float)):
        return False
    if needs_no_more(cf):
        return cg == cf
    with localcontext() as ctx:
        ctx.prec = 60
        tol = Decimal(5).scaleb(Decimal(cf).adjusted() - 6) * (1 + Decimal("1e-9"))
        return abs(Decimal(cg) - Decimal(cf)) <= tol


def norm(struct, six):
    """Nested lists of (count, atom | list) with the count-1 groups spliced into their parent.
    six: a group counts as count-1 when its count PRINTS as 1 at six digits."""
    out = []
    for c, frag in struct:
        if _isseq(frag):
            sub = norm(frag, six)
            one = (float(round6(c)) == 1.0) if six else (c == 1)
            if one:
                out.extend(sub)
            else:
                out.append((c, sub))
        else:
            out.append((c, frag))
    return out


def match(E, fn, gn):
    """None, or (what, expected, observed) for the first difference between two normal forms."""
    if len(fn) != len(gn):
        return ("nesting", "%d pieces: %s" % (len(fn), show(E, fn)), "%d pieces: %s" % (len(gn), show(E, gn)))
    for (cf, ff), (cg, fg) in zip(fn, gn):
        if isinstance(ff, list) != isinstance(fg, list):
            return ("nesting", show(E, [(cf, ff)]), show(E, [(cg, fg)]))
        if isinstance(ff, list):
            r = match(E, ff, fg)
            if r:
                return r
        elif ff is not fg:
            return ("atom", "%s (the same object)" % pyatom(E.akey(ff)), "%s%s" % (
                pyatom(E.akey(fg)), " (another object)" if E.akey(ff) == E.akey(fg) else ""))
        if not count_ok(cf, cg):
            want = repr(cf) if needs_no_more(cf) else "%r to six digits = %s" % (cf, round6(cf))
            return ("count", want, repr(cg))
    return None


def same(E, fs, gs):
    """Compare the structure of f with the one read back: None or (what, expected, observed)."""
    gn = norm(gs, False)
    first = match(E, norm(fs, True), gn)
    if first is None or match(E, norm(fs, False), gn) is None:
        return None
    return first


def atom_kind(E, a):
    sym, iso, q = E.akey(a)
    dt = sym == "H" and iso in (2, 3)
    return ("DT" if dt else "isotope" if iso else "element") + ("-ion" if q else "")


_EXPONENT = re.compile(r"[0-9.][eE][+-]?[0-9]")


def _leaves(struct, atoms, counts):
    for c, frag in struct:
        if _isseq(frag):
            counts.setdefault(("group", type(c).__name__, repr(c)), c)
            _leaves(frag, atoms, counts)
        else:
            counts.setdefault(("atom", type(c).__name__, repr(c)), c)
            atoms.setdefault(id(frag), frag)


def count_class(c):
    if c < 1e-4:
        return "below-1e-4"
    if float(round6(c)) >= 1e6:
        return "1e6-or-more"
    return "six-digits-suffice" if needs_no_more(c) else "more-than-six-digits"


def _diagnose_atom(E, a):
    """Cause name if the atom alone does not survive print + parse, else None."""
    p = None
    try:
        p = str(E.formula([(1, a)]))
        st = E.formula(p).structure
        ok = len(st) == 1 and st[0][1] is a and st[0][0] == 1
    except Exception:
        ok = False
    if ok:
        return None
    kind = atom_kind(E, a)
    if kind == "DT-ion" and p and "[" in p:
        return "DT-ion-printed-with-isotope-tag"
    return "atom-does-not-round-trip:" + kind


def _diagnose_count(E, pos, c):
    """Cause name if the count alone (on H, or on the group (HO)) does not survive, else None."""
    H, O = E.atom(("H", 0, 0)), E.atom(("O", 0, 0))
    probe = [(c, H)] if pos == "atom" else [(c, [(1, H), (1, O)])]
    p = back = None
    try:
        p = str(E.formula(probe))
        gs = E.formula(p).structure
        ok = same(E, probe, gs) is None
        # a group probe that comes back spliced was read with count 1
        back = gs[0][0] if len(gs) == 1 else 1 if (pos == "group" and len(gs) == 2) else None
    except Exception:
        ok = False
    if ok:
        return None
    if p and _EXPONENT.search(p):
        return "count-printed-in-exponent-notation"
    if back is None:
        return "count-printed-unreadable"
    if isinstance(back, (int, float)) and abs(back - c) <= 0.01 * c:
        return "count-printed-with-less-than-six-digits"
    return "count-changed"


def diagnose(E, f, what):
    """Name the CAUSE of a failed round trip: print every atom and every count of f on its own and
    see which of them fails alone.  (Only names the signature; the verdict is already in.)"""
    causes = set()
    atoms, counts = {}, {}
    _leaves(f.structure, atoms, counts)
    for a in atoms.values():
        k = ("atom", E.akey(a))
        if k not in E.diag:
            E.diag[k] = _diagnose_atom(E, a)
        causes.add(E.diag[k])
    for k, c in counts.items():
        if k not in E.diag:
            E.diag[k] = _diagnose_count(E, k[0], c)
        causes.add(E.diag[k])
    causes.discard(None)
    if not causes:
        causes.add({"rejected": "printed-string-rejected", "atom": "atom-changed", "count": "count-changed",
                    "nesting": "nesting-changed"}[what] + ":only-in-context")
    return sorted(causes)


def char_class(ch):
    return {"'": "apostrophe", '"': "double-quote", "\\": "backslash", " ": "blank"}.get(
        ch, "control-character" if (ord(ch) < 32 or ord(ch) == 127) else "non-ascii" if ord(ch) > 127 else "plain")


def repr_causes(f, name):
    """Input class of a named formula whose repr is not formula('<name>'): the classes of characters of the
    name that alone (as a one-character name of the same formula) already break it; ':named' if none does."""
    out = set()
    for ch in sorted(set(name)):
        g = copy.copy(f)
        g.name = ch
        try:
            ok = repr(g) == "formula('%s')" % str(g)
        except Exception:
            ok = False
        if not ok:
            out.add(":name-with-" + char_class(ch))
    if any(c.endswith("plain") for c in out):
        return [":named"]
    return sorted(out) or [":named"]


def judge(E, f, second=False, want_name=None, unnamed=False):
    """The property on one formula: list of (signature, expected, observed); [] = holds.
    want_name: the name the producer was asked to give (else a formula is named iff .name is set).
    unnamed: nobody ever named this formula (histories), so it must print as a formula whatever .name says."""
    try:
        s = str(f)
        r = repr(f)
    except Exception as e:
        return [("printing-raises:" + type(e).__name__, "a string", "%s: %s" % (type(e).__name__, e))]
    if not isinstance(s, str):
        return [("str-is-not-a-string", "a string", repr(s))]
    name = None if unnamed else (want_name or f.name)
    bad = []
    if r != "formula('%s')" % s:
        for cause in (repr_causes(f, name) if name and s == name else [""]):
            bad.append(("repr-is-not-formula-of-str" + cause, "formula('%s')" % s, r))
    if name:
        if s != name:
            bad.append(("named-formula-does-not-print-its-name", name, s))
        return bad
    try:
        g = E.formula(s)
        gs = g.structure
    except Exception as e:
        obs = "str = %r; formula(str) raises %s: %s" % (s, type(e).__name__, str(e)[:160])
        return bad + [(sig, "formula(%r) succeeds" % s, obs) for sig in diagnose(E, f, "rejected")]
    diff = same(E, f.structure, gs)
    if diff is not None:
        what, exp, obs = diff
        return bad + [(sig, "%s: %s" % (what, exp), "str = %r; read back %s: %s" % (s, what, obs))
                      for sig in diagnose(E, f, what)]
    if bad or second:
        return bad
    # the formula read back is itself a formula "produced by parsing"
    try:
        s2 = str(g)
    except Exception as e:
        return [("printing-raises:" + type(e).__name__, "a string", "str(formula(%r)): %s" % (s, e))]
    if s2 != s:
        E.second += 1
        return [("read-back-formula:" + sig, "formula(%r) round-trips: %s" % (s, exp), obs)
                for sig, exp, obs in judge(E, g, second=True)]
    return bad


Env.second = 0
Env.second_reported = 0


# ------------------------------------------------------------------------------------ cases
def snippet(case):
    k = case["kind"]
    head = "import periodictable as pt\nfrom periodictable import formula, mix_by_weight, mix_by_volume\n"
    kwname = ", name=%r" % case["name"] if case.get("name") else ""
    if k == "parse":
        body = "f = formula(%r%s)\n" % (case["s"], kwname)
    elif k == "list":
        body = "f = formula(%s%s)\n" % (pystruct(case["structure"]), kwname)
    elif k == "namedop":
        body = "f = formula(%s)\n%s\n" % (pystruct(NAMED_BASE), NAMED_OPS[case["op"]][0] % dict(n=repr(case["name"])))
    elif k == "history":
        return hist_code([tuple(ev) for ev in case["history"]])
    elif k == "dict":
        body = "f = formula({%s})\n" % ", ".join("%s: %r" % (pyatom(a), c) for a, c in case["items"])
    elif k == "rmul":
        body = "f = %r * formula(%s)\n" % (case["n"], pystruct(case["structure"]))
    elif k == "ops":
        pr = "for x in L: str(x)\n" if case.get("eager") else ""
        body = "L = []\n" + "".join(_op_code(ev) + "\n" + pr for ev in case["history"]) + "f = L[%d]\n" % case["target"]
    elif k == "mix":
        args = ", ".join("%s, %r" % (COMPONENTS[lab][0], q) for lab, q in case["parts"])
        body = "f = %s(%s%s)\n" % ({"w": "mix_by_weight", "v": "mix_by_volume"}[case["fn"]], args,
                                   ", name=%r" % case["name"] if case.get("name") else "")
    else:
        raise MachineryError("unknown case kind %r" % k)
    if case.get("named"):
        body += "f = formula(f, name=%r)\n" % case["named"]
        return head + body + "print(str(f), repr(f))   # expected: the name, formula('<the name>')\n"
    if case.get("name"):
        return (head + body + "print(str(f) == %r, repr(f) == \"formula('\" + %r + \"')\")   # expected: True True\n"
                % (case["name"], case["name"]))
    return (head + body + "s = str(f); print(repr(s), repr(f))\n"
            "g = formula(s)            # must not raise\n"
            "print(f.structure); print(g.structure)   # same nesting and atoms, counts equal to 6 digits\n")


def produce(E, case):
    """Run the producer of a case: Formula (or raises)."""
    k = case["kind"]
    kwname = dict(name=case["name"]) if case.get("name") else {}
    if k == "parse":
        f = E.formula(case["s"], **kwname)
    elif k == "list":
        f = E.formula(from_json(E, case["structure"]), **kwname)
    elif k == "namedop":
        f = NAMED_OPS[case["op"]][1](E, E.formula(from_json(E, NAMED_BASE)), case["name"])
    elif k == "dict":
        f = E.formula(dict((E.atom(a), c) for a, c in case["items"]))
    elif k == "rmul":
        f = case["n"] * E.formula(from_json(E, case["structure"]))
    elif k == "ops":
        live = Ops(E, eager=bool(case.get("eager"))).build([tuple(ev) for ev in case["history"]])
        f = live[case["target"]]
    elif k == "mix":
        args = []
        for lab, q in case["parts"]:
            comp = E.parsed.get("mix:" + lab)      # components are built once per process and
            if comp is None:                       # handed to the constructors as shallow copies
                comp = E.parsed["mix:" + lab] = COMPONENTS[lab][1](E)
            args += [copy.copy(comp), q]
        kw = dict(name=case["name"]) if case.get("name") else {}
        f = E.mix[case["fn"]](*args, **kw)
    else:
        raise MachineryError("unknown case kind %r" % k)
    if case.get("named"):
        f = E.formula(f, name=case["named"])
    return f


def _trivial(E, f):
    st = f.structure
    return not f.name and (len(st) == 0 or (len(st) == 1 and st[0][0] == 1 and not _isseq(st[0][1])
                                            and E.akey(st[0][1])[1:] == (0, 0)))


def check(E, acc, f, case, twin=False, want_name=None):
    """Judge one produced formula (memoised on the printer input).  Returns True when silent.
    twin: f is the named copy of a formula already judged (counted apart, not as a state)."""
    key = state_key(E, f) + (want_name,)
    found = E.memo.get(key)
    if twin:
        acc.count("named_copies_produced")
    else:
        acc.transitions += 1
    if found is None:
        found = E.memo[key] = judge(E, f, want_name=want_name)
        if twin:
            acc.count("named_copies_judged")
        else:
            acc.evaluations += 1
            E.keys[hash(key)] = not _trivial(E, f)
        if found:
            acc.outcome("VIOLATION:" + found[0][0].split(":")[0])
        elif twin:
            acc.outcome("named-copy:prints-name")
        elif f.name or want_name:
            acc.outcome("named:prints-name")
        else:
            st = f.structure
            acc.outcome("round-trip:%s" % ("empty" if not st else "one-atom" if len(st) == 1 and not _isseq(st[0][1])
                                           else "nested" if any(_isseq(x[1]) for x in st) else "flat"))
            atoms, counts = {}, {}
            _leaves(st, atoms, counts)
            for a in atoms.values():
                acc.outcome("atom:" + atom_kind(E, a))
            for (pos, _, _), c in counts.items():
                if c != 1:
                    acc.outcome("count:%s:%s" % (pos, count_class(c)))
        if not twin and hash(key) % 20011 == 7:
            acc.sample(dict(case=case, str=str(f) if not found else None))
    elif not twin:
        acc.count("merged_arrivals")
    for sig, exp, obs in found:
        acc.violation(sig, case, expected=exp, observed=obs, standalone=snippet(case))
    ok = not found
    if ok and not twin and not f.name and not want_name:
        try:
            fn = E.formula(f, name=NAME)
        except Exception:
            acc.outcome("producer-raised:name")
            return ok
        check(E, acc, fn, dict(case, named=NAME), twin=True, want_name=NAME)
    return ok


def run_case(E, acc, case):
    """Produce and judge; a producer that raises is not a state."""
    try:
        f = produce(E, dict(case, named=None))
    except MachineryError:
        raise
    except Exception as e:
        acc.outcome("producer-raised:%s" % case["kind"])
        return None
    want = case.get("name")
    if case["kind"] == "namedop" and case["op"] in ("mul", "iadd"):
        want = None          # n*named, named += g: judged as named only if the library keeps the name
    return check(E, acc, f, case, want_name=want)


def finish(E, acc):
    acc.keys = E.keys
    acc.count("second_round_trips", E.second - E.second_reported)
    E.second_reported = E.second
    return acc


# ------------------------------------------------------------------------------------ P: parsing
MAG_MENU = dict(syms=("H", "D", "T", "O"), counts=MAG_TEXT, gcounts=MAG_TEXT, leads=("2", "0.00001", "1234567"),
                dens=(), seps=((" ", 0), ("", 0)), max_isos=1, max_ions=2)
MAG_TEXT3 = ("0.5", "0.00001", "1234567", "0.1234567", "999999.5", "1.0000001")
MAG_MENU3 = dict(MAG_MENU, counts=MAG_TEXT3, gcounts=MAG_TEXT3, leads=("0.00001", "1234567"))


def shard_sentences(args):
    """Sentences of a C01 generator: ('struct', menu, nmax, budget, depth, part, nparts, only) or
    ('lex', firsts, n, gapset, deco_mode)."""
    E = env()
    acc = Acc()
    cenv = c01.env_for(False)
    seen = set()

    def one(s):
        if s in seen:
            return
        seen.add(s)
        acc.count("sentences")
        run_case(E, acc, dict(kind="parse", s=s))

    if args[0] == "struct":
        _, menu, nmax, budget, depth, part, nparts, only = args
        kw = MAG_MENU if menu == "mags" else MAG_MENU3 if menu == "mags3" else c01.MENUS[menu]
        gen = c01.Gen(cenv, **kw)
        for ast, nel, cost in gen.compounds(nmax, budget, depth, (part, nparts)):
            if only is not None and not ((only[0] is None or nel == only[0]) and only[1] <= cost <= only[2]):
                continue
            one(R.to_string(ast))
    else:
        _, firsts, n, gapset, deco_mode = args
        for syms in (x for first in firsts for x in c01._sequences(n, first)):
            for gaps in c01._layouts(n, gapset):
                one(R.to_string(c01.lex_ast(syms, gaps, c01.NO_DECO)))
                if deco_mode == "all" or (deco_mode == "adjacent" and all(g is None for g in gaps)):
                    ngroups = 1 + sum(1 for g in gaps if g is not None)
                    for deco in c01.lex_decorations(cenv, syms, ngroups):
                        one(R.to_string(c01.lex_ast(syms, gaps, deco)))
    return finish(E, acc)


# ------------------------------------------------------------------------------------ S: direct construction
def table_atoms(E):
    """Every element (Z >= 1), isotope, ion and isotope ion of the public table, as keys."""
    light, heavy = [], []
    for el in E.T:
        if el.number < 1:
            continue
        sym = el.symbol
        light.append((sym, 0, 0))
        for q in el.ions:
            light.append((sym, 0, q))
        for iso in el.isotopes:
            light.append((sym, iso, 0))
            for q in el.ions:
                heavy.append((sym, iso, q))
    return light, heavy


def shard_table(args):
    part, nparts, counts_light, counts_heavy = args
    E = env()
    acc = Acc()
    light, heavy = table_atoms(E)
    for keys, counts in ((light, counts_light), (heavy, counts_heavy)):
        for key in keys[part::nparts]:
            for c in counts:
                run_case(E, acc, dict(kind="list", structure=[[c, list(key)]]))
    if part == 0:
        acc.info["table_atoms"] = len(light) + len(heavy)
    return finish(E, acc)


def position_cases(a, c):
    """One atom x one magnitude in every position the printer distinguishes."""
    a = list(a)
    O, H = ["O", 0, 0], ["H", 0, 0]
    yield dict(kind="list", structure=[[c, a]])                               # atom count
    yield dict(kind="list", structure=[[c, [[1, a], [1, O]]]])                # group count
    yield dict(kind="list", structure=[[1, O], [c, a]])                       # after another piece
    yield dict(kind="list", structure=[[c, a], [2, [[1, H]]]])                # before a group
    yield dict(kind="list", structure=[[2, [[c, a], [1, O]]]])                # inside a group
    yield dict(kind="list", structure=[[c, [[c, a]]]])                        # both
    yield dict(kind="list", structure=[[1, O], [c, [[2, [[1, a]]]]], [1, H]])  # nested twice, between pieces
    yield dict(kind="dict", items=[[a, c]])
    yield dict(kind="rmul", n=c, structure=[[1, a]])                          # product with the only count
    yield dict(kind="rmul", n=c, structure=[[1, a], [2, O]])                  # n * several pieces


def shard_positions(args):
    part, nparts = args
    E = env()
    acc = Acc()
    cases = [case for a in ATOMS for c in ALLMAGS for case in position_cases(a, c)]
    for a in ATOMS:
        for b in ATOMS:
            for c1 in PAIR_COUNTS:
                for c2 in PAIR_COUNTS:
                    cases.append(dict(kind="list", structure=[[c1, list(a)], [c2, list(b)]]))
    for case in cases[part::nparts]:
        run_case(E, acc, case)
    return finish(E, acc)


# ------------------------------------------------------------------------------------ A: arithmetic
BASES = {
    "empty": ("formula()", lambda E: E.formula()),
    "atom:Co": ("formula(pt.Co)", lambda E: E.formula(E.atom(("Co", 0, 0)))),
    "atom:D+": ("formula(pt.D.ion[1])", lambda E: E.formula(E.atom(("H", 2, 1)))),
    "atom:H1+": ("formula(pt.H[1].ion[1])", lambda E: E.formula(E.atom(("H", 1, 1)))),
    "str:H2O": ("formula('H2O')", lambda E: E.formula("H2O")),
    "str:D2O": ("formula('D2O')", lambda E: E.formula("D2O")),
    "str:T-": ("formula('T{-}2Co')", lambda E: E.formula("T{-}2Co")),
    "str:Fe56": ("formula('Fe[56]{3+}O[18]1.5')", lambda E: E.formula("Fe[56]{3+}O[18]1.5")),
    "str:named": ("formula('H2O', name='water')", lambda E: E.formula("H2O", name="water")),
    "list:half-T-": ("formula([(0.5, pt.T.ion[-1])])", lambda E: E.formula([(0.5, E.atom(("H", 3, -1)))])),
    "list:T": ("formula([(1.5, pt.T), (1, pt.O[18])])",
               lambda E: E.formula([(1.5, E.atom(("H", 3, 0))), (1, E.atom(("O", 18, 0)))])),
    "dict:ions": ("formula({pt.H[1].ion[1]: 1, pt.O[16].ion[-2]: 1.0/3})",
                  lambda E: E.formula({E.atom(("H", 1, 1)): 1, E.atom(("O", 16, -2)): 1.0 / 3})),
    "list:nested": ("formula([(1, pt.Fe.ion[2]), (2, [(1, pt.O), (1, pt.H)])])",
                    lambda E: E.formula([(1, E.atom(("Fe", 0, 2))), (2, [(1, E.atom(("O", 0, 0))), (1, E.atom(("H", 0, 0)))])])),
    "list:unit-group": ("formula([(1, [(2, pt.H), (1, pt.O)])])",
                        lambda E: E.formula([(1, [(2, E.atom(("H", 0, 0))), (1, E.atom(("O", 0, 0)))])])),
    "tuple:deep": ("formula(((3, ((2, ((1, pt.Co),)),)),))",
                   lambda E: E.formula(((3, ((2, ((1, E.atom(("Co", 0, 0))),)),)),))),
}
BASE_ORDER = tuple(BASES)
BASE_NAMES = {"str:named": "water"}      # bases whose producer asks for a name
BASES_LAST = ("atom:D+", "dict:ions", "list:nested")       # thorough: operands of the third operator


def _op_code(ev):
    k = ev[0]
    if k == "base":
        return "L.append(%s)" % BASES[ev[1]][0]
    if k == "addg":
        return "g = %s; L.append(g); L.append(L[%d] + g)" % (BASES[ev[2]][0], ev[1])
    if k == "iaddg":
        return "g = %s; L.append(g); L[%d] += g" % (BASES[ev[2]][0], ev[1])
    if k == "mul":
        return "L.append(%r * L[%d])" % (ev[1], ev[2])
    if k == "wrap":
        return "L.append(formula([(%r, L[%d].structure)]))" % (ev[1], ev[2])
    if k == "copy":
        return "L.append(formula(L[%d]))" % ev[1]
    if k == "fromatoms":
        return "L.append(formula(L[%d].atoms))" % ev[1]
    if k == "add":
        return "L.append(L[%d] + L[%d])" % (ev[1], ev[2])
    if k == "iadd":
        return "L[%d] += L[%d]" % (ev[1], ev[2])
    raise MachineryError("unknown event %r" % (ev,))


class Ops(object):
    """The operator graph.  A state is the event history; build() replays it on fresh objects."""

    def __init__(self, E, mults=ALLMAGS, wraps=WRAPS, operands=BASE_ORDER, eager=False):
        self.E, self.mults, self.wraps, self.operands = E, mults, wraps, operands
        # eager: every formula is printed as soon as it exists, i.e. BEFORE it is used as an operand
        # (a printer that memoises its text must not hand the stale text on to n*f, f+g, formula(f))
        self.eager = eager

    def fresh(self, label):
        """A fresh base formula.  String bases are parsed once per process and handed out as shallow
        copies afterwards (what the library's own n*f does): the structure is the parser's tuple."""
        E = self.E
        if not label.startswith("str:"):
            return BASES[label][1](E)
        f = E.parsed.get(label)
        if f is None:
            f = E.parsed[label] = BASES[label][1](E)
        return copy.copy(f)

    def apply(self, L, ev):
        """Execute one event on the live list; returns the index of the formula it made / changed."""
        E = self.E
        k = ev[0]
        if k == "base":
            L.append(self.fresh(ev[1]))
        elif k == "addg":
            g = self.fresh(ev[2])
            L.append(g)
            L.append(L[ev[1]] + g)
        elif k == "iaddg":
            g = self.fresh(ev[2])
            L.append(g)
            f = L[ev[1]]
            f += g
            L[ev[1]] = f
            return ev[1]
        elif k == "mul":
            L.append(ev[1] * L[ev[2]])
        elif k == "wrap":
            L.append(E.formula([(ev[1], L[ev[2]].structure)]))
        elif k == "copy":
            L.append(E.formula(L[ev[1]]))
        elif k == "fromatoms":
            L.append(E.formula(L[ev[1]].atoms))
        elif k == "add":
            L.append(L[ev[1]] + L[ev[2]])
        elif k == "iadd":
            f = L[ev[1]]
            f += L[ev[2]]
            L[ev[1]] = f
            return ev[1]
        else:
            raise MachineryError("unknown event %r" % (ev,))
        return len(L) - 1

    def build(self, hist):
        L = []
        self.target = None
        for ev in hist:
            self.target = self.apply(L, ev)
            if self.eager:
                for f in L:
                    str(f); repr(f)
        return L

    def events(self, L, target, first):
        """Enabled events.  After the first operator only events that involve the formula made or
        changed last: the others lead to formulas already reached one level earlier."""
        n = len(L)
        idx = range(n) if first else (target,)
        evs = []
        for i in idx:
            if not L[i].structure and not first:
                continue
            for lab in self.operands:
                evs.append(("addg", i, lab))
                evs.append(("iaddg", i, lab))
            for m in self.mults:
                evs.append(("mul", m, i))
            if L[i].structure:
                for c in self.wraps:
                    evs.append(("wrap", c, i))
            evs.append(("copy", i))
            evs.append(("fromatoms", i))
        for i in range(n):
            for j in range(n):
                if first or target in (i, j):
                    evs.append(("add", i, j))
                    evs.append(("iadd", i, j))
        return evs


def shard_ops(args):
    base, part, nparts, depth, last = args[:5]
    eager = bool(args[5]) if len(args) > 5 else False
    E = env()
    acc = Acc()
    full = Ops(E, eager=eager)
    reduced = Ops(E, MULTS_LAST, (2, 1.0000001), BASES_LAST, eager=eager)

    def visit(hist):
        try:
            L = full.build(hist)
        except MachineryError:
            raise
        except Exception:
            acc.outcome("producer-raised:ops:" + hist[-1][0])
            return
        target = full.target
        case = dict(kind="ops", history=[list(ev) for ev in hist], target=target, eager=eager)
        want = BASE_NAMES.get(hist[0][1]) if len(hist) == 1 else None
        if not check(E, acc, L[target], case, want_name=want) or len(hist) > depth:
            return
        menu = reduced if (last and len(hist) == depth) else full
        evs = menu.events(L, target, len(hist) == 1)
        if len(hist) == 1:
            evs = evs[part::nparts]
        for ev in evs:
            visit(hist + (ev,))

    visit((("base", base),))
    acc.info["max_operators"] = depth
    return finish(E, acc)


# ------------------------------------------------------------------------------------ M: mixtures
COMPONENTS = {
    "H2O": ("formula('H2O@1')", lambda E: E.formula("H2O@1")),
    "D2O": ("formula('D2O@1.11')", lambda E: E.formula("D2O@1.11")),
    "NaCl": ("formula('NaCl@2.16')", lambda E: E.formula("NaCl@2.16")),
    "Co": ("formula(pt.Co)", lambda E: E.formula(E.atom(("Co", 0, 0)))),
    "D+": ("formula(pt.D.ion[1])", lambda E: E.formula(E.atom(("H", 2, 1)))),
    "T-": ("formula('T{-}2O@1.2')", lambda E: E.formula("T{-}2O@1.2")),
    "Fe56": ("formula('Fe[56]{3+}O[18]1.5@5')", lambda E: E.formula("Fe[56]{3+}O[18]1.5@5")),
    "group": ("formula('(H2O)0.5Co@2')", lambda E: E.formula("(H2O)0.5Co@2")),
    "HCl": ("formula('H[1]{+}Cl{-}@1.1')", lambda E: E.formula("H[1]{+}Cl{-}@1.1")),
}
COMP_ORDER = tuple(COMPONENTS)
COMP3 = ("H2O", "NaCl", "D+", "Fe56")
COMP3_THOROUGH = ("H2O", "NaCl", "D+", "Fe56", "T-", "group")
MIX_TEXT = ("H2O@1", "D2O@1.11", "NaCl@2.16", "Co", "D{+}@0.2", "T{-}2O@1.2", "Fe[56]{3+}O[18]1.5@5")


def mixture_cases(thorough):
    for fn in ("w", "v"):
        for a in COMP_ORDER:
            for b in COMP_ORDER:
                for qa in MIX_QS:
                    for qb in MIX_QS:
                        yield dict(kind="mix", fn=fn, parts=[[a, qa], [b, qb]])
        trio = COMP3_THOROUGH if thorough else COMP3
        for a in trio:
            for b in trio:
                for c in trio:
                    for qa in MIX_QS3:
                        for qb in MIX_QS3:
                            for qc in MIX_QS3:
                                yield dict(kind="mix", fn=fn, parts=[[a, qa], [b, qb], [c, qc]])
        for a in COMP_ORDER:
            yield dict(kind="mix", fn=fn, parts=[[a, 2]])
            yield dict(kind="mix", fn=fn, parts=[[a, 1], ["H2O", 1234567]], name="dilute " + a)
    for a in MIX_TEXT:
        for b in MIX_TEXT:
            for q in ("0.001", "5", "50", "99.999"):
                yield dict(kind="parse", s="%swt%% %s // %s" % (q, a, b))
                yield dict(kind="parse", s="%svol%% %s // %s" % (q, a, b))
            for qa, qb in (("5g", "1000000g"), ("1mg", "50mL"), ("2kg", "1ug")):
                yield dict(kind="parse", s="%s %s // %s %s" % (qa, a, qb, b))
            yield dict(kind="parse", s="1um %s // 1nm %s" % (a, b))


def shard_mixtures(args):
    part, nparts, thorough = args
    E = env()
    acc = Acc()
    for i, case in enumerate(mixture_cases(thorough)):
        if i % nparts == part:
            run_case(E, acc, case)
    return finish(E, acc)


# ------------------------------------------------------------------------------------ N: awkward names
NAMED_BASE = [[2, ["H", 0, 0]], [1, ["O", 0, 0]]]


def _op_setter(E, f, n):
    f.name = n
    return f


def _op_iadd(E, f, n):
    f.name = n
    f += E.formula(E.atom(("Co", 0, 0)))
    return f


def _op_mul(E, f, n):
    f.name = n
    return 2.5 * f


#: how a formula comes by its name, apart from the name= keyword of formula() and of the mixture calls
NAMED_OPS = {
    "setter": ("f.name = %(n)s", _op_setter),
    "rename": ("f = formula(f, name=%(n)s)", lambda E, f, n: E.formula(f, name=n)),
    "rename-named": ("f.name = 'other'; f = formula(f, name=%(n)s)",
                     lambda E, f, n: E.formula(_op_setter(E, f, "other"), name=n)),
    "mul": ("f.name = %(n)s; f = 2.5*f", _op_mul),
    "iadd": ("f.name = %(n)s; f += formula(pt.Co)", _op_iadd),
}


def awkward_names(maxlen):
    out = []
    level = [""]
    for _ in range(maxlen):
        level = [x + c for x in level for c in NAME_CHARS]
        out += level
    return out


def name_cases(maxlen):
    for n in awkward_names(maxlen):
        yield dict(kind="parse", s="H2O", name=n)
        yield dict(kind="parse", s="Fe[56]{3+}O[18]1.5@5", name=n)
        yield dict(kind="list", structure=NAMED_BASE, name=n)
        yield dict(kind="mix", fn="w", parts=[["H2O", 9], ["NaCl", 1]], name=n)
        yield dict(kind="mix", fn="v", parts=[["H2O", 1], ["D2O", 1]], name=n)
        for op in sorted(NAMED_OPS):
            yield dict(kind="namedop", op=op, name=n)


def shard_names(args):
    part, nparts, maxlen = args
    E = env()
    acc = Acc()
    for i, case in enumerate(name_cases(maxlen)):
        if i % nparts == part:
            run_case(E, acc, case)
            acc.count("awkward_name_cases")
    if part == 0:
        acc.info["awkward_names"] = len(awkward_names(maxlen))
    return finish(E, acc)


# ------------------------------------------------------------------------------------ H: round-trip histories
# "str(f) parses back to the same formula" must hold whatever the program did before with formulas of the same
# text: a formula produced by parsing is the caller's own object and may be customised in place (+=, name,
# density) BEFORE the same text is parsed again - by the caller or by the round trip of another formula that
# prints the same text.  A state is an event history over a few texts (printed strings of the producers);
# after every event ALL live formulas are judged.  Every path runs in its own chain of forked interpreters,
# starting from an interpreter that has never parsed anything.
HIST_TEXTS = ("H2O", "CaCO3", "CaCO3 6H2O", "D2O", "Fe[56]{3+}O[18]1.5")     # quick: the first three
_H, _O, _Ca, _C = ["H", 0, 0], ["O", 0, 0], ["Ca", 0, 0], ["C", 0, 0]
HIST_BUILT = {        # printed text -> the same formula built from atoms (no parsing)
    "H2O": [[2, _H], [1, _O]],
    "CaCO3": [[1, _Ca], [1, _C], [3, _O]],
    "CaCO3(H2O)6": [[1, _Ca], [1, _C], [3, _O], [6, [[2, _H], [1, _O]]]],
    "D2O": [[2, ["H", 2, 0]], [1, _O]],
    "Fe[56]{3+}O[18]1.5": [[1, ["Fe", 56, 3]], [1.5, ["O", 18, 0]]],
}
HIST_BUILT_ORDER = ("H2O", "CaCO3", "CaCO3(H2O)6", "D2O", "Fe[56]{3+}O[18]1.5")
HIST_ADD = [[6, [[2, _H], [1, _O]]]]
HIST_NAME = "water"
HIST_UPDATES = [("iadd",), ("name",), ("density",), ("mul",)]


def hist_producers(ntexts):
    return ([("parse", t) for t in HIST_TEXTS[:ntexts]] + [("parse-named", t) for t in HIST_TEXTS[:ntexts]] +
            [("build", t) for t in HIST_BUILT_ORDER[:ntexts]])


HIST_PRODUCERS = hist_producers(len(HIST_TEXTS))


AS_IS = "?"      # the library's copy semantics decide whether the formula has a name; judged as it is


class HistState(object):
    def __init__(self):
        self.live = []       # [formula, name the caller gave it | None (nobody named it) | AS_IS]


def hist_apply(E, st, ev):
    k = ev[0]
    if k == "parse":
        st.live.append([E.formula(ev[1]), None])
    elif k == "parse-named":
        st.live.append([E.formula(ev[1], name=HIST_NAME), HIST_NAME])
    elif k == "build":
        st.live.append([E.formula(from_json(E, HIST_BUILT[ev[1]])), None])
    elif k == "iadd":
        rec = st.live[-1]
        f = rec[0]
        f += E.formula(from_json(E, HIST_ADD))
        rec[0] = f
        if rec[1] is not None:
            rec[1] = AS_IS       # named += g: the text does not say whether the name stays
    elif k == "name":
        st.live[-1][0].name = HIST_NAME
        st.live[-1][1] = HIST_NAME
    elif k == "density":
        st.live[-1][0].density = 2.5
    elif k == "mul":
        rec = st.live[-1]
        st.live.append([2 * rec[0], None if rec[1] is None else AS_IS])     # n*named: likewise
    else:
        raise MachineryError("unknown history event %r" % (ev,))


def hist_judge(E, st):
    """All live formulas against the property; -> list of (signature, expected, observed) of the first that fails."""
    for i, (f, want) in enumerate(st.live):
        bad = judge(E, f, want_name=None if want == AS_IS else want, unnamed=want is None)
        if bad:
            which = "the formula made by the last event" if i == len(st.live) - 1 else "formula L[%d]" % i
            return [(sig, exp, "%s: %s" % (which, obs)) for sig, exp, obs in bad]
    return []


def hist_code(hist):
    lines = ["import periodictable as pt", "from periodictable import formula", "L = []"]
    for ev in hist:
        k = ev[0]
        if k == "parse":
            lines.append("f = formula(%r); L.append(f)" % ev[1])
        elif k == "parse-named":
            lines.append("f = formula(%r, name=%r); L.append(f)" % (ev[1], HIST_NAME))
        elif k == "build":
            lines.append("f = formula(%s); L.append(f)" % pystruct(HIST_BUILT[ev[1]]))
        elif k == "iadd":
            lines.append("f += formula(%s)" % pystruct(HIST_ADD))
        elif k == "name":
            lines.append("f.name = %r" % HIST_NAME)
        elif k == "density":
            lines.append("f.density = 2.5")
        elif k == "mul":
            lines.append("f = 2*f; L.append(f)")
    lines += ["for x in L:", "    print(repr(str(x)), repr(x), x.structure)",
              "    # a formula the program named prints that name; every other one prints a formula string that",
              "    # parses back to the same structure:",
              "    if str(x) != %r: print(formula(str(x)).structure)" % HIST_NAME]
    return "\n".join(lines) + "\n"


def hist_events(hist, ntexts):
    return hist_producers(ntexts) + (list(HIST_UPDATES) if hist else [])


def _hist_children(E, st, hist, depth, ntexts, only=None):
    """Explore every extension of `hist` (already executed in this interpreter) in a forked child each.
    -> (Acc, [(history, findings)])"""
    from ..histmc import in_fork
    acc, found = Acc(), []
    for ev in hist_events(hist, ntexts):
        if only is not None and ev != only:
            continue
        def node(ev=ev):
            return _hist_visit(E, st, hist + (ev,), depth, ntexts)
        sub, f2 = in_fork(node)
        acc.merge(sub)
        found += f2
    return acc, found


def _hist_visit(E, st, hist, depth, ntexts, only=None, silent=False):
    """Execute the last event of `hist` here, judge, and explore the successors (only: just that one).
    silent: this node is counted and reported by another shard."""
    sub, found = Acc(), []
    ev = hist[-1]
    try:
        hist_apply(E, st, ev)
    except MachineryError:
        raise
    except Exception:
        sub.outcome("producer-raised:history:" + ev[0])
        return sub, found
    bad = hist_judge(E, st)
    if not silent:
        sub.transitions += 1
        sub.evaluations += len(st.live)
        sub.count("history_states")
        if len(hist) > 1:
            sub.count("history_states_nontrivial")
    if bad:
        return sub, ([] if silent else [(hist, bad)])
    if not silent:
        sub.outcome("history:%s:all-live-formulas-round-trip" % ev[0])
    if len(hist) < depth:
        s2, f2 = _hist_children(E, st, hist, depth, ntexts, only)
        sub.merge(s2)
        found += f2
    return sub, found


def hist_linear(E, hist):
    """The whole history in ONE fresh interpreter: index of the first failing event and its findings, or None."""
    from ..histmc import in_fork

    def work():
        st = HistState()
        for i, ev in enumerate(hist):
            try:
                hist_apply(E, st, ev)
            except MachineryError:
                raise
            except Exception as e:
                return (i, "raises", "%s: %s" % (type(e).__name__, e))
            bad = hist_judge(E, st)
            if bad:
                return (i, bad)
        return None
    return in_fork(work)


def hist_valid(hist):
    return bool(hist) and hist[0] in HIST_PRODUCERS


def hist_report(E, acc, hist, bad):
    """Name the cause: the earlier events that are individually necessary for the same finding at the last event."""
    sig0 = bad[0][0]
    hist = list(hist)
    progress = True
    while progress:
        progress = False
        for j in range(len(hist) - 2, -1, -1):
            trial = hist[:j] + hist[j + 1:]
            if not hist_valid(trial):
                continue
            r = hist_linear(E, trial)
            if r is not None and r[0] == len(trial) - 1 and r[1] != "raises" and r[1][0][0] == sig0:
                hist, bad, progress = trial, r[1], True
                break
    before = sorted(set(e[0] for e in hist[:-1]))
    sig = "history:%s:at-%s:%s" % (sig0, hist[-1][0], "after-" + "+".join(before) if before else "in-a-fresh-interpreter")
    case = dict(kind="history", history=[list(e) for e in hist])
    for s, exp, obs in bad[:1]:
        acc.violation(sig, case, expected=exp, observed=obs, standalone=hist_code(hist))


HIST_DEPTH = 4


def hist_ntexts(quick):
    return 3 if quick else 5


def shard_history(args):
    """All histories that start with two given events (the one-event history is counted by the shard of the
    first possible second event).  This process never parses anything itself."""
    from ..histmc import in_fork
    first, second, depth, ntexts = args
    first, second = tuple(first), tuple(second)
    E = env()
    acc = Acc()
    silent = second != hist_events((first,), ntexts)[0]
    sub, found = in_fork(lambda: _hist_visit(E, HistState(), (first,), depth, ntexts, only=second, silent=silent))
    acc.merge(sub)
    for hist, bad in found[:12]:
        hist_report(E, acc, hist, bad)
    if len(found) > 12:
        acc.count("history_findings_not_minimised", len(found) - 12)
    acc.info["max_history_length"] = depth
    if silent is False:
        acc.sample(dict(case=dict(kind="history", history=[list(first), list(second)]), depth=depth))
    return acc


# ------------------------------------------------------------------------------------ driver
def _run_shard(item):
    fn, args = item
    return fn(args)


def plan(quick):
    P = []
    # A (biggest shards first)
    for base in BASE_ORDER:
        n = 6 if quick else 24
        P += [(shard_ops, (base, p, n, 2 if quick else 3, not quick)) for p in range(n)]
        # the same operator graph with every intermediate printed before it is used (reduced menus)
        P += [(shard_ops, (base, p, n, 2, True, True)) for p in range(n)]
    # P
    lex = [(1, c01.GAPS6, "all"), (2, c01.GAPS6, "all"),
           (3, (None,), "none") if quick else (3, c01.GAPS2, "adjacent")]
    for n, gapset, deco in lex:
        for firsts in ([c01.LEX] if n == 1 or (n == 3 and quick) else [(x,) for x in c01.LEX]):
            P.append((shard_sentences, ("lex", tuple(firsts), n, gapset, deco)))
    P += [(shard_sentences, ("struct", "full", 2, 2, 2, p, 8, None)) for p in range(8)]
    P += [(shard_sentences, ("struct", "chain", 2, 5, 3, p, 6, (None, 3, 4 if quick else 5))) for p in range(6)]
    P += [(shard_sentences, ("struct", "mags", 2, 2, 2, p, 16, None)) for p in range(16)]
    if not quick:
        P += [(shard_sentences, ("struct", "mags3", 2, 3, 2, p, 32, (None, 3, 3))) for p in range(32)]
        P += [(shard_sentences, ("struct", "full3", 3, 2, 2, p, 48, (3, 0, 2))) for p in range(48)]
    # S
    counts = ((1, 2.5), (1,)) if quick else ((1, 2.5, 0.1234567),) * 2
    P += [(shard_table, (p, 12, counts[0], counts[1])) for p in range(12)]
    P += [(shard_positions, (p, 4)) for p in range(4)]
    # M
    P += [(shard_mixtures, (p, 8, not quick)) for p in range(8)]
    # N
    P += [(shard_names, (p, 2, 2 if quick else 3)) for p in range(2)]
    return P


def plan_histories(quick):
    n = hist_ntexts(quick)
    return [(shard_history, (first, second, HIST_DEPTH, n)) for first in hist_producers(n)
            for second in hist_events((first,), n)]


def run(ctx):
    P = plan(ctx.quick)
    env()                         # import the library (nothing is parsed yet)
    # H first: the histories start from an interpreter in which no text has ever been parsed
    H = plan_histories(ctx.quick)
    ctx.pmap(_run_shard, rotate(H, ctx.seed), "C13 histories")
    ctx.log("histories done: %d" % ctx.acc.info.get("history_states", 0))
    env().formula("H2O")          # build the parser once, before forking
    res = ctx.pmap(_run_shard, rotate(P, ctx.seed))
    acc = ctx.acc
    keys = {}
    for r in res:
        keys.update(getattr(r, "keys", {}))
    # a state = a distinct printer input, merged over all producers and shards
    acc.info["round_trips_executed"] = acc.evaluations
    acc.states = len(keys) + acc.info.get("history_states", 0)
    acc.nontrivial = sum(1 for v in keys.values() if v) + acc.info.get("history_states_nontrivial", 0)
    acc.traces = acc.transitions         # every produced formula is judged (fresh or by its identical twin)
    acc.evaluations += acc.transitions   # + the producer executions
    acc.info["shards"] = len(P) + len(H)
    acc.info.setdefault("merged_arrivals", 0)


def replay(ctx, case, signature=None):
    E = env()
    if case.get("kind") == "history":
        hist = [tuple(ev) for ev in case["history"]]
        if not hist_valid(hist):
            raise MachineryError("bad history %r" % (hist,))
        r = hist_linear(E, hist)
        if r is not None and r[1] == "raises":
            raise MachineryError("event %d of the replay history raises on this tree: %s" % (r[0], r[2]))
        if r is not None:
            hist_report(E, ctx.acc, hist[:r[0] + 1], r[1])
        return
    res = run_case(E, ctx.acc, case if not case.get("named") else dict(case, named=None))
    if res is None:
        raise MachineryError("the producer of the replay case raises on this tree")
