"""C03 - neutron SLD, cross sections and penetration depth follow the documented equations.

State space (DESIGN section 4, C03): compounds x density forms x wavelength forms.
  atoms      every atom with neutron data (elements and isotopes, decided by the independent table
             reader) one at a time, every ion of 12 representative elements, seven isotope ions
  compounds  all unordered pairs over the class-representative alphabet K (32 atoms: light, negative b,
             strong absorbers, sigma_i dominated, all 15 table-driven entries, ions, an isotope ion; atoms that
             differ only in isotope or only in charge occur together) with counts from {1, 2, 0.5}^2;
             thorough: all triples over a 9-atom sub-alphabet with counts {1, 2, 0.5}^3
  density    {0.07, 1, 2.33, 25} as density=, natural_density=, '@d' and '@dn' tags - natural density also
             for ions and isotope ions (the natural atom keeps the charge)
  wavelength {0.05, 0.5, 1, 1.798, 4.75, 10, 50} plus, for every table-driven atom of the compound, every
             table node, every midpoint and one point beyond each end (thorough: also quarter points);
             each also as energy=; scalar and vectors of length 1, 2, 5 and the whole grid
  keywords   energy= TOGETHER WITH wavelength= in one call ("If energy is specified then wavelength is ignored"): the
  combined   reference wavelength is the one of the energy; wavelength= is another point of the same grid (entrywise
             different; for table-driven atoms far away in the table) or the wavelength of the energy itself; scalars
             and vectors (same shape and length); neutron_scattering and neutron_sld; every atom, ion, pair; compounds
             without data; as configurations of the histories (energy buffer + a second wavelength buffer)
  histories  the caller keeps ONE compound object (a Formula with its own density / a fragment list / an atom) and
             ONE wavelength buffer (numpy array / list; also a scalar) and calls twice: all ordered pairs of call configurations
             (density of the Formula assigned in place | density= | natural_density=) x (two wavelength vectors,
             the buffer refilled in place) x (wavelength= | energy=) x (compound | atom queried directly | the Formula's
             own neutron_sld method); every
             call is compared with the reference for the values at the time of the call, and the argument objects
             must come back unaltered (thorough: all ordered triples for 9 atoms)
  tables     several periodic tables in ONE process, every history in a process of its own in which the neutron data
             of the public table were never touched: events = first use of the public table | private table 1 / 2
             created, mass and density attached, densities / masses customised by the caller (6 kinds: none, element
             densities, element masses, both, isotope masses, the divide-everything loop of the customisation guide),
             then nsf.init(T) | densities and masses of a private table edited after its init; all histories with the
             public table used before or not before the first private table, one or two private tables and at most one
             edit.  After EVERY event the direct-query clause is judged for 9 atoms of every table - the public
             table's atoms with the tabulated masses and densities, a private table's atoms with that table's own
             (customised) masses and densities: atom.neutron.scattering() / .sld() and the one-atom compound at the
             atom's density (atom object; string parsed with table=)
Oracle: mc/ref/neutron.py (docstring equations in plain floats on independently parsed tables); all
seven outputs compared.  Differential: atom.neutron.scattering()/.sld() against the same equations at the
element's number density and against neutron_scattering(atom, density=atom.density).  A compound that
contains an atom without data returns (None, None, None)."""
import math
import numpy as np
from ..common import Acc, load_pt, rotate, MachineryError
from ..ref import neutron as rn

META = dict(
    level="model_checking", engine="E1",
    technique="bounded-exhaustive enumeration of compounds x density forms x wavelength forms on the real "
              "calculator against an independent evaluation of the documented equations",
    rule=("a case is (route, compound, construction form, density form, wavelength form); cases are distinct by "
          "construction (every atom of the table once; every unordered pair of the class alphabet with every count "
          "pair; every table node / midpoint / outside point of every table-driven atom); a history case is "
          "energy= and wavelength= passed together form cases of their own: (energies of the grid points / vectors) x "
          "(wavelength= the same points | entrywise other points of the grid), judged at the wavelength of the energy "
          "as the documentation of neutron_scattering / neutron_sld prescribes; a history case is "
          "(compound, kind of compound object, kind of wavelength buffer, ordered pair of call configurations) "
          "executed on the same caller-owned objects, the buffer refilled and the Formula's density assigned in place "
          "between the calls; a table history is a sequence of events (first use of the public table, creation + "
          "customisation + nsf.init of private table 1 / 2, later edit of a private table) executed in a fresh process, "
          "after each of which the direct-query clause is judged on every table; "
          "non-trivial = the compound has data, so seven reference values exist and are compared; a table history is "
          "non-trivial when it initialises a private table"),
    bound=dict(
        quick="all atoms with data + all ions of 12 elements + 7 isotope ions; all pairs over the 32-atom class "
              "alphabet x 9 count pairs; 4 densities x 4 density forms (natural density also for ions and isotope "
              "ions); 7 global wavelengths + all nodes/midpoints/outside points of the energy tables; wavelength= and "
              "energy=; scalar and vectors of length 1, 2, 5, full grid; energy= with wavelength= (same | other point): for "
              "every atom and ion every grid point as a scalar and every vector with density= (4 densities, list form) and "
              "at the atom's own density (atom form), every vector / the whole grid in the other forms (strings, natural "
              "density, neutron_sld); for every pair x count pair all 7 global points as scalars, the 4 vectors and the whole "
              "node grid with density=1, one scalar + one vector with natural_density=, '@d', '@dn', the whole grid through "
              "neutron_sld; histories: all ordered pairs of 16+2+4 (Formula, with its own "
              "neutron_sld method), "
              "12+2 (list), 12+2+4 (atom, with the direct queries) configurations (+2 = energy buffer with a second "
              "wavelength buffer) x {array, list, scalar} wavelength arguments for the 32+6 "
              "one-atom compounds and the 36 pairs over the 9-atom sub-alphabet; table histories: 312 histories "
              "(public table used before / not before the first private table) x (6 customisations of table 1) x (alone | "
              "edited | x 6 customisations of table 2 x (plain | table 1 edited before | table 1 edited after | table 2 "
              "edited)), 9 atoms x 6-7 queries per table after every event",
        thorough="quick + all triples over a 9-atom sub-alphabet x 27 count triples; quarter points between table "
                 "nodes; node sweeps in every density form at density 1 and with density=25; histories for all 496 "
                 "pairs over the class alphabet, all ordered TRIPLES of configurations for the 9 one-atom compounds of "
                 "the sub-alphabet; table histories: the same 312 histories with all 32 neutral atoms of the class "
                 "alphabet and 13 queries per atom"),
    assumptions=[
        "the embedded table text (nsf.nsftable, nsf_tables, mass, density) is the source of truth; that the library "
        "serves those values is C06/C07",
        "physical constants are read from periodictable.constants",
        "ion mass = neutral mass - charge * electron mass (core.Ion.mass); the natural-abundance counterpart of an "
        "ion or isotope ion is the ion of the natural element with the same charge (docstring of natural_density: "
        "naturally occurring isotopes, no change in cell volume)",
        "natural Lu is the abundance mix of constant Lu-175 and the Lu-176 table; either abundance column (mass "
        "table or neutron table) is accepted because the text does not say which",
        "Pu and Cm elements (record borrowed from one isotope row), Ra and the free neutron (data but no density) "
        "are outside the alphabet; rho_im is compared with -10 N Im(b_c) (all tabulated Im(b_c) are <= 0)",
        "off-grid real wavelengths/densities are not claimed",
        "caller-owned argument objects: the documented attributes of a Formula (structure, density, name), the items "
        "of a fragment list and the bytes / items of a wavelength or energy vector must be the same after a call as "
        "before; private memo attributes a refactoring might add to a Formula are not looked at.  Table atoms are "
        "library objects; their state is C09/C10",
        "several tables: a private table is customised through the attributes _density / _mass of its elements and "
        "_mass of its isotopes BEFORE nsf.init(table), as in doc/sphinx/guide/customizing.rst; 'that atom's density' of "
        "an atom of a private table is the density that table serves (customised value; isotope: same number density "
        "as the element), its mass the customised mass.  The number density of the direct query is the one at the time "
        "nsf.init attached the data (source comment in nsf.init): after a later edit of _density / _mass the edited "
        "elements of THAT table are not judged; all other atoms of all tables still are",
        "history cases use vectors of length 3 and scalars; compound strings are immutable and their repeated use is "
        "covered by the order of the plain cases only",
        "keywords in combination: energy= with wavelength= is judged for neutron_scattering and neutron_sld, whose "
        "documentation states the precedence ('If energy is specified then wavelength is ignored'), with both values of "
        "the same shape and length (the note 'the returned values will be vectors if wavelength is a vector' leaves the "
        "shape open when a scalar energy meets a wavelength vector).  The deprecated Formula.neutron_sld method documents "
        "only wavelength= and is called with wavelength= only; atom.neutron.scattering / .sld have no energy parameter.  "
        "density= together with natural_density= is NOT judged: no docstring (neutron_scattering, neutron_sld, formula) "
        "says which of the two wins",
        "positional passing: every parameter of neutron_scattering / neutron_sld / atom.neutron.scattering / .sld / "
        "Formula.neutron_sld except the compound is keyword-only by design (util.require_keywords raises TypeError for a "
        "positional density or wavelength), so there is no positional form to compare; the compound is always positional",
    ],
    level_text="bounded-exhaustive: complete over the atoms of the table and over the nodes of the energy tables, "
               "bounded (pairs / triples over a class alphabet) for compounds, grid for the real parameters",
    level_note="trusted base: mc/ref/neutron.py, mc/ref/tables.py, numpy float arithmetic; tolerance rel 1e-9 on "
               "condition-aware scales (DESIGN section 3)",
)

GLOBAL_WL = (0.05, 0.5, 1.0, 1.798, 4.75, 10.0, 50.0)
DENSITIES = (0.07, 1.0, 2.33, 25.0)
COUNTS = (1, 2, 0.5)
ION_ELEMENTS = ("H", "O", "Fe", "Cl", "Na", "Ca", "Gd", "Sm", "Cu", "U", "Ti", "Mn")
ISOTOPE_IONS = (("O", 18, -2), ("Fe", 56, 3), ("H", 2, 1), ("Gd", 157, 3), ("Li", 6, 1), ("Cl", 37, -1),
                ("Sm", 149, 3))
K = (("H", 0, 0), ("H", 2, 0), ("H", 1, 0), ("O", 0, 0), ("C", 0, 0), ("Si", 0, 0), ("Ti", 0, 0), ("Mn", 0, 0),
     ("V", 0, 0), ("B", 0, 0), ("B", 10, 0), ("Li", 6, 0), ("Cd", 0, 0), ("Cd", 113, 0),
     ("Sm", 0, 0), ("Sm", 149, 0), ("Eu", 0, 0), ("Eu", 151, 0), ("Gd", 0, 0), ("Gd", 155, 0), ("Gd", 157, 0),
     ("Dy", 164, 0), ("Er", 0, 0), ("Er", 167, 0), ("Yb", 0, 0), ("Yb", 168, 0), ("Yb", 174, 0),
     ("Lu", 0, 0), ("Lu", 176, 0),
     ("Fe", 0, 2), ("O", 0, -2), ("O", 18, -2))
K9 = (("H", 0, 0), ("H", 2, 0), ("O", 0, 0), ("Ti", 0, 0), ("V", 0, 0), ("B", 10, 0), ("Gd", 157, 0),
      ("Lu", 0, 0), ("O", 18, -2))
HIST_OWN = (2.33, 1.0)          # own densities of the Formula object of a history
NODATA = (("Kr", 78, 0), ("Ru", 96, 0), ("Po", 0, 0), ("Og", 0, 0))
# several periodic tables in one process: atoms judged in every table (customised elements, their isotopes, table-driven
# atoms, and atoms that are the same in every table), and what the caller customises in a private table BEFORE the
# neutron data are attached to it: ('density', symbol, value) | ('mass', symbol, factor) | ('isomass', symbol, A, factor)
# | ('divide-all',) = the loop of doc/sphinx/guide/customizing.rst (every mass and density divided by the mass of H[1])
TT_ATOMS = (("C", 0, 0), ("C", 13, 0), ("H", 0, 0), ("H", 2, 0), ("Si", 0, 0), ("B", 10, 0), ("Gd", 0, 0),
            ("Gd", 157, 0), ("Lu", 0, 0))
_TT_DENS = [("density", "C", 3.52), ("density", "H", 0.09), ("density", "Gd", 7.0), ("density", "Lu", 9.0)]
CUSTOM = dict([
    ("none", []),
    ("density", _TT_DENS),
    ("mass", [("mass", sym, 1.25) for sym in ("C", "H", "B", "Gd", "Lu")]),
    ("density+mass", _TT_DENS + [("mass", sym, 0.8) for sym in ("C", "H", "Gd", "Lu")]),
    ("isotope-mass", [("isomass", "C", 13, 1.1), ("isomass", "H", 2, 1.1), ("isomass", "B", 10, 1.1),
                      ("isomass", "Gd", 157, 1.1)]),
    ("divide-all", [("divide-all",)]),
])
TT_STRING = (("C", 13, 0), ("Gd", 0, 0))          # quick: atoms also given as a string parsed with table=
TT_EDIT = (("C", 1.0, 13.5), ("H", 0.2, 1.0))     # (symbol, _density, _mass) assigned AFTER the neutron data were attached


# ------------------------------------------------------------------ naming atoms in the three worlds
def lib_atom(pt, key):
    sym, a, q = key
    el = pt.elements.symbol(sym)
    at = el if a == 0 else el[a]
    return at if q == 0 else at.ion[q]


def atom_str(key):
    sym, a, q = key
    if sym == "H" and a == 2:
        s = "D"
    else:
        s = sym + ("[%d]" % a if a else "")
    if q:
        s += "{%s%s}" % ("" if abs(q) == 1 else "%d" % abs(q), "+" if q > 0 else "-")
    return s


def atom_py(key):
    sym, a, q = key
    s = "pt.%s" % sym + ("[%d]" % a if a else "")
    return s + (".ion[%d]" % q if q else "")


def cnt_str(c):
    if c == 1:
        return ""
    return repr(int(c)) if float(c).is_integer() else repr(float(c))


def compound_str(frags):
    return "".join(atom_str(k) + cnt_str(c) for c, k in frags)


def norm_frags(frags):
    return [(c, tuple(k)) for c, k in frags]


class _TableView(object):
    """what lib_atom / build_compound need of the package, for a private table"""
    def __init__(self, nsf, table):
        self.elements = table
        self.neutron_scattering = lambda comp, **kw: nsf.neutron_scattering(comp, table=table, **kw)
        self.neutron_sld = lambda comp, **kw: nsf.neutron_sld(comp, table=table, **kw)


# ------------------------------------------------------------------ the checker
class Checker(object):
    def __init__(self, acc, tier="quick", data=None):
        self.acc = acc
        self.tier = tier
        self.pt = load_pt()
        from periodictable import nsf
        self.nsf = nsf
        self.data = data if data is not None else rn.NeutronData()
        self._grid_cache = {}

    # ---- grids
    def table_grid(self, sym, a):
        """[(wavelength, region)] for a table-driven atom: nodes, midpoints, one point beyond each end."""
        key = (sym, a)
        if key in self._grid_cache:
            return self._grid_cache[key]
        tk = ("Lu", 176) if key == ("Lu", 0) else key
        wl = self.data.tables[tk][0]
        pts = [(0.9 * wl[0], "below"), (1.1 * wl[-1], "above")]
        for i, w in enumerate(wl):
            pts.append((w, "node"))
            if i + 1 < len(wl):
                pts.append((0.5 * (w + wl[i + 1]), "mid"))
                if self.tier != "quick":
                    pts.append((0.75 * w + 0.25 * wl[i + 1], "quarter"))
                    pts.append((0.25 * w + 0.75 * wl[i + 1], "quarter"))
        self._grid_cache[key] = pts
        return pts

    def table_atoms(self, frags):
        out = []
        for c, k in frags:
            if self.data.has_table(k[0], k[1]) and (k[0], k[1]) not in out:
                out.append((k[0], k[1]))
        return out

    def node_grid(self, frags):
        seen = {}
        for sym, a in self.table_atoms(frags):
            for w, region in self.table_grid(sym, a):
                seen.setdefault(w, region)
        return sorted(seen.items())

    # ---- building the call
    def build_compound(self, frags, form, dspec):
        """-> (compound argument, keyword dict, python source of the call arguments)"""
        kw = {}
        src_kw = []
        kind = dspec[0]
        if form == "string":
            s = compound_str(frags)
            if kind == "tag":
                s += "@%r" % dspec[1]
            elif kind == "tagn":
                s += "@%rn" % dspec[1]
            comp, src = s, repr(s)
        elif form == "atom":
            if len(frags) != 1 or frags[0][0] != 1:
                raise MachineryError("atom form needs a one-atom compound")
            comp, src = lib_atom(self.pt, frags[0][1]), atom_py(frags[0][1])
        elif form == "list":
            comp = [(c, lib_atom(self.pt, k)) for c, k in frags]
            src = "[%s]" % ", ".join("(%r, %s)" % (c, atom_py(k)) for c, k in frags)
        else:
            raise MachineryError("form %r" % form)
        if kind == "density":
            kw["density"] = dspec[1]; src_kw.append("density=%r" % dspec[1])
        elif kind == "natural":
            kw["natural_density"] = dspec[1]; src_kw.append("natural_density=%r" % dspec[1])
        elif kind == "atomdensity":
            d = lib_atom(self.pt, frags[0][1]).density
            kw["density"] = d; src_kw.append("density=%s.density" % atom_py(frags[0][1]))
        elif kind in ("tag", "tagn", "atom"):
            pass
        else:
            raise MachineryError("density spec %r" % (dspec,))
        return comp, kw, src, src_kw

    def ref_density(self, frags, dspec):
        kind = dspec[0]
        if kind in ("density", "tag"):
            return dspec[1]
        if kind in ("natural", "tagn"):
            return self.data.compound_density(frags, ("natural", dspec[1]))
        if kind in ("atom", "atomdensity"):
            return self.data.compound_density(frags, ("atom",))
        raise MachineryError("density spec %r" % (dspec,))

    # ---- one case
    def case(self, route, frags, form, dspec, wspec):
        """Execute one case against the library and compare with the reference.
        wspec = (how, values, shape[, given]): how in 'wl' | 'en' | 'both' | 'default'; values list of wavelengths in
        Angstrom (the reference wavelengths; for 'en' and 'both' the energies passed are ref conversions of them);
        shape in 'scalar' | 'vector'; 'both': energy= AND wavelength= are passed, wavelength=given (same shape and
        length) - the documentation says it is ignored, so the reference wavelengths stay `values`."""
        acc = self.acc
        frags = norm_frags(frags)
        how, wls, shape = wspec[0], wspec[1], wspec[2]
        wls = [float(w) for w in wls]
        given = None
        if how == "both":
            given = [float(w) for w in wspec[3]]
            if len(given) != len(wls):
                raise MachineryError("energy and wavelength of different length are not in the alphabet")
        case = dict(route=route, frags=[[c, list(k)] for c, k in frags], form=form, dens=list(dspec),
                    w=[how, wls, shape] + ([given] if given is not None else []))
        has_table = bool(self.table_atoms(frags))
        cls = "table" if has_table else "const"

        def beam_arg(vals):
            return (np.array(vals, dtype=float) if shape == "vector" else vals[0],
                    ("np.array(%r)" % (vals,)) if shape == "vector" else repr(vals[0]))
        # arguments
        wkw, wsrc = {}, []
        if how == "default":
            wls = [rn.ABS_WL]
        else:
            if how in ("wl", "both"):
                arg, asrc = beam_arg(wls if how == "wl" else given)
                wkw["wavelength"] = arg
                wsrc.append("wavelength=%s" % asrc)
            if how in ("en", "both"):
                arg, asrc = beam_arg([rn.energy_of_wavelength(w) for w in wls])
                wkw["energy"] = arg
                wsrc.append("energy=%s" % asrc)
        control = None               # the same call with energy= alone (only used to name the cause of a failure)
        if route in ("direct", "direct_sld"):
            at = lib_atom(self.pt, frags[0][1])
            meth = at.neutron.scattering if route == "direct" else at.neutron.sld
            if how in ("en", "both"):
                raise MachineryError("direct route has no energy argument")
            call = lambda: meth(**wkw)
            src = "%s.neutron.%s(%s)" % (atom_py(frags[0][1]), "scattering" if route == "direct" else "sld",
                                         ", ".join(wsrc))
        else:
            comp, kw, csrc, ksrc = self.build_compound(frags, form, dspec)
            fn = self.pt.neutron_scattering if route == "compound" else self.pt.neutron_sld
            kw.update(wkw)
            call = lambda: fn(comp, **kw)
            if how == "both":
                kw_en = dict((k, v) for k, v in kw.items() if k != "wavelength")
                control = lambda: fn(comp, **kw_en)
            src = "pt.%s(%s)" % ("neutron_scattering" if route == "compound" else "neutron_sld",
                                 ", ".join([csrc] + ksrc + wsrc))
        standalone = "import numpy as np\nimport periodictable as pt\nprint(%s)\n" % src
        if acc.states % 40009 == 7:
            acc.sample(dict(case, call=src))
        acc.states += 1
        acc.evaluations += 1
        acc.transitions += 1
        label = how if how != "both" else ("en+wl(same)" if given == wls else "en+wl(other)")
        try:
            with np.errstate(all="ignore"):
                got = call()
        except Exception as e:
            fail = dict(sig="raises:%s:%s:%s" % (type(e).__name__, route, cls), expected="seven values",
                        observed="%s: %s" % (type(e).__name__, e))
            fail = self.refine_combination(fail, None, control, route, frags, dspec, wls, given, shape, cls)
            acc.violation(fail["sig"], case, fail["expected"], fail["observed"], standalone=standalone)
            return False
        fail = self.judge(got, route, frags, dspec, wls, shape, label)
        if fail is None:
            return True
        fail = self.refine_natural(fail, route, frags, dspec, wls)
        fail = self.refine_combination(fail, got, control, route, frags, dspec, wls, given, shape, cls)
        if "failing_index" in fail:
            case["failing_index"] = fail["failing_index"]
        acc.violation(fail["sig"], case, fail["expected"], fail["observed"], standalone=standalone,
                      detail=fail.get("detail"))
        return False

    def refine_combination(self, fail, got, control, route, frags, dspec, wls, given, shape, cls):
        """A failing case that passes energy= together with wavelength=: if the same call with energy= alone
        (`control`) agrees with the reference, the cause is the combination, and the signature says so - and whether
        the result is the one of the wavelength that the documentation says is ignored."""
        if control is None:
            return fail
        try:
            self.acc.evaluations += 1
            with np.errstate(all="ignore"):
                alone = control()
            if self.judge(alone, route, frags, dspec, wls, shape, "control", count=False) is not None:
                return fail
        except MachineryError:
            raise
        except Exception:
            return fail
        if fail["sig"].startswith("raises:"):
            return dict(fail, sig="energy-and-wavelength-given:%s" % fail["sig"])
        return dict(fail, sig="energy-and-wavelength-given:%s:%s" % (self.both_kind(got, route, frags, dspec, wls, given,
                                                                                      shape), cls))

    def both_kind(self, got, route, frags, dspec, wls, given, shape):
        """how a result for energy= and wavelength= in one call is wrong: it is the result of the wavelength that
        should have been ignored, or something else"""
        try:
            if given != wls and self.judge(got, route, frags, dspec, given, shape, "control", count=False) is None:
                return "wavelength-not-ignored"
        except Exception:
            pass
        return "differs-from-energy-alone"

    def refine_natural(self, fail, route, frags, dspec, wls):
        """A failing case whose density was given as natural density: if the same compound with the equivalent
        plain density= agrees with the reference, the cause is the conversion of the natural density, and the
        signature says so (with the most specific kind of atom in the compound).  Only for failures that one common
        factor on the number density explains - that is what a wrong density does."""
        if dspec[0] not in ("natural", "tagn") or not fail["sig"].startswith("eq:number-density:"):
            return fail
        try:
            dens = self.ref_density(frags, dspec)
            fn = self.pt.neutron_scattering if route == "compound" else self.pt.neutron_sld
            comp = [(c, lib_atom(self.pt, k)) for c, k in frags]
            i = fail.get("failing_index", 0)
            with np.errstate(all="ignore"):
                got = fn(comp, density=dens, wavelength=wls[i])
            if self.judge(got, route, frags, ("density", dens), [wls[i]], "scalar", "wl", count=False) is not None:
                return fail
        except Exception:
            return fail
        kinds = set(("isotope-ion" if (k[1] and k[2]) else "isotope" if k[1] else "ion" if k[2] else "element")
                    for c, k in frags)
        kind = [x for x in ("isotope-ion", "isotope", "ion", "element") if x in kinds][0]
        return dict(fail, sig="natural-density-conversion:%s" % kind)

    def judge(self, got, route, frags, dspec, wls, shape, how, count=True):
        """Compare one result of the library with the reference.  -> None (agrees) or a dict(sig=, expected=,
        observed=, [detail=, failing_index=]) that describes the disagreement (nothing is reported here)."""
        acc = self.acc
        has_table = bool(self.table_atoms(frags))
        cls = "table" if has_table else "const"
        # expected
        known = [self.data.has_data(k) for c, k in frags]
        if any(x is None for x in known):
            raise MachineryError("atom outside the judged alphabet in %r" % (frags,))
        if not all(known):
            acc.outcome("no-data -> (None, None, None)")
            ok = (isinstance(got, tuple) and len(got) == 3 and all(x is None for x in got))
            if not ok:
                return dict(sig="nodata-returns-values:%s" % route, expected="(None, None, None)",
                            observed=repr(got)[:300])
            return None
        if count:
            acc.nontrivial += 1
        if route in ("direct", "direct_sld"):
            sym = frags[0][1][0]
            nd = self.data.element_number_density(sym)
            dens = None
        else:
            nd = None
            dens = self.ref_density(frags, dspec)
        variants = ("mass", "nsf") if any(k[:2] == ("Lu", 0) for c, k in frags) else ("mass",)
        sld_only = route in ("sld", "direct_sld", "method_sld")
        # shape
        n = len(wls)
        try:
            flat = self._flatten(got, sld_only)
        except Exception as e:
            return dict(sig="result-structure:%s:%s" % (route, cls), expected="((re, im, inc), (coh, abs, inc), pen)",
                        observed=repr(got)[:300])
        if shape == "vector":
            for k, v in flat.items():
                if np.shape(v) != (n,):
                    return dict(sig="vector-shape:%s:%s" % (route, cls), expected="every output of shape (%d,)" % n,
                                observed="%s has shape %r" % (k, np.shape(v)))
        else:
            for k, v in flat.items():
                if np.shape(v) != ():
                    return dict(sig="scalar-shape:%s:%s" % (route, cls), expected="scalar outputs",
                                observed="%s has shape %r" % (k, np.shape(v)))
        fails = None
        names = list(flat)
        if shape == "vector":
            cols = [np.asarray(flat[k]) for k in names]
            if any(np.iscomplexobj(c) for c in cols):
                cols = [c.tolist() for c in cols]
            else:
                cols = [c.astype(float).tolist() for c in cols]
        else:
            cols = None
        for i, w in enumerate(wls):
            if cols is not None:
                obs = dict((k, c[i]) for k, c in zip(names, cols))
            else:
                obs = {}
                for k, v in flat.items():
                    try:
                        obs[k] = complex(v) if isinstance(v, complex) or np.iscomplexobj(v) else float(v)
                    except Exception:
                        obs[k] = None
            best = None
            for lu in variants:
                ref = self.data.evaluate(frags, dens, w, lu=lu, number_density=nd)
                bad = self._compare(ref, obs, sld_only)
                if best is None or len(bad) < len(best[0]):
                    best = (bad, ref, obs)
                if not bad:
                    break
            acc.traces += 1
            if best[0]:
                fails = (i, w) + best
                break
            if count:
                self._outcomes(best[1], cls, how, shape, route)
        if fails is None:
            return None
        i, w, bad, ref, obs = fails
        names = rn.OUTPUTS[:3] if sld_only else rn.OUTPUTS
        what = ("all" if len(bad) == len(names) else
                "incoherent" if set(bad) <= set(("rho_inc", "xs_inc")) else "+".join(bad))
        where = "direct" if route.startswith("direct") else "compound"
        cause = self.diagnose_table(frags, w) if has_table else None
        if cause is None and len(bad) >= 2:
            # one common factor on the number density explains every failing output?
            for probe in ("rho_im", "xs_abs", "rho_re"):
                try:
                    f = obs[probe] / ref[probe]
                except Exception:
                    continue
                if not (f > 0 and math.isfinite(f)):
                    continue
                ref2 = self.data.evaluate(frags, dens, w, number_density=ref["N"] * f)
                if not self._compare(ref2, obs, sld_only):
                    what = "number-density"
                    break
        sig = cause if cause else "eq:%s:%s" % (what, where)
        return dict(sig=sig, expected=dict((k, ref[k]) for k in names), observed=dict((k, repr(obs[k])) for k in names),
                    detail=dict(wavelength=w, failing=bad, route=route, cls=cls), failing_index=i)

    # ---- histories on caller-owned objects
    def hist_values(self, frags):
        """the two wavelength vectors (same length, entrywise different) of a history: table points of the
        table-driven atoms of the compound where there are any."""
        nodes = [w for w, region in self.node_grid(frags)]
        if nodes:
            n = len(nodes)
            v = ([nodes[n // 3], 1.798, nodes[(2 * n) // 3]], [nodes[n // 2], 0.5, nodes[n // 4]])
        else:
            v = ([1.0, 1.798, 10.0], [4.75, 0.5, 50.0])
        if any(a == b for a, b in zip(*v)):
            raise MachineryError("history vectors not entrywise different: %r" % (v,))
        return v

    @staticmethod
    def hist_configs(form, frags):
        """call configurations (route, density spec, index of the wavelength vector, unit) of one object kind"""
        if form == "formula":
            dens = [("own", HIST_OWN[0]), ("own", HIST_OWN[1]), ("density", 25.0), ("natural", 0.07)]
        elif form == "list":
            dens = [("density", HIST_OWN[0]), ("density", 25.0), ("natural", 0.07)]
        elif form == "atom":
            dens = [("atom",), ("density", 25.0), ("natural", 0.07)]
        else:
            raise MachineryError("form %r" % form)
        cfgs = [("compound", d, vi, how) for d in dens for vi in (0, 1) for how in ("wl", "en")]
        # energy= (the shared buffer) together with wavelength= (a second caller-owned buffer holding the OTHER vector)
        cfgs += [("compound", dens[0], vi, "both") for vi in (0, 1)]
        if form == "formula":
            # the Formula's own method (periodictable.neutron_sld on its atoms and density)
            cfgs += [("method_sld", d, vi, "wl") for d in dens[:2] for vi in (0, 1)]
        if form == "atom" and frags[0][1][2] == 0:
            cfgs += [(r, ("atom",), vi, "wl") for r in ("direct", "direct_sld") for vi in (0, 1)]
        return cfgs

    @staticmethod
    def hist_changed(c1, c2):
        """which dimensions of the call differ between two consecutive configurations"""
        out = []
        if c1[3] != c2[3]:
            out.append("unit")
        if c1[2] != c2[2]:
            out.append("wavelengths-edited-in-place")
        if tuple(c1[1]) != tuple(c2[1]):
            out.append("density")
        if c1[0] != c2[0]:
            out.append("route")
        return out

    @staticmethod
    def _snap(comp, form, buf, wkind, buf2=None):
        """the caller-visible state of the argument objects (documented attributes; private memo attributes a
        refactoring might add are not part of it)"""
        if form == "formula":
            c = dict(structure=comp.structure, density=comp.density, name=comp.name)
        elif form == "list":
            c = dict(items=tuple(comp))
        else:
            c = {}
        for name, b in (("buffer", buf), ("buffer2", buf2)):
            if b is None:
                continue
            if wkind == "array":
                c[name] = (b.dtype.str, b.shape, b.tobytes())
            elif wkind == "scalar":
                c[name] = b
            else:
                c[name] = (type(b).__name__, tuple(type(x).__name__ for x in b), tuple(b))
        return c

    def history(self, frags, form, wkind, hist, control=False):
        """Execute the call configurations `hist` one after the other on the SAME caller-owned objects: one
        compound object (Formula / list / atom) and one wavelength buffer (numpy array / list) whose contents
        the caller edits in place between the calls; a Formula's own density is assigned by the caller in place.
        Every result must equal the reference for the values at the time of the call, and the argument objects
        must come back as they went in.
        -> None | ('config', configuration that fails or alters its arguments also on fresh objects)
                | ('changed', frozenset of the dimensions changed before the call that fails only after the history)."""
        acc = self.acc
        pt = self.pt
        frags = norm_frags(frags)
        hist = [(c[0], tuple(c[1]), c[2], c[3]) for c in hist]
        V = self.hist_values(frags)
        cls = "table" if self.table_atoms(frags) else "const"
        case = dict(kind="history", frags=[[c, list(k)] for c, k in frags], form=form, wkind=wkind,
                    hist=[[c[0], list(c[1]), c[2], c[3]] for c in hist])
        lines = ["import numpy as np", "import periodictable as pt"]
        lsrc = "[%s]" % ", ".join("(%r, %s)" % (c, atom_py(k)) for c, k in frags)
        if form == "formula":
            comp = pt.formula([(c, lib_atom(pt, k)) for c, k in frags], density=HIST_OWN[0])
            lines.append("comp = pt.formula(%s, density=%r)" % (lsrc, HIST_OWN[0]))
        elif form == "list":
            comp = [(c, lib_atom(pt, k)) for c, k in frags]
            lines.append("comp = %s" % lsrc)
        elif form == "atom":
            if len(frags) != 1 or frags[0][0] != 1:
                raise MachineryError("atom form needs a one-atom compound")
            comp = lib_atom(pt, frags[0][1])
            lines.append("comp = %s" % atom_py(frags[0][1]))
        else:
            raise MachineryError("form %r" % form)
        if not control:
            acc.states += 1
            acc.nontrivial += 1
            if acc.states % 40009 == 7:
                acc.sample(case)
        buf = buf2 = None
        for step, cfg in enumerate(hist):
            route, dens, vi, how = cfg
            wls = V[vi] if wkind != "scalar" else V[vi][:1]
            vals = list(wls) if how == "wl" else [rn.energy_of_wavelength(w) for w in wls]
            given = None
            if how == "both":
                # the wavelength= that the documentation says is ignored: the other vector, in a buffer of its own
                given = list(V[1 - vi] if wkind != "scalar" else V[1 - vi][:1])
                if wkind == "scalar":
                    buf2 = given[0]
                    lines.append("w2 = %r" % (buf2,))
                elif buf2 is None:
                    buf2 = np.array(given, dtype=float) if wkind == "array" else list(given)
                    lines.append("w2 = np.array(%r)" % (given,) if wkind == "array" else "w2 = %r" % (given,))
                else:
                    buf2[:] = given
                    lines.append("w2[:] = %r" % (given,))
            if wkind == "scalar":
                buf = vals[0]                                   # immutable: the name is bound to the next value
                lines.append("w = %r" % (buf,))
            elif buf is None:
                buf = np.array(vals, dtype=float) if wkind == "array" else list(vals)
                lines.append("w = np.array(%r)" % (vals,) if wkind == "array" else "w = %r" % (vals,))
            else:
                buf[:] = vals                                   # the same object, new contents
                lines.append("w[:] = %r" % (vals,))
            kw = {("wavelength" if how == "wl" else "energy"): buf}
            ksrc = ["%s=w" % ("wavelength" if how == "wl" else "energy")]
            if how == "both":
                kw["wavelength"] = buf2
                ksrc.append("wavelength=w2")
            if dens[0] == "own":
                if form != "formula":
                    raise MachineryError("own density needs a Formula")
                comp.density = dens[1]                          # the caller's own update, in place
                lines.append("comp.density = %r" % dens[1])
                dspec = ("density", dens[1])
            elif dens[0] == "density":
                kw["density"] = dens[1]; ksrc.insert(0, "density=%r" % dens[1]); dspec = dens
            elif dens[0] == "natural":
                kw["natural_density"] = dens[1]; ksrc.insert(0, "natural_density=%r" % dens[1]); dspec = dens
            elif dens[0] == "atom":
                dspec = ("atom",)
            else:
                raise MachineryError("density spec %r" % (dens,))
            if route == "compound":
                fn = pt.neutron_scattering
                call = lambda: fn(comp, **kw)
                lines.append("print(pt.neutron_scattering(comp, %s))" % ", ".join(ksrc))
            elif route == "method_sld":
                if form != "formula" or dens[0] != "own":
                    raise MachineryError("method route in configuration %r" % (cfg,))
                call = lambda: comp.neutron_sld(**kw)
                lines.append("print(comp.neutron_sld(%s))" % ", ".join(ksrc))
            else:
                if form != "atom" or how != "wl" or dens[0] != "atom":
                    raise MachineryError("direct route in configuration %r" % (cfg,))
                meth = comp.neutron.scattering if route == "direct" else comp.neutron.sld
                call = lambda: meth(wavelength=buf)
                lines.append("print(comp.neutron.%s(wavelength=w))" % ("scattering" if route == "direct" else "sld"))
            standalone = "\n".join(lines) + "\n"
            before = self._snap(comp, form, buf, wkind, buf2)
            acc.evaluations += 1
            acc.transitions += 1
            changed = self.hist_changed(hist[step - 1], cfg) if step else []
            if wkind == "scalar":
                changed = ["wavelength" if x == "wavelengths-edited-in-place" else x for x in changed]
            tag = "first-call" if not step else ("+".join(changed) if changed else "repeat")
            fail = None
            try:
                with np.errstate(all="ignore"):
                    got = call()
            except Exception as e:
                fail = dict(sig="raises:%s:%s:%s" % (type(e).__name__, route, cls), expected="seven values",
                            observed="%s: %s" % (type(e).__name__, e))
            if fail is None:
                after = self._snap(comp, form, buf, wkind, buf2)
                if after != before:
                    if control:
                        return ("config", cfg)
                    which = [k for k in sorted(before) if before[k] != after.get(k)]
                    label = {"buffer": "%s-%s" % ("wavelength" if how == "wl" else "energy", wkind),
                             "buffer2": "wavelength-%s" % wkind,
                             "items": "compound-list"}.get(which[0], "formula." + which[0])
                    show = {"buffer": "w", "buffer2": "w2", "items": "comp"}.get(which[0], "comp." + which[0])
                    acc.violation("argument-altered:%s" % label, dict(case, failing_step=step),
                                  "the caller's object unchanged: %r" % (before[which[0]],), repr(after.get(which[0])),
                                  standalone=standalone + "print(%s)\n" % show,
                                  detail=dict(step=step, config=list(cfg), cls=cls))
                    return ("config", cfg)
                fail = self.judge(got, route, frags, dspec, wls, "scalar" if wkind == "scalar" else "vector", how,
                                  count=False)
                if fail is not None and how == "both":
                    # named after the combination only if the same call with energy= alone is right
                    kw_en = dict((k, v) for k, v in kw.items() if k != "wavelength")
                    fail = self.refine_combination(fail, got, (lambda: pt.neutron_scattering(comp, **kw_en)), route,
                                                   frags, dspec, list(wls), given,
                                                   "scalar" if wkind == "scalar" else "vector", cls)
            if fail is None:
                if not control:
                    acc.outcome("history step: %s" % tag)
                continue
            if control:
                return ("config", cfg)
            c2 = dict(case, failing_step=step)
            if "failing_index" in fail:
                c2["failing_index"] = fail["failing_index"]
            detail = dict(fail.get("detail") or {}, step=step, config=list(cfg), form=form, wkind=wkind)
            if step and self.history(frags, form, wkind, [cfg], control=True) is None:
                # the very same call on fresh objects agrees with the reference: the earlier calls did it
                sig = "history-dependent:%s%s:%s" % ("depth%d:" % (step + 1) if step > 1 else "", tag, cls)
                ret = ("changed", frozenset(changed))
            else:
                sig = self.refine_natural(fail, route, frags, dspec, wls)["sig"]
                ret = ("config", cfg)
            acc.violation(sig, c2, fail["expected"], fail["observed"], standalone=standalone, detail=detail)
            return ret
        return None

    # ---- several periodic tables in one process
    def view(self, table, data):
        """a Checker that names atoms in the private `table` and evaluates the reference on `data`"""
        ck = Checker.__new__(Checker)
        ck.acc, ck.tier, ck.nsf, ck._grid_cache = self.acc, self.tier, self.nsf, self._grid_cache
        ck.pt = _TableView(self.nsf, table)
        ck.data = data
        return ck

    def tables_history(self, events):
        """Execute a history of events on the public table and up to two private tables in THIS process (the caller
        gives every history a process of its own, in which the neutron data of the public table were never touched):
          ('use',)            the public table's atoms are queried (and judged)
          ('init', i, kind)   private table i is created, mass and density are attached, the caller customises
                              densities / masses (CUSTOM[kind]), then nsf.init(table)
          ('edit', i)         the caller assigns other _density / _mass values to two elements of table i after its
                              neutron data were attached (those elements of that table are not judged afterwards)
        After every event the direct-query clause is judged for the atoms TT_ATOMS of every table that has neutron
        data - the public table with the reference data, a private table with its own (customised) masses and
        densities: atom.neutron.scattering() / .sld() and the one-atom compound at the atom's density.
        -> True if the whole history agrees."""
        acc, pt, nsf = self.acc, self.pt, self.nsf
        from periodictable.core import PeriodicTable
        from periodictable import mass as pmass, density as pdensity
        events = [tuple(e) for e in events]
        if "neutron" in pt.elements.properties:
            raise MachineryError("table history needs a process in which the public neutron data were never loaded")
        case = dict(kind="tables", events=[list(e) for e in events])
        lines = ["import numpy as np", "import periodictable as pt",
                 "from periodictable import mass, density, nsf", "from periodictable.core import PeriodicTable"]
        acc.states += 1
        if any(e[0] == "init" for e in events):
            acc.nontrivial += 1
        if acc.states % 37 == 1:
            acc.sample(case)
        views = [("public", self, set(), "pt")]
        private = {}
        for step, ev in enumerate(events):
            acc.transitions += 1
            if ev[0] == "use":
                after = "first-use"
                lines.append("pt.C.neutron.scattering(); pt.Gd[157].neutron.sld()      # the public table has been used")
            elif ev[0] == "init":
                i, kind = ev[1], ev[2]
                name = "verif-c03-%d" % i
                T = PeriodicTable(name)
                pmass.init(T)
                pdensity.init(T)
                lines += ["T%d = PeriodicTable(%r); mass.init(T%d); density.init(T%d)" % (i, name, i, i)]
                el_mass, iso_mass, dens, div = {}, {}, {}, None
                for c in CUSTOM[kind]:
                    if c[0] == "divide-all":
                        div = self.data.iso_mass[(1, 1)][1]
                        for el in T:
                            el._mass /= div
                            if getattr(el, "_density", None) is not None:
                                el._density /= div
                            for iso in el:
                                iso._mass /= div
                        lines += ["for el in T%d:" % i, "    el._mass /= %r" % div,
                                  "    if getattr(el, '_density', None) is not None: el._density /= %r" % div,
                                  "    for iso in el: iso._mass /= %r" % div]
                    elif c[0] == "density":
                        dens[c[1]] = c[2]
                        T.symbol(c[1])._density = c[2]
                        lines.append("T%d.%s._density = %r" % (i, c[1], c[2]))
                    elif c[0] == "mass":
                        m = self.data.mass((c[1], 0, 0)) * c[2]
                        el_mass[c[1]] = m
                        T.symbol(c[1])._mass = m
                        lines.append("T%d.%s._mass = %r" % (i, c[1], m))
                    elif c[0] == "isomass":
                        m = self.data.mass((c[1], c[2], 0)) * c[3]
                        iso_mass[(c[1], c[2])] = m
                        T.symbol(c[1])[c[2]]._mass = m
                        lines.append("T%d.%s[%d]._mass = %r" % (i, c[1], c[2], m))
                    else:
                        raise MachineryError("customisation %r" % (c,))
                try:
                    nsf.init(T)
                except Exception as e:
                    acc.violation("several-tables:raises:%s:private-table-init" % type(e).__name__,
                                  dict(case, failing_step=step), "neutron data attached to the private table",
                                  "%s: %s" % (type(e).__name__, e),
                                  standalone="\n".join(lines + ["nsf.init(T%d)" % i]) + "\n")
                    return False
                lines.append("nsf.init(T%d)" % i)
                data = self.data.customised(el_mass=el_mass, iso_mass=iso_mass, density=dens, divide_all_by=div)
                private[i] = (T, len(views))
                views.append(("private-%d" % i, self.view(T, data), set(), "T%d" % i))
                after = "private-table-init"
            elif ev[0] == "edit":
                T, vi = private[ev[1]]
                for sym, d, m in TT_EDIT:
                    T.symbol(sym)._density = d
                    T.symbol(sym)._mass = m
                    views[vi][2].add(sym)
                    lines.append("T%d.%s._density = %r; T%d.%s._mass = %r" % (ev[1], sym, d, ev[1], sym, m))
                after = "private-table-edit"
            else:
                raise MachineryError("event %r" % (ev,))
            for label, vk, skip, var in views:
                if ev[0] == "init" and label == "private-%d" % ev[1]:
                    which = "own-init"
                elif ev[0] == "edit" and label == "private-%d" % ev[1]:
                    which = "own-edit"
                else:
                    which = after
                who = "public" if label == "public" else ("private" if which.startswith("own") else "other-private")
                if not self._judge_view(vk, who, which, skip, var, lines, dict(case, failing_step=step, table=label),
                                        plain=(step == 0 and ev[0] == "use")):
                    return False
                acc.outcome("tables: %s atoms judged after %s" % (who, which))
        return True

    def _judge_view(self, vk, who, which, skip, var, lines, case, plain=False):
        """the direct-query clause for the atoms TT_ATOMS of one table; `vk` names the atoms in that table and holds
        the reference data of that table."""
        acc = self.acc
        atoms = TT_ATOMS if self.tier == "quick" else TT_ATOMS + tuple(k for k in K if k[2] == 0 and k not in TT_ATOMS)
        for key in atoms:
            if key[0] in skip:
                continue
            frags = [(1, key)]
            V = vk.hist_values(frags)
            at = lib_atom(vk.pt, key)
            asrc = var + atom_py(key)[2:]
            cls = "table" if vk.table_atoms(frags) else "const"
            calls = []
            for route in ("direct", "direct_sld"):
                meth = "scattering" if route == "direct" else "sld"
                calls.append((route, ("atom",), [rn.ABS_WL], "scalar", (lambda m=meth: getattr(at.neutron, m)()),
                              "%s.neutron.%s()" % (asrc, meth)))
                for vec in (V[:1] if self.tier == "quick" else V):
                    calls.append((route, ("atom",), vec, "vector",
                                  (lambda m=meth, v=vec: getattr(at.neutron, m)(wavelength=np.array(v))),
                                  "%s.neutron.%s(wavelength=np.array(%r))" % (asrc, meth, vec)))
                    if self.tier == "quick":
                        continue
                    calls.append((route, ("atom",), vec[:1], "scalar",
                                  (lambda m=meth, v=vec: getattr(at.neutron, m)(wavelength=v[0])),
                                  "%s.neutron.%s(wavelength=%r)" % (asrc, meth, vec[0])))
            vec = V[0]
            calls.append(("compound", ("atom",), vec, "vector",
                          (lambda v=vec: self.nsf.neutron_scattering(at, wavelength=np.array(v))),
                          "nsf.neutron_scattering(%s, wavelength=np.array(%r))" % (asrc, vec)))
            calls.append(("compound", ("atom",), vec[:1], "scalar",
                          (lambda v=vec: self.nsf.neutron_scattering(at, density=at.density, wavelength=v[0])),
                          "nsf.neutron_scattering(%s, density=%s.density, wavelength=%r)" % (asrc, asrc, vec[0])))
            dref = vk.data.atom_density(key)
            tkw = {} if who == "public" else {"table": vk.pt.elements}
            if key in TT_STRING or self.tier != "quick":
              calls.append(("compound", ("density", dref), vec[:1], "scalar",
                            (lambda v=vec: self.nsf.neutron_scattering(atom_str(key), density=dref, wavelength=v[0], **tkw)),
                            "nsf.neutron_scattering(%r, density=%r, wavelength=%r%s)"
                            % (atom_str(key), dref, vec[0], "" if who == "public" else ", table=%s" % var)))
            for route, dspec, wls, shape, call, src in calls:
                acc.evaluations += 1
                standalone = "\n".join(lines + ["print(%s)" % src]) + "\n"
                where = "direct" if route.startswith("direct") else "compound"
                try:
                    with np.errstate(all="ignore"):
                        got = call()
                    fail = vk.judge(got, route, frags, dspec, wls, shape, "wl", count=False)
                except MachineryError:
                    raise
                except Exception as e:
                    fail = dict(sig="raises:%s:%s:%s" % (type(e).__name__, route, cls), expected="seven values",
                                observed="%s: %s" % (type(e).__name__, e))
                if fail is None:
                    continue
                sig = fail["sig"] if plain else "several-tables:%s-table-atom:%s:after-%s" % (who, where, which)
                detail = dict(fail.get("detail") or {}, atom=list(key), call=src, plain_signature=fail["sig"])
                acc.violation(sig, case, fail["expected"], fail["observed"], standalone=standalone, detail=detail)
                return False
        return True

    def diagnose_table(self, frags, w):
        """Attribute a failing case to its cause: if the per-atom scattering length that the library serves for a
        table-driven atom at this wavelength (public method Neutron.scattering_by_wavelength) is not the
        interpolated, end-clamped table value, the signature names that, not the outputs it spoils."""
        for sym, a in self.table_atoms(frags):
            key = (sym, a, 0)
            tk = ("Lu", 176) if (sym, a) == ("Lu", 0) else (sym, a)
            xs = self.data.tables[tk][0]
            region = "below-table" if w < xs[0] else "above-table" if w > xs[-1] else "inside-table"
            label = "table-interpolation:%s%s" % ("natural-Lu-mix:" if (sym, a) == ("Lu", 0) else "", region)
            try:
                with np.errstate(all="ignore"):
                    b, sig = lib_atom(self.pt, key).neutron.scattering_by_wavelength(w)
                b = complex(b); sig = float(sig)
            except Exception:
                return label
            ok_b = ok_s = False
            for lu in (("mass", "nsf") if (sym, a) == ("Lu", 0) else ("mass",)):
                re_, im_, s_, mre, mim, msig = self.data.atom_scattering(key, w, lu)
                if abs(b.real - re_) <= 1e-9 * mre and abs(b.imag - im_) <= 1e-9 * mim:
                    ok_b = True
                    if abs(sig - s_) <= 1e-9 * msig:
                        ok_s = True
            if not ok_b:
                return label
            if not ok_s:
                return "table-atom-total-cross-section"
        return None

    @staticmethod
    def _flatten(got, sld_only):
        if sld_only:
            a, b, c = got
            return dict(rho_re=a, rho_im=b, rho_inc=c)
        return rn.flatten(got)

    @staticmethod
    def _compare(ref, obs, sld_only):
        if sld_only:
            full = dict(obs)
            for k in rn.OUTPUTS[3:]:
                full[k] = ref[k]
            return [b for b in rn.compare(ref, full) if b in rn.OUTPUTS[:3]]
        return rn.compare(ref, obs)

    def _outcomes(self, ref, cls, how, shape, route):
        o = self.acc.outcome
        o("route:" + route)
        o("%s/%s/%s" % (cls, how, shape))
        o("rho_re<0" if ref["rho_re"] < 0 else "rho_re>=0")
        o("sigma_i clipped to 0" if ref["sigma_s"] <= ref["sigma_c"] else "sigma_i>0")

    # ---- wavelength specs of a grid
    @staticmethod
    def vector_specs(grid):
        """vectors of length 1, 2 (descending), 5 (unsorted with a repeat) and the whole grid."""
        g = list(grid)
        n = len(g)
        v1 = [g[n // 2]]
        v2 = [g[-1], g[0]]
        v5 = [g[2 % n], g[0], g[4 % n], g[2 % n], g[1 % n]]
        return [v1, v2, v5, g]


# ------------------------------------------------------------------ enumeration
def all_data_atoms(data):
    """Every (symbol, A, 0) for which the independent reader says the atom has data and density."""
    out = []
    seen = set()
    for (z, a), r in sorted(data.rows.items()):
        key = (r["symbol"], a, 0)
        if data.has_data(key) is True:
            out.append(key); seen.add(key)
    for z, rs in sorted(data.by_z.items()):
        key = (rs[0]["symbol"], 0, 0)
        if key not in seen and data.has_data(key) is True:
            out.append(key); seen.add(key)
    return out


def ion_atoms(pt, data):
    out = []
    for sym in ION_ELEMENTS:
        for q in pt.elements.symbol(sym).ions:
            out.append((sym, 0, q))
    out.extend(ISOTOPE_IONS)
    return [k for k in out if data.has_data(k) is True]


def _grids(ck, frags):
    grid = list(GLOBAL_WL)
    nodes = [w for w, region in ck.node_grid(frags)]
    full = sorted(set(grid + nodes))
    vecs = ck.vector_specs(grid)
    for w, region in ck.node_grid(frags):
        ck.acc.count("grid_points:" + region)
    ck.acc.count("grid_points:global", len(grid))
    return grid, full, vecs, bool(nodes)


def other_values(vals, pool):
    """Entrywise different partner values for `vals`, taken from the sorted pool of grid points that contains them:
    the point half the pool further on (cyclic) - for a table-driven atom far away in its table."""
    n = len(pool)
    idx = dict((w, i) for i, w in enumerate(pool))
    out = [pool[(idx[w] + n // 2) % n] for w in vals]
    if n < 2 or any(a == b for a, b in zip(vals, out)):
        raise MachineryError("partner wavelengths not entrywise different: %r" % (vals,))
    return out


def both_cases(ck, route, frags, form, dspec, pool, scalars, vectors, same=True):
    """energy= and wavelength= in ONE call: wavelength= another point of the pool (entrywise) and - `same` - the
    wavelength of the energy itself; scalars and vectors.  The documentation: the energy counts."""
    for w in scalars:
        ck.case(route, frags, form, dspec, ("both", [w], "scalar", other_values([w], pool)))
        if same:
            ck.case(route, frags, form, dspec, ("both", [w], "scalar", [w]))
    for v in vectors:
        ck.case(route, frags, form, dspec, ("both", v, "vector", other_values(v, pool)))
        if same:
            ck.case(route, frags, form, dspec, ("both", v, "vector", list(v)))


def do_single(ck, key, thorough):
    """All cases of the one-atom compound `key`."""
    ck.data.clear_cache()
    frags = [(1, key)]
    neutral = key[2] == 0
    grid, full, vecs, has_nodes = _grids(ck, frags)
    if neutral:
        # the atom queried directly (element number density) ...
        for route in ("direct", "direct_sld"):
            ck.case(route, frags, "atom", ("atom",), ("default", [rn.ABS_WL], "scalar"))
            for w in full:
                ck.case(route, frags, "atom", ("atom",), ("wl", [w], "scalar"))
            for v in vecs + ([full] if has_nodes else []):
                ck.case(route, frags, "atom", ("atom",), ("wl", v, "vector"))
        # ... and the one-atom compound at the atom's density: implicit and as density=atom.density
        for form in ("atom", "string", "list"):
            for dspec in (("atom",), ("atomdensity",)):
                ck.case("compound", frags, form, dspec, ("default", [rn.ABS_WL], "scalar"))
                if form == "string":
                    ck.case("compound", frags, form, dspec, ("wl", full, "vector"))
                    both_cases(ck, "compound", frags, form, dspec, full, [], [full], same=False)
                    continue
                for w in full:
                    ck.case("compound", frags, form, dspec, ("wl", [w], "scalar"))
                    if form == "atom":
                        ck.case("compound", frags, form, dspec, ("en", [w], "scalar"))
                if form == "atom":
                    both_cases(ck, "compound", frags, form, dspec, full, full, vecs)
                else:
                    both_cases(ck, "compound", frags, form, dspec, full, [], [full], same=False)
            ck.case("sld", frags, form, ("atom",), ("wl", [4.75], "scalar"))
            both_cases(ck, "sld", frags, form, ("atom",), full, [full[len(full) // 3]], [full], same=False)
    # explicit densities in every form
    for d in DENSITIES:
        dforms = [("density", d, "list"), ("tag", d, "string"),
                  ("natural", d, "list"), ("tagn", d, "string"), ("natural", d, "atom")]
        if not neutral:
            dforms += [("density", d, "atom")]
        for kind, dv, form in dforms:
            dspec = (kind, dv)
            sweep = has_nodes and ((d == 1.0 and (thorough or kind in ("density", "tag")))
                                   or (thorough and kind == "density" and d == 25.0))
            pool = full if sweep else grid
            if form == "string":
                # strings are parsed on every call: one scalar, one vector
                ck.case("compound", frags, form, dspec, ("wl", [1.798], "scalar"))
                ck.case("compound", frags, form, dspec, ("en", pool, "vector"))
                both_cases(ck, "compound", frags, form, dspec, pool, [], [pool], same=False)
                continue
            gset = set(grid)
            for w in pool:
                ck.case("compound", frags, form, dspec, ("wl", [w], "scalar"))
                if w in gset or thorough:            # table points as energy= go through the vector call
                    ck.case("compound", frags, form, dspec, ("en", [w], "scalar"))
            for v in vecs + ([full] if sweep else []):
                ck.case("compound", frags, form, dspec, ("wl", v, "vector"))
                ck.case("compound", frags, form, dspec, ("en", v, "vector"))
            if kind == "density" or d == 2.33:
                # energy= together with wavelength=: every point as a scalar, every vector
                both_cases(ck, "compound", frags, form, dspec, pool, pool, vecs + ([full] if sweep else []),
                           same=(kind == "density"))
        ck.case("sld", frags, "list", ("density", d), ("en", [10.0], "scalar"))
        both_cases(ck, "sld", frags, "list", ("density", d), full, [10.0], [full], same=False)


def do_compound(ck, frags, thorough):
    """All cases of a multi-atom compound."""
    ck.data.clear_cache()
    grid, full, vecs, has_nodes = _grids(ck, frags)
    for d in DENSITIES:
        dforms = [("density", d, "list"), ("tag", d, "string"), ("natural", d, "list"), ("tagn", d, "string")]
        for kind, dv, form in dforms:
            dspec = (kind, dv)
            sweep = has_nodes and ((d == 1.0 and (thorough or kind in ("density", "tag")))
                                   or (thorough and kind == "density" and d == 25.0))
            if form == "string":
                ck.case("compound", frags, form, dspec, ("wl", [1.798], "scalar"))
                ck.case("compound", frags, form, dspec, ("en", (full if sweep else grid), "vector"))
                continue
            gset = set(grid)
            for w in (full if sweep else grid):
                ck.case("compound", frags, form, dspec, ("wl", [w], "scalar"))
                if w in gset or thorough:            # table points as energy= go through the vector call
                    ck.case("compound", frags, form, dspec, ("en", [w], "scalar"))
            for v in vecs + ([full] if sweep else []):
                ck.case("compound", frags, form, dspec, ("wl", v, "vector"))
                ck.case("compound", frags, form, dspec, ("en", v, "vector"))
    ck.case("sld", frags, "list", ("density", 2.33), ("wl", [4.75], "scalar"))
    ck.case("compound", frags, "list", ("density", 1.0), ("default", [rn.ABS_WL], "scalar"))
    # energy= together with wavelength= (the energy counts): every global point as a scalar, every vector, the whole
    # grid as one vector, in one density form of each kind; SLD route; density by position
    both_cases(ck, "compound", frags, "list", ("density", 1.0), full, grid, vecs + ([full] if has_nodes else []),
               same=thorough)
    for w in grid[1::2]:
        ck.case("compound", frags, "list", ("density", 1.0), ("both", [w], "scalar", [w]))
    ck.case("compound", frags, "list", ("density", 1.0), ("both", vecs[2], "vector", list(vecs[2])))
    both_cases(ck, "compound", frags, "list", ("natural", 2.33), full, [grid[3]], [vecs[1]], same=False)
    both_cases(ck, "compound", frags, "string", ("tag", 25.0), full, [grid[0]], [vecs[2]], same=False)
    both_cases(ck, "compound", frags, "string", ("tagn", 0.07), full, [grid[-1]], [vecs[0]], same=False)
    both_cases(ck, "sld", frags, "list", ("density", 2.33), full, [4.75], [full if has_nodes else grid], same=False)


def do_history(ck, frags, thorough, depth3=False):
    """All ordered pairs of call configurations on shared caller-owned objects, for every kind of compound object
    and of wavelength buffer; pairs with fewer changed dimensions first, and nothing beyond a broken state: a
    configuration that fails on fresh objects is not used again, a set of changed dimensions that breaks the
    second call is not enlarged."""
    ck.data.clear_cache()
    acc = ck.acc
    frags = norm_frags(frags)
    single = len(frags) == 1 and frags[0][0] == 1
    for form in ("formula", "list") + (("atom",) if single else ()):
        cfgs = ck.hist_configs(form, frags)
        pairs = [(a, b) for a in cfgs for b in cfgs]
        pairs.sort(key=lambda p: len(ck.hist_changed(*p)))
        for wkind in ("array", "list", "scalar"):
            bad_cfg, broken = set(), []
            for a, b in pairs:
                ch = frozenset(ck.hist_changed(a, b))
                if a in bad_cfg or b in bad_cfg or any(x <= ch for x in broken):
                    acc.count("histories_not_explored_beyond_a_violation")
                    continue
                r = ck.history(frags, form, wkind, [a, b])
                if r is None:
                    continue
                if r[0] == "config":
                    bad_cfg.add(r[1])
                else:
                    broken.append(r[1])
            acc.count("history_pairs:%s/%s" % (form, wkind), len(pairs))
            if depth3 and not bad_cfg and not broken:
                stop = False
                for a in cfgs:
                    for b in cfgs:
                        for c in cfgs:
                            if ck.history(frags, form, wkind, [a, b, c]) is not None:
                                stop = True
                                break
                        if stop:
                            break
                    if stop:
                        break
                acc.count("history_triples:%s/%s" % (form, wkind), len(cfgs) ** 3)


def history_compounds(tier):
    """-> (compounds for all ordered pairs of configurations, compounds also for all ordered triples)"""
    singles = [[(1, k)] for k in K] + [[(1, k)] for k in ISOTOPE_IONS if k not in K]
    alpha = K9 if tier == "quick" else K
    pairs = []
    for i in range(len(alpha)):
        for j in range(i + 1, len(alpha)):
            pairs.append([(1, alpha[i]), (2, alpha[j])])
    deep = [] if tier == "quick" else [[(1, k)] for k in K9]
    return singles + pairs, deep


def table_histories():
    """Every history over {first use of the public table, init of private table 1 / 2 with each kind of customisation,
    edit of a private table after its init}: the public table used before or not before the first private table
    exists; one or two private tables; an edit of table 1 before or after table 2 is initialised, or of table 2."""
    out = []
    kinds = list(CUSTOM)
    for pre in ((), (("use",),)):
        for k1 in kinds:
            h1 = pre + (("init", 1, k1),)
            out.append(h1)
            out.append(h1 + (("edit", 1),))
            for k2 in kinds:
                h2 = h1 + (("init", 2, k2),)
                out += [h2, h1 + (("edit", 1), ("init", 2, k2)), h2 + (("edit", 1),), h2 + (("edit", 2),)]
    return out


_TT_DATA = None


def tables_shard(args):
    """ONE history of tables, in a process of its own (forked before the public neutron data were ever touched)."""
    events, tier = args
    acc = Acc()
    ck = Checker(acc, tier, data=_TT_DATA)
    ck.tables_history(events)
    return acc


def do_nodata(ck, key):
    """A compound containing an atom without data gives (None, None, None) - alone and with every partner."""
    for form in ("list", "string"):
        ck.case("compound", [(1, key)], form, ("density", 1.0), ("wl", [1.798], "scalar"))
        ck.case("compound", [(1, key)], form, ("density", 1.0), ("wl", [1.0, 2.0], "vector"))
        for other in K:
            for frags in ([(1, key), (2, other)], [(2, other), (0.5, key)]):
                ck.case("compound", frags, form, ("density", 2.33), ("wl", [4.75], "scalar"))
                ck.case("compound", frags, form, ("density", 2.33), ("en", [4.75], "scalar"))
                ck.case("compound", frags, form, ("density", 2.33), ("both", [4.75], "scalar", [1.798]))


def all_nodata_atoms(data):
    """Every element and every isotope of the mass table for which the reader finds no neutron data
    (atoms that are not judged - Ra, n, Pu, Cm elements - are left out)."""
    out = []
    zs = sorted(set(z for z, a in data.iso_mass) | set(data.el_mass))
    for z in zs:
        sym = data.sym_of_z.get(z)
        if sym is None or z == 0:
            continue
        if data.has_data((sym, 0, 0)) is False:
            out.append((sym, 0, 0))
    for (z, a) in sorted(data.iso_mass):
        sym = data.sym_of_z.get(z)
        if z == 0 or sym is None:
            continue
        if data.has_data((sym, a, 0)) is False:
            out.append((sym, a, 0))
    return out


def do_nodata_sweep(ck, keys):
    for key in keys:
        try:
            lib_atom(ck.pt, key)
        except Exception:
            ck.acc.count("nodata_atoms_not_in_library")       # isotope lists are C06
            continue
        ck.case("compound", [(1, key)], "list", ("density", 1.0), ("wl", [1.798], "scalar"))


def pair_list():
    out = []
    for i in range(len(K)):
        for j in range(i + 1, len(K)):
            out.append((K[i], K[j]))
    return out


def triple_list():
    out = []
    n = len(K9)
    for i in range(n):
        for j in range(i + 1, n):
            for k in range(j + 1, n):
                out.append((K9[i], K9[j], K9[k]))
    return out


def shard(args):
    kind, items, tier = args
    acc = Acc()
    ck = Checker(acc, tier)
    thorough = tier != "quick"
    for it in items:
        if kind == "single":
            do_single(ck, tuple(it), thorough)
        elif kind == "pair":
            a, b = it
            for ca in COUNTS:
                for cb in COUNTS:
                    do_compound(ck, [(ca, a), (cb, b)], thorough)
        elif kind == "triple":
            a, b, c = it
            for ca in COUNTS:
                for cb in COUNTS:
                    for cc in COUNTS:
                        do_compound(ck, [(ca, a), (cb, b), (cc, c)], thorough)
        elif kind == "history":
            do_history(ck, [(c, tuple(k)) for c, k in it], thorough)
        elif kind == "history3":
            do_history(ck, [(c, tuple(k)) for c, k in it], thorough, depth3=True)
        elif kind == "nodata":
            do_nodata(ck, tuple(it))
        elif kind == "nodata-sweep":
            do_nodata_sweep(ck, [tuple(k) for k in it])
        else:
            raise MachineryError(kind)
        acc.count("compounds:" + kind)
    if items and not kind.startswith("history"):
        acc.sample(dict(kind=kind, first=[list(x) if isinstance(x, tuple) else x for x in
                                         (items[0] if kind in ("pair", "triple") else [items[0]][:1])][:3]))
    return acc


def _weight(data, keys):
    """rough cost of a compound: number of grid points."""
    w = 7
    for k in keys:
        tk = ("Lu", 176) if k[:2] == ("Lu", 0) else k[:2]
        if tk in data.tables:
            w += 2 * len(data.tables[tk][0])
    return w


def _balanced(items, weights, nshards):
    """Greedy partition into nshards lists of nearly equal total weight (deterministic)."""
    order = sorted(range(len(items)), key=lambda i: (-weights[i], i))
    bins = [[0, []] for _ in range(max(1, min(nshards, len(items))))]
    for i in order:
        b = min(bins, key=lambda b: b[0])
        b[0] += weights[i]
        b[1].append(i)
    return [[items[i] for i in sorted(b[1])] for b in bins if b[1]]


def run_tables(ctx, data):
    """Histories of several tables: each in a forked process of its own; the parent has not touched the neutron data
    of the public table yet (the first use of the public table is an event of the history)."""
    global _TT_DATA
    from .. import common
    pt = load_pt()
    if "neutron" in pt.elements.properties:
        raise MachineryError("the neutron data of the public table were loaded before the table histories")
    _TT_DATA = data
    from periodictable import formulas, mass, density          # imported before the fork; none touches neutron data
    # nothing beyond a broken state: the public table alone first
    base = common.pmap(tables_shard, [((("use",),), ctx.tier)], ctx.jobs, "C03-tables", always_fork=True)[0]
    ctx.acc.merge(base)
    if base.viol:
        ctx.acc.count("table_histories_not_explored_beyond_a_violation", len(table_histories()))
        return
    hists = table_histories()
    for r in common.pmap(tables_shard, [(h, ctx.tier) for h in rotate(hists, ctx.seed)], ctx.jobs, "C03-tables",
                         always_fork=True):
        ctx.acc.merge(r)
    ctx.acc.info["table_histories"] = len(hists) + 1
    if "neutron" in pt.elements.properties:
        raise MachineryError("a table history ran in the parent process")


def run(ctx):
    pt = load_pt()
    data = rn.NeutronData()
    run_tables(ctx, data)
    atoms = all_data_atoms(data)
    ions = ion_atoms(pt, data)
    # how the reader's idea of "has data" relates to the library's (reported, not judged here: C07)
    lib = set()
    for el in pt.elements:
        for at in [el] + list(el):
            if at.neutron.has_sld():
                lib.add((el.symbol, getattr(at, "isotope", 0), 0))
    ctx.acc.info["atoms_with_data_reader"] = len(atoms)
    ctx.acc.info["atoms_with_data_library"] = len(lib)
    ctx.acc.info["atoms_library_only"] = sorted("%s-%d" % (s, a) for s, a, q in lib - set(atoms))
    ctx.acc.info["atoms_reader_only"] = sorted("%s-%d" % (s, a) for s, a, q in set(atoms) - lib)
    ctx.acc.info["ions"] = len(ions)
    for k in K + K9:
        if data.has_data(k) is not True:
            raise MachineryError("alphabet atom %r has no data" % (k,))
    for k in NODATA:
        if data.has_data(k) is not False:
            raise MachineryError("alphabet atom %r should have no data" % (k,))
    tier = ctx.tier
    nsh = max(16, 3 * ctx.jobs)
    jobs = []
    singles = atoms + ions
    for chunk in _balanced(singles, [_weight(data, [k]) for k in singles], nsh):
        jobs.append(("single", chunk, tier))
    pairs = pair_list()
    for chunk in _balanced(pairs, [_weight(data, p) for p in pairs], 2 * nsh):
        jobs.append(("pair", chunk, tier))
    jobs.append(("nodata", list(NODATA), tier))
    nd = all_nodata_atoms(data)
    ctx.acc.info["atoms_without_data_reader"] = len(nd)
    jobs.append(("nodata-sweep", [nd], tier))
    hist, deep = history_compounds(tier)
    hist = [h for h in hist if h not in deep]
    hw = [(3.0 if len(f) == 1 else 1.0) * _weight(data, [k for c, k in f]) ** 0.25 for f in hist]
    for chunk in _balanced(hist, hw, nsh):
        jobs.append(("history", chunk, tier))
    for f in deep:
        jobs.append(("history3", [f], tier))
    ctx.acc.info["history_compounds"] = len(hist) + len(deep)
    if not ctx.quick:
        triples = triple_list()
        for chunk in _balanced(triples, [_weight(data, t) for t in triples], 2 * nsh):
            jobs.append(("triple", chunk, tier))
    ctx.pmap(shard, rotate(jobs, ctx.seed))
    ctx.acc.info["max_table_nodes"] = max(len(v[0]) for v in data.tables.values())
    ctx.acc.info["energy_tables"] = len(data.tables) + 1


def replay(ctx, case, signature=None):
    ck = Checker(ctx.acc, "thorough")
    if case.get("kind") == "tables":
        ck.tables_history(case["events"])          # the replay process has not touched the public table yet
        return
    frags = [(c, tuple(k)) for c, k in case["frags"]]
    if case.get("kind") == "history":
        ck.history(frags, case["form"], case["wkind"], case["hist"])
        return
    ck.case(case["route"], frags, case["form"], tuple(case["dens"]), tuple(case["w"]))
