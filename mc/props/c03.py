"""C03 - neutron SLD, cross sections and penetration depth follow the documented equations.

State space (DESIGN section 4, C03): compounds x density forms x wavelength forms.
  atoms      every atom with neutron data (elements and isotopes, decided by the independent table
             reader) one at a time, every ion of 12 representative elements, three isotope ions
  compounds  all unordered pairs over the class-representative alphabet K (32 atoms: light, negative b,
             strong absorbers, sigma_i dominated, all 15 table-driven entries, ions) with counts from
             {1, 2, 0.5}^2; thorough: all triples over a 9-atom sub-alphabet with counts {1, 2, 0.5}^3
  density    {0.07, 1, 2.33, 25} as density=, natural_density= (neutral atoms only), '@d' and '@dn' tags
  wavelength {0.05, 0.5, 1, 1.798, 4.75, 10, 50} plus, for every table-driven atom of the compound, every
             table node, every midpoint and one point beyond each end (thorough: also quarter points);
             each also as energy=; scalar and vectors of length 1, 2, 5 and the whole grid
Oracle: mc/ref/neutron.py (docstring equations in plain floats on independently parsed tables); all
seven outputs compared.  Differential: atom.neutron.scattering()/.sld() against the same equations at the
element's number density and against neutron_scattering(atom, density=atom.density).  A compound that
contains an atom without data returns (None, None, None)."""
import math
import numpy as np
from ..common import Acc, load_pt, rotate, MachineryError
from ..ref import neutron as rn

META = dict(
    level="model_checking", engine="E1",
    technique="bounded-exhaustive enumeration of compounds x density forms x wavelength forms on the real "
              "calculator against an independent evaluation of the documented equations",
    rule=("a case is (route, compound, construction form, density form, wavelength form); cases are distinct by "
          "construction (every atom of the table once; every unordered pair of the class alphabet with every count "
          "pair; every table node / midpoint / outside point of every table-driven atom); non-trivial = the "
          "compound has data, so seven reference values exist and are compared"),
    bound=dict(
        quick="all atoms with data + all ions of 12 elements; all pairs over the 32-atom class alphabet x 9 count pairs; "
              "4 densities x 4 density forms; 7 global wavelengths + all nodes/midpoints/outside points of the "
              "energy tables; wavelength= and energy=; scalar and vectors of length 1, 2, 5, full grid",
        thorough="quick + all triples over a 9-atom sub-alphabet x 27 count triples; quarter points between table "
                 "nodes; node sweeps in every density form at density 1 and with density=25"),
    assumptions=[
        "the embedded table text (nsf.nsftable, nsf_tables, mass, density) is the source of truth; that the library "
        "serves those values is C06/C07",
        "physical constants are read from periodictable.constants",
        "ion mass = neutral mass - charge * electron mass (core.Ion.mass); ions are given an explicit density= "
        "(natural_density of an ion is C12 territory and not used here)",
        "natural Lu is the abundance mix of constant Lu-175 and the Lu-176 table; either abundance column (mass "
        "table or neutron table) is accepted because the text does not say which",
        "Pu and Cm elements (record borrowed from one isotope row), Ra and the free neutron (data but no density) "
        "are outside the alphabet; rho_im is compared with -10 N Im(b_c) (all tabulated Im(b_c) are <= 0)",
        "off-grid real wavelengths/densities are not claimed",
    ],
    level_text="bounded-exhaustive: complete over the atoms of the table and over the nodes of the energy tables, "
               "bounded (pairs / triples over a class alphabet) for compounds, grid for the real parameters",
    level_note="trusted base: mc/ref/neutron.py, mc/ref/tables.py, numpy float arithmetic; tolerance rel 1e-9 on "
               "condition-aware scales (DESIGN section 3)",
)

GLOBAL_WL = (0.05, 0.5, 1.0, 1.798, 4.75, 10.0, 50.0)
DENSITIES = (0.07, 1.0, 2.33, 25.0)
COUNTS = (1, 2, 0.5)
ION_ELEMENTS = ("H", "O", "Fe", "Cl", "Na", "Ca", "Gd", "Sm", "Cu", "U", "Ti", "Mn")
ISOTOPE_IONS = (("O", 18, -2), ("Fe", 56, 3), ("H", 2, 1), ("Gd", 157, 3))
K = (("H", 0, 0), ("H", 2, 0), ("H", 1, 0), ("O", 0, 0), ("C", 0, 0), ("Si", 0, 0), ("Ti", 0, 0), ("Mn", 0, 0),
     ("V", 0, 0), ("B", 0, 0), ("B", 10, 0), ("Li", 6, 0), ("Cd", 0, 0), ("Cd", 113, 0),
     ("Sm", 0, 0), ("Sm", 149, 0), ("Eu", 0, 0), ("Eu", 151, 0), ("Gd", 0, 0), ("Gd", 155, 0), ("Gd", 157, 0),
     ("Dy", 164, 0), ("Er", 0, 0), ("Er", 167, 0), ("Yb", 0, 0), ("Yb", 168, 0), ("Yb", 174, 0),
     ("Lu", 0, 0), ("Lu", 176, 0),
     ("Fe", 0, 2), ("O", 0, -2), ("O", 18, -2))
K9 = (("H", 0, 0), ("H", 2, 0), ("O", 0, 0), ("Ti", 0, 0), ("V", 0, 0), ("B", 10, 0), ("Gd", 157, 0),
      ("Lu", 0, 0), ("O", 18, -2))
NODATA = (("Kr", 78, 0), ("Ru", 96, 0), ("Po", 0, 0), ("Og", 0, 0))


# ------------------------------------------------------------------ naming atoms in the three worlds
def lib_atom(pt, key):
    sym, a, q = key
    el = pt.elements.symbol(sym)
    at = el if a == 0 else el[a]
    return at if q == 0 else at.ion[q]


def atom_str(key):
    sym, a, q = key
    if sym == "H" and a == 2:
        s = "D"
    else:
        s = sym + ("[%d]" % a if a else "")
    if q:
        s += "{%s%s}" % ("" if abs(q) == 1 else "%d" % abs(q), "+" if q > 0 else "-")
    return s


def atom_py(key):
    sym, a, q = key
    s = "pt.%s" % sym + ("[%d]" % a if a else "")
    return s + (".ion[%d]" % q if q else "")


def cnt_str(c):
    if c == 1:
        return ""
    return repr(int(c)) if float(c).is_integer() else repr(float(c))


def compound_str(frags):
    return "".join(atom_str(k) + cnt_str(c) for c, k in frags)


def norm_frags(frags):
    return [(c, tuple(k)) for c, k in frags]


# ------------------------------------------------------------------ the checker
class Checker(object):
    def __init__(self, acc, tier="quick"):
        self.acc = acc
        self.tier = tier
        self.pt = load_pt()
        from periodictable import nsf
        self.nsf = nsf
        self.data = rn.NeutronData()
        self._grid_cache = {}

    # ---- grids
    def table_grid(self, sym, a):
        """[(wavelength, region)] for a table-driven atom: nodes, midpoints, one point beyond each end."""
        key = (sym, a)
        if key in self._grid_cache:
            return self._grid_cache[key]
        tk = ("Lu", 176) if key == ("Lu", 0) else key
        wl = self.data.tables[tk][0]
        pts = [(0.9 * wl[0], "below"), (1.1 * wl[-1], "above")]
        for i, w in enumerate(wl):
            pts.append((w, "node"))
            if i + 1 < len(wl):
                pts.append((0.5 * (w + wl[i + 1]), "mid"))
                if self.tier != "quick":
                    pts.append((0.75 * w + 0.25 * wl[i + 1], "quarter"))
                    pts.append((0.25 * w + 0.75 * wl[i + 1], "quarter"))
        self._grid_cache[key] = pts
        return pts

    def table_atoms(self, frags):
        out = []
        for c, k in frags:
            if self.data.has_table(k[0], k[1]) and (k[0], k[1]) not in out:
                out.append((k[0], k[1]))
        return out

    def node_grid(self, frags):
        seen = {}
        for sym, a in self.table_atoms(frags):
            for w, region in self.table_grid(sym, a):
                seen.setdefault(w, region)
        return sorted(seen.items())

    # ---- building the call
    def build_compound(self, frags, form, dspec):
        """-> (compound argument, keyword dict, python source of the call arguments)"""
        kw = {}
        src_kw = []
        kind = dspec[0]
        if form == "string":
            s = compound_str(frags)
            if kind == "tag":
                s += "@%r" % dspec[1]
            elif kind == "tagn":
                s += "@%rn" % dspec[1]
            comp, src = s, repr(s)
        elif form == "atom":
            if len(frags) != 1 or frags[0][0] != 1:
                raise MachineryError("atom form needs a one-atom compound")
            comp, src = lib_atom(self.pt, frags[0][1]), atom_py(frags[0][1])
        elif form == "list":
            comp = [(c, lib_atom(self.pt, k)) for c, k in frags]
            src = "[%s]" % ", ".join("(%r, %s)" % (c, atom_py(k)) for c, k in frags)
        else:
            raise MachineryError("form %r" % form)
        if kind == "density":
            kw["density"] = dspec[1]; src_kw.append("density=%r" % dspec[1])
        elif kind == "natural":
            kw["natural_density"] = dspec[1]; src_kw.append("natural_density=%r" % dspec[1])
        elif kind == "atomdensity":
            d = lib_atom(self.pt, frags[0][1]).density
            kw["density"] = d; src_kw.append("density=%s.density" % atom_py(frags[0][1]))
        elif kind in ("tag", "tagn", "atom"):
            pass
        else:
            raise MachineryError("density spec %r" % (dspec,))
        return comp, kw, src, src_kw

    def ref_density(self, frags, dspec):
        kind = dspec[0]
        if kind in ("density", "tag"):
            return dspec[1]
        if kind in ("natural", "tagn"):
            return self.data.compound_density(frags, ("natural", dspec[1]))
        if kind in ("atom", "atomdensity"):
            return self.data.compound_density(frags, ("atom",))
        raise MachineryError("density spec %r" % (dspec,))

    # ---- one case
    def case(self, route, frags, form, dspec, wspec):
        """Execute one case against the library and compare with the reference.
        wspec = (how, values, shape): how in 'wl' | 'en' | 'default'; values list of wavelengths in
        Angstrom (the reference wavelengths; for 'en' the energies passed are ref conversions of them);
        shape in 'scalar' | 'vector'."""
        acc = self.acc
        frags = norm_frags(frags)
        how, wls, shape = wspec
        wls = [float(w) for w in wls]
        case = dict(route=route, frags=[[c, list(k)] for c, k in frags], form=form, dens=list(dspec),
                    w=[how, wls, shape])
        has_table = bool(self.table_atoms(frags))
        cls = "table" if has_table else "const"
        # arguments
        if how == "default":
            wkw, wsrc = {}, []
            wls = [rn.ABS_WL]
        else:
            vals = wls if how == "wl" else [rn.energy_of_wavelength(w) for w in wls]
            arg = np.array(vals, dtype=float) if shape == "vector" else vals[0]
            name = "wavelength" if how == "wl" else "energy"
            wkw = {name: arg}
            wsrc = ["%s=%s" % (name, ("np.array(%r)" % (vals,)) if shape == "vector" else repr(vals[0]))]
        try:
            if route in ("direct", "direct_sld"):
                at = lib_atom(self.pt, frags[0][1])
                meth = at.neutron.scattering if route == "direct" else at.neutron.sld
                src = "%s.neutron.%s(%s)" % (atom_py(frags[0][1]), "scattering" if route == "direct" else "sld",
                                             ", ".join(wsrc))
                if how == "en":
                    raise MachineryError("direct route has no energy argument")
                call = lambda: meth(**wkw)
            else:
                comp, kw, csrc, ksrc = self.build_compound(frags, form, dspec)
                fn = self.pt.neutron_scattering if route == "compound" else self.pt.neutron_sld
                src = "pt.%s(%s)" % ("neutron_scattering" if route == "compound" else "neutron_sld",
                                     ", ".join([csrc] + ksrc + wsrc))
                kw.update(wkw)
                call = lambda: fn(comp, **kw)
        except MachineryError:
            raise
        standalone = "import numpy as np\nimport periodictable as pt\nprint(%s)\n" % src
        if acc.states % 40009 == 7:
            acc.sample(dict(case, call=src))
        acc.states += 1
        acc.evaluations += 1
        acc.transitions += 1
        try:
            with np.errstate(all="ignore"):
                got = call()
        except Exception as e:
            acc.violation("raises:%s:%s:%s" % (type(e).__name__, route, cls), case, "seven values",
                          "%s: %s" % (type(e).__name__, e), standalone=standalone)
            return False
        # expected
        known = [self.data.has_data(k) for c, k in frags]
        if any(x is None for x in known):
            raise MachineryError("atom outside the judged alphabet in %r" % (frags,))
        if not all(known):
            acc.outcome("no-data -> (None, None, None)")
            ok = (isinstance(got, tuple) and len(got) == 3 and all(x is None for x in got))
            if not ok:
                acc.violation("nodata-returns-values:%s" % route, case, "(None, None, None)", repr(got)[:300],
                              standalone=standalone)
            return ok
        acc.nontrivial += 1
        if route in ("direct", "direct_sld"):
            sym = frags[0][1][0]
            nd = self.data.element_number_density(sym)
            dens = None
        else:
            nd = None
            dens = self.ref_density(frags, dspec)
        variants = ("mass", "nsf") if any(k[:2] == ("Lu", 0) for c, k in frags) else ("mass",)
        sld_only = route in ("sld", "direct_sld")
        # shape
        n = len(wls)
        try:
            flat = self._flatten(got, sld_only)
        except Exception as e:
            acc.violation("result-structure:%s:%s" % (route, cls), case, "((re, im, inc), (coh, abs, inc), pen)",
                          repr(got)[:300], standalone=standalone)
            return False
        if shape == "vector":
            for k, v in flat.items():
                if np.shape(v) != (n,):
                    acc.violation("vector-shape:%s:%s" % (route, cls), case,
                                  "every output of shape (%d,)" % n, "%s has shape %r" % (k, np.shape(v)),
                                  standalone=standalone)
                    return False
        else:
            for k, v in flat.items():
                if np.shape(v) != ():
                    acc.violation("scalar-shape:%s:%s" % (route, cls), case, "scalar outputs",
                                  "%s has shape %r" % (k, np.shape(v)), standalone=standalone)
                    return False
        fails = None
        names = list(flat)
        if shape == "vector":
            cols = [np.asarray(flat[k]) for k in names]
            if any(np.iscomplexobj(c) for c in cols):
                cols = [c.tolist() for c in cols]
            else:
                cols = [c.astype(float).tolist() for c in cols]
        else:
            cols = None
        for i, w in enumerate(wls):
            if cols is not None:
                obs = dict((k, c[i]) for k, c in zip(names, cols))
            else:
                obs = {}
                for k, v in flat.items():
                    try:
                        obs[k] = complex(v) if isinstance(v, complex) or np.iscomplexobj(v) else float(v)
                    except Exception:
                        obs[k] = None
            best = None
            for lu in variants:
                ref = self.data.evaluate(frags, dens, w, lu=lu, number_density=nd)
                bad = self._compare(ref, obs, sld_only)
                if best is None or len(bad) < len(best[0]):
                    best = (bad, ref, obs)
                if not bad:
                    break
            acc.traces += 1
            if best[0]:
                fails = (i, w) + best
                break
            self._outcomes(best[1], cls, how, shape, route)
        if fails is None:
            return True
        i, w, bad, ref, obs = fails
        names = rn.OUTPUTS[:3] if sld_only else rn.OUTPUTS
        what = ("all" if len(bad) == len(names) else
                "incoherent" if set(bad) <= set(("rho_inc", "xs_inc")) else "+".join(bad))
        case["failing_index"] = i
        where = "direct" if route.startswith("direct") else "compound"
        cause = self.diagnose_table(frags, w) if has_table else None
        if cause is None and len(bad) >= 2:
            # one common factor on the number density explains every failing output?
            for probe in ("rho_im", "xs_abs", "rho_re"):
                try:
                    f = obs[probe] / ref[probe]
                except Exception:
                    continue
                if not (f > 0 and math.isfinite(f)):
                    continue
                ref2 = self.data.evaluate(frags, dens, w, number_density=ref["N"] * f)
                if not self._compare(ref2, obs, sld_only):
                    what = "number-density"
                    break
        sig = cause if cause else "eq:%s:%s" % (what, where)
        acc.violation(sig, case, dict((k, ref[k]) for k in names), dict((k, repr(obs[k])) for k in names),
                      standalone=standalone, detail=dict(wavelength=w, failing=bad, route=route, cls=cls))
        return False

    def diagnose_table(self, frags, w):
        """Attribute a failing case to its cause: if the per-atom scattering length that the library serves for a
        table-driven atom at this wavelength (public method Neutron.scattering_by_wavelength) is not the
        interpolated, end-clamped table value, the signature names that, not the outputs it spoils."""
        for sym, a in self.table_atoms(frags):
            key = (sym, a, 0)
            tk = ("Lu", 176) if (sym, a) == ("Lu", 0) else (sym, a)
            xs = self.data.tables[tk][0]
            region = "below-table" if w < xs[0] else "above-table" if w > xs[-1] else "inside-table"
            label = "table-interpolation:%s%s" % ("natural-Lu-mix:" if (sym, a) == ("Lu", 0) else "", region)
            try:
                with np.errstate(all="ignore"):
                    b, sig = lib_atom(self.pt, key).neutron.scattering_by_wavelength(w)
                b = complex(b); sig = float(sig)
            except Exception:
                return label
            ok_b = ok_s = False
            for lu in (("mass", "nsf") if (sym, a) == ("Lu", 0) else ("mass",)):
                re_, im_, s_, mre, mim, msig = self.data.atom_scattering(key, w, lu)
                if abs(b.real - re_) <= 1e-9 * mre and abs(b.imag - im_) <= 1e-9 * mim:
                    ok_b = True
                    if abs(sig - s_) <= 1e-9 * msig:
                        ok_s = True
            if not ok_b:
                return label
            if not ok_s:
                return "table-atom-total-cross-section"
        return None

    @staticmethod
    def _flatten(got, sld_only):
        if sld_only:
            a, b, c = got
            return dict(rho_re=a, rho_im=b, rho_inc=c)
        return rn.flatten(got)

    @staticmethod
    def _compare(ref, obs, sld_only):
        if sld_only:
            full = dict(obs)
            for k in rn.OUTPUTS[3:]:
                full[k] = ref[k]
            return [b for b in rn.compare(ref, full) if b in rn.OUTPUTS[:3]]
        return rn.compare(ref, obs)

    def _outcomes(self, ref, cls, how, shape, route):
        o = self.acc.outcome
        o("route:" + route)
        o("%s/%s/%s" % (cls, how, shape))
        o("rho_re<0" if ref["rho_re"] < 0 else "rho_re>=0")
        o("sigma_i clipped to 0" if ref["sigma_s"] <= ref["sigma_c"] else "sigma_i>0")

    # ---- wavelength specs of a grid
    @staticmethod
    def vector_specs(grid):
        """vectors of length 1, 2 (descending), 5 (unsorted with a repeat) and the whole grid."""
        g = list(grid)
        n = len(g)
        v1 = [g[n // 2]]
        v2 = [g[-1], g[0]]
        v5 = [g[2 % n], g[0], g[4 % n], g[2 % n], g[1 % n]]
        return [v1, v2, v5, g]


# ------------------------------------------------------------------ enumeration
def all_data_atoms(data):
    """Every (symbol, A, 0) for which the independent reader says the atom has data and density."""
    out = []
    seen = set()
    for (z, a), r in sorted(data.rows.items()):
        key = (r["symbol"], a, 0)
        if data.has_data(key) is True:
            out.append(key); seen.add(key)
    for z, rs in sorted(data.by_z.items()):
        key = (rs[0]["symbol"], 0, 0)
        if key not in seen and data.has_data(key) is True:
            out.append(key); seen.add(key)
    return out


def ion_atoms(pt, data):
    out = []
    for sym in ION_ELEMENTS:
        for q in pt.elements.symbol(sym).ions:
            out.append((sym, 0, q))
    out.extend(ISOTOPE_IONS)
    return [k for k in out if data.has_data(k) is True]


def _grids(ck, frags):
    grid = list(GLOBAL_WL)
    nodes = [w for w, region in ck.node_grid(frags)]
    full = sorted(set(grid + nodes))
    vecs = ck.vector_specs(grid)
    for w, region in ck.node_grid(frags):
        ck.acc.count("grid_points:" + region)
    ck.acc.count("grid_points:global", len(grid))
    return grid, full, vecs, bool(nodes)


def do_single(ck, key, thorough):
    """All cases of the one-atom compound `key`."""
    ck.data.clear_cache()
    frags = [(1, key)]
    neutral = key[2] == 0
    grid, full, vecs, has_nodes = _grids(ck, frags)
    if neutral:
        # the atom queried directly (element number density) ...
        for route in ("direct", "direct_sld"):
            ck.case(route, frags, "atom", ("atom",), ("default", [rn.ABS_WL], "scalar"))
            for w in full:
                ck.case(route, frags, "atom", ("atom",), ("wl", [w], "scalar"))
            for v in vecs + ([full] if has_nodes else []):
                ck.case(route, frags, "atom", ("atom",), ("wl", v, "vector"))
        # ... and the one-atom compound at the atom's density: implicit and as density=atom.density
        for form in ("atom", "string", "list"):
            for dspec in (("atom",), ("atomdensity",)):
                ck.case("compound", frags, form, dspec, ("default", [rn.ABS_WL], "scalar"))
                if form == "string":
                    ck.case("compound", frags, form, dspec, ("wl", full, "vector"))
                    continue
                for w in full:
                    ck.case("compound", frags, form, dspec, ("wl", [w], "scalar"))
                    if form == "atom":
                        ck.case("compound", frags, form, dspec, ("en", [w], "scalar"))
            ck.case("sld", frags, form, ("atom",), ("wl", [4.75], "scalar"))
    # explicit densities in every form
    for d in DENSITIES:
        dforms = [("density", d, "list"), ("tag", d, "string")]
        if neutral:
            dforms += [("natural", d, "list"), ("tagn", d, "string"), ("natural", d, "atom")]
        else:
            dforms += [("density", d, "atom")]
        for kind, dv, form in dforms:
            dspec = (kind, dv)
            sweep = has_nodes and ((d == 1.0 and (thorough or kind in ("density", "tag")))
                                   or (thorough and kind == "density" and d == 25.0))
            if form == "string":
                # strings are parsed on every call: one scalar, one vector
                ck.case("compound", frags, form, dspec, ("wl", [1.798], "scalar"))
                ck.case("compound", frags, form, dspec, ("en", (full if sweep else grid), "vector"))
                continue
            gset = set(grid)
            for w in (full if sweep else grid):
                ck.case("compound", frags, form, dspec, ("wl", [w], "scalar"))
                if w in gset or thorough:            # table points as energy= go through the vector call
                    ck.case("compound", frags, form, dspec, ("en", [w], "scalar"))
            for v in vecs + ([full] if sweep else []):
                ck.case("compound", frags, form, dspec, ("wl", v, "vector"))
                ck.case("compound", frags, form, dspec, ("en", v, "vector"))
        ck.case("sld", frags, "list", ("density", d), ("en", [10.0], "scalar"))


def do_compound(ck, frags, thorough):
    """All cases of a multi-atom compound."""
    ck.data.clear_cache()
    neutral = all(k[2] == 0 for c, k in frags)
    grid, full, vecs, has_nodes = _grids(ck, frags)
    for d in DENSITIES:
        dforms = [("density", d, "list"), ("tag", d, "string")]
        if neutral:
            dforms += [("natural", d, "list"), ("tagn", d, "string")]
        for kind, dv, form in dforms:
            dspec = (kind, dv)
            sweep = has_nodes and ((d == 1.0 and (thorough or kind in ("density", "tag")))
                                   or (thorough and kind == "density" and d == 25.0))
            if form == "string":
                ck.case("compound", frags, form, dspec, ("wl", [1.798], "scalar"))
                ck.case("compound", frags, form, dspec, ("en", (full if sweep else grid), "vector"))
                continue
            gset = set(grid)
            for w in (full if sweep else grid):
                ck.case("compound", frags, form, dspec, ("wl", [w], "scalar"))
                if w in gset or thorough:            # table points as energy= go through the vector call
                    ck.case("compound", frags, form, dspec, ("en", [w], "scalar"))
            for v in vecs + ([full] if sweep else []):
                ck.case("compound", frags, form, dspec, ("wl", v, "vector"))
                ck.case("compound", frags, form, dspec, ("en", v, "vector"))
    ck.case("sld", frags, "list", ("density", 2.33), ("wl", [4.75], "scalar"))
    ck.case("compound", frags, "list", ("density", 1.0), ("default", [rn.ABS_WL], "scalar"))


def do_nodata(ck, key):
    """A compound containing an atom without data gives (None, None, None) - alone and with every partner."""
    for form in ("list", "string"):
        ck.case("compound", [(1, key)], form, ("density", 1.0), ("wl", [1.798], "scalar"))
        ck.case("compound", [(1, key)], form, ("density", 1.0), ("wl", [1.0, 2.0], "vector"))
        for other in K:
            for frags in ([(1, key), (2, other)], [(2, other), (0.5, key)]):
                ck.case("compound", frags, form, ("density", 2.33), ("wl", [4.75], "scalar"))
                ck.case("compound", frags, form, ("density", 2.33), ("en", [4.75], "scalar"))


def all_nodata_atoms(data):
    """Every element and every isotope of the mass table for which the reader finds no neutron data
    (atoms that are not judged - Ra, n, Pu, Cm elements - are left out)."""
    out = []
    zs = sorted(set(z for z, a in data.iso_mass) | set(data.el_mass))
    for z in zs:
        sym = data.sym_of_z.get(z)
        if sym is None or z == 0:
            continue
        if data.has_data((sym, 0, 0)) is False:
            out.append((sym, 0, 0))
    for (z, a) in sorted(data.iso_mass):
        sym = data.sym_of_z.get(z)
        if z == 0 or sym is None:
            continue
        if data.has_data((sym, a, 0)) is False:
            out.append((sym, a, 0))
    return out


def do_nodata_sweep(ck, keys):
    for key in keys:
        try:
            lib_atom(ck.pt, key)
        except Exception:
            ck.acc.count("nodata_atoms_not_in_library")       # isotope lists are C06
            continue
        ck.case("compound", [(1, key)], "list", ("density", 1.0), ("wl", [1.798], "scalar"))


def pair_list():
    out = []
    for i in range(len(K)):
        for j in range(i + 1, len(K)):
            out.append((K[i], K[j]))
    return out


def triple_list():
    out = []
    n = len(K9)
    for i in range(n):
        for j in range(i + 1, n):
            for k in range(j + 1, n):
                out.append((K9[i], K9[j], K9[k]))
    return out


def shard(args):
    kind, items, tier = args
    acc = Acc()
    ck = Checker(acc, tier)
    thorough = tier != "quick"
    for it in items:
        if kind == "single":
            do_single(ck, tuple(it), thorough)
        elif kind == "pair":
            a, b = it
            for ca in COUNTS:
                for cb in COUNTS:
                    do_compound(ck, [(ca, a), (cb, b)], thorough)
        elif kind == "triple":
            a, b, c = it
            for ca in COUNTS:
                for cb in COUNTS:
                    for cc in COUNTS:
                        do_compound(ck, [(ca, a), (cb, b), (cc, c)], thorough)
        elif kind == "nodata":
            do_nodata(ck, tuple(it))
        elif kind == "nodata-sweep":
            do_nodata_sweep(ck, [tuple(k) for k in it])
        else:
            raise MachineryError(kind)
        acc.count("compounds:" + kind)
    if items:
        acc.sample(dict(kind=kind, first=[list(x) if isinstance(x, tuple) else x for x in
                                         (items[0] if kind in ("pair", "triple") else [items[0]][:1])][:3]))
    return acc


def _weight(data, keys):
    """rough cost of a compound: number of grid points."""
    w = 7
    for k in keys:
        tk = ("Lu", 176) if k[:2] == ("Lu", 0) else k[:2]
        if tk in data.tables:
            w += 2 * len(data.tables[tk][0])
    return w


def _balanced(items, weights, nshards):
    """Greedy partition into nshards lists of nearly equal total weight (deterministic)."""
    order = sorted(range(len(items)), key=lambda i: (-weights[i], i))
    bins = [[0, []] for _ in range(max(1, min(nshards, len(items))))]
    for i in order:
        b = min(bins, key=lambda b: b[0])
        b[0] += weights[i]
        b[1].append(i)
    return [[items[i] for i in sorted(b[1])] for b in bins if b[1]]


def run(ctx):
    pt = load_pt()
    data = rn.NeutronData()
    atoms = all_data_atoms(data)
    ions = ion_atoms(pt, data)
    # how the reader's idea of "has data" relates to the library's (reported, not judged here: C07)
    lib = set()
    for el in pt.elements:
        for at in [el] + list(el):
            if at.neutron.has_sld():
                lib.add((el.symbol, getattr(at, "isotope", 0), 0))
    ctx.acc.info["atoms_with_data_reader"] = len(atoms)
    ctx.acc.info["atoms_with_data_library"] = len(lib)
    ctx.acc.info["atoms_library_only"] = sorted("%s-%d" % (s, a) for s, a, q in lib - set(atoms))
    ctx.acc.info["atoms_reader_only"] = sorted("%s-%d" % (s, a) for s, a, q in set(atoms) - lib)
    ctx.acc.info["ions"] = len(ions)
    for k in K + K9:
        if data.has_data(k) is not True:
            raise MachineryError("alphabet atom %r has no data" % (k,))
    for k in NODATA:
        if data.has_data(k) is not False:
            raise MachineryError("alphabet atom %r should have no data" % (k,))
    tier = ctx.tier
    nsh = max(16, 3 * ctx.jobs)
    jobs = []
    singles = atoms + ions
    for chunk in _balanced(singles, [_weight(data, [k]) for k in singles], nsh):
        jobs.append(("single", chunk, tier))
    pairs = pair_list()
    for chunk in _balanced(pairs, [_weight(data, p) for p in pairs], 2 * nsh):
        jobs.append(("pair", chunk, tier))
    jobs.append(("nodata", list(NODATA), tier))
    nd = all_nodata_atoms(data)
    ctx.acc.info["atoms_without_data_reader"] = len(nd)
    jobs.append(("nodata-sweep", [nd], tier))
    if not ctx.quick:
        triples = triple_list()
        for chunk in _balanced(triples, [_weight(data, t) for t in triples], 2 * nsh):
            jobs.append(("triple", chunk, tier))
    ctx.pmap(shard, rotate(jobs, ctx.seed))
    ctx.acc.info["max_table_nodes"] = max(len(v[0]) for v in data.tables.values())
    ctx.acc.info["energy_tables"] = len(data.tables) + 1


def replay(ctx, case, signature=None):
    ck = Checker(ctx.acc, "thorough")
    frags = [(c, tuple(k)) for c, k in case["frags"]]
    how, wls, shape = case["w"]
    ck.case(case["route"], frags, case["form"], tuple(case["dens"]), (how, wls, shape))
