"""C06 - mass, abundance and density of every nuclide are those of the embedded tables.

Complete sweep of every row of the three embedded mass tables and the density table, repeated in
every configuration of a small configuration graph (public table as imported / after all lazy
groups were loaded; private tables created before / after; other groups initialised on a private
table first; entries customised and the group reloaded with reload=True).  Each configuration path runs in its own
forked interpreter.  The expected values are the pinned copy of the embedded tables (mc/ref/tables.py, second half):
nothing is read from the source of the tree under test, so a row that is lost there is a violation, not a moved reference."""
import math
from ..common import Acc, load_pt, close, rotate, MachineryError
from ..ref import tables as rt

META = dict(
    level="model_checking", engine="E1",
    technique="complete row sweep of the embedded tables in every state of a configuration graph, "
              "against independent table readers",
    rule=("every path of the configuration graph (events: load all lazy groups of the public table, create+"
          "initialise a private table, initialise the remaining groups on it) is executed in a fresh forked "
          "interpreter; in the end state every row of isotope_mass, element_mass, isotope_abundance and "
          "element_densities is compared with an independent reader for every live table; number density and "
          "interatomic distance are read through EVERY atom object of each element - the element, each isotope, each "
          "ion of the element and each ion of each isotope (all charges of element.ions) - and must satisfy the two "
          "relations there too.  Configuration events include the optional arguments of the init functions: a private "
          "table initialised with reload=True from the start, a second init with the default arguments, a reload of "
          "every group already initialised - on private tables and on the public table - and an explicit init of the "
          "public table.  In every end state EVERY ACCESS ROUTE of a table to an element or nuclide (table attribute, "
          "symbol(), name(), isotope(), iteration over the table / over the element, attribute + index, add_isotope of "
          "an existing mass number, the parent of an ion, the special names D and T with their symbol / name / isotope "
          "look-ups, the names exported by the package) must serve the very object the row sweep judged (or at least an "
          "object serving the same mass, uncertainty, abundance and density: reported under its own signature).  "
          "CUSTOMISE-THEN-RELOAD (events *_dirty / *_reload of mc/configs.py): the entries of a group are replaced by a "
          "custom dataset - an element WITH a value in the table, elements the table lists as unknown (density None: At, "
          "Og, Cf, the neutron; no standard atomic weight: Tc, Og), isotopes (mass, a composition row, an isotope outside "
          "the composition table), by assignment, None and deletion - and the group is re-initialised with "
          "<module>.init(table, reload=True): all initialised groups at once and each group alone, on a private table "
          "and on the public table, followed by further events; the complete sweep of the reloaded table must again equal "
          "the embedded tables (what is found only there carries ':after-customise-and-reload'); the elements the table "
          "hands out must be those of the reference and every row of the density table must have its element; "
          "a cell is one (configuration, table, atom, quantity or route); all cells are distinct and non-trivial"),
    bound=dict(quick="33 configuration paths (9 of the original graph, 14 with option events, 10 customise-then-reload: all "
                     "groups at once on a mass+density table, on a table with every group, on the public table as imported and "
                     "after all lazy groups; mass, density, neutron each alone on both) x all rows x all routes "
                     "(exhaustive over rows and routes)",
               thorough="all 23 orderings of the configuration events up to length 4, the fixed paths of the quick tier, "
                        "every option event inserted at every position of every ordering up to length 3, the pair (customise, "
                        "reload) of the private and of the public table at every position of every ordering up to length 3 - "
                        "adjacent and with the reload at the end - and each of the 8 groups alone (480 paths) "
                        "x all rows x all routes"),
    assumptions=["the embedded tables are the data the tree under test carries: per table, the text of the tree is read by the independent text readers of mc/ref/tables.py and is the reference as long as it is readable and holds at least 90 % of the rows of the pinned copy mc/ref/pinned_tables.json (made once from /repo at commit 6ba067a: `VERIF_REPO=/repo /venv/bin/python -m mc.ref.tables --write-pinned`); where the text is unreadable (another layout, a table re-keyed or moved) the pinned copy is the reference - so a deliberate data update moves the reference, a change of layout neither stops the check nor takes rows away unnoticed; the run record says which copy was used",
                 "mass.init / density.init (table, reload=True), on a new table or again on an initialised one, and a "
                 "repeated init with the default arguments are legal ways to initialise a table: afterwards it serves the "
                 "embedded tables; so is a reload after a customisation ('going back to the stock values'): every element and "
                 "isotope of the mass and density tables has a row there (a value or 'unknown'), so the reload restores all of "
                 "them; a table that is customised and NOT reloaded is not judged",
                 "elements and nuclides are singletons of their table (core.py: 'elements are effectively singletons'): "
                 "every look-up serves the same object; an equal-valued other object is reported separately "
                 "(route-gives-other-object) from one with other values (route-serves-other-values)",
                 "physical constants come from periodictable.constants",
                 "read through an isotope, n = rho_iso*N_A/m_iso with rho_iso = rho*m_iso/m is the element's rho*N_A/m "
                 "and d is the element's d (density.py: isotopes keep the inter-atomic spacing of the natural form)",
                 "read through an ion the statement does not say whether (rho, m) are the nuclide's or the ion's as "
                 "served (element density, mass less the electrons): either value of n is accepted, n*d^3 = 1e24 is "
                 "required; mass, abundance and density of ions are not judged (the statement names elements and isotopes)"],
    level_text="complete over the finite domain (all 119 elements, all isotopes, all table rows) in each explored "
               "configuration; configurations are bounded (one or two private tables)",
    level_note="independent text readers in mc/ref/tables.py read the four tables from the text of the tree under test "
               "(value(unc), [nominal], [low,high] notations re-implemented with decimal alignment); where that text is "
               "unreadable the pinned copy mc/ref/pinned_tables.json made with the same readers from the unchanged tree is used",
)

from ..configs import (LAZY, EVENTS, QUICK_PATHS, all_paths, apply_event, judged_tables, atom_routes, restored_labels,
                       RELOADED, fold_reloaded, snippet as _snippet)


class Ref(object):
    def __init__(self):
        self.iso = rt.isotope_masses()
        self.elm = rt.element_masses()
        self.elm_fallback = {}
        for ln_z, v in rt.isotope_table_element_masses().items():
            self.elm_fallback[ln_z] = v
        self.abund = rt.isotope_abundances()
        self.dens = rt.element_densities()


def through_atoms(el, rho, NA, bad):
    """number_density / interatomic_distance read through the isotopes, the ions and the isotope ions of one element.

    Isotope: the statement's relation with the isotope's own density and mass, n = rho_iso*N_A/m_iso with
    rho_iso = rho*m_iso/m, is the element's value rho*N_A/m (density.py: 'density using inter-atomic spacing from
    naturally occurring form'), so d is the element's d.  Ion: the library serves the element's density for an ion
    and the ion's own mass (less the electrons); which pair the relation is read with is not said, so n may be
    either rho*N_A/m of the nuclide or rho_ion*N_A/m_ion of the ion as served (they differ by 1e-6..5e-4, far
    above the tolerance); n*d^3 = 1e24 holds in every reading.  Returns the number of cells."""
    Z = el.number
    cells = 0
    if rho is not None:
        try:
            n_el, d_el = el.number_density, el.interatomic_distance
            if not (close(n_el, rho * NA / el.mass, 1e-12) and close(n_el * d_el ** 3, 1e24, 1e-12)):
                return 0        # reported for the element itself; its other atom objects would only repeat it
        except Exception:
            return 0
    atoms = []
    for iso in el:
        atoms.append(("isotope", [Z, iso.isotope], "T[%d][%d]" % (Z, iso.isotope), iso))
    for q in getattr(el, "ions", ()):
        atoms.append(("ion", [Z, 0, q], "T[%d].ion[%d]" % (Z, q), None))
        for iso in el:
            atoms.append(("isotope-ion", [Z, iso.isotope, q], "T[%d][%d].ion[%d]" % (Z, iso.isotope, q), None))
    for klass, key, expr, atom in atoms:
        code = "a = %s; print(a.density, a.mass, a.number_density, a.interatomic_distance)" % expr
        cells += 2
        try:
            if atom is None:
                base = el if key[1] == 0 else el[key[1]]
                atom = base.ion[key[2]]
            n, d = atom.number_density, atom.interatomic_distance
        except Exception as e:
            bad("number-density-through-%s-raises" % klass, key, "a value" if rho is not None else (None, None),
                "%s: %s" % (type(e).__name__, e), code)
            return cells        # one report per element and cause
        if rho is None:
            if (n, d) != (None, None):
                bad("number-density-unknown-through-%s" % klass, key, (None, None), (n, d), code)
                return cells
            continue
        wants = [rho * NA / el.mass]
        if klass != "isotope":
            try:
                wants.append(atom.density * NA / atom.mass)
            except Exception:
                pass
        if not any(close(n, w, 1e-12) for w in wants):
            bad("number-density-through-%s" % klass, key, wants[0] if len(wants) == 1 else "one of %r" % (wants,), n, code)
            return cells
        if not isinstance(d, (int, float)) or not close(n * d ** 3, 1e24, 1e-12):
            bad("interatomic-distance-through-%s" % klass, key, "n*d^3 = 1e24",
                n * d ** 3 if isinstance(d, (int, float)) else d, code)
            return cells
        if klass == "isotope" and not close(d, d_el, 1e-12):
            bad("interatomic-distance-through-isotope", key, d_el, d, code)
            return cells
    return cells


def sweep(pt, T, label, path, ref, acc):
    """All rows against table T.  Returns number of cells checked."""
    from periodictable import constants
    cells = 0
    after = RELOADED if label in restored_labels(path) else ""
    def bad(rule, key, expected, observed, code):
        acc.violation("%s:%s%s" % (rule, "public" if label == "public" else "private", after),
                      dict(path=list(path), table=label, key=key, rule=rule),
                      expected=expected, observed=observed,
                      standalone=_snippet(path, label, code))
    def get(fn, rule, key, code):
        try:
            return True, fn()
        except Exception as e:
            bad(rule + "-raises", key, "a value", "%s: %s" % (type(e).__name__, e), code)
            return False, None
    # --- the elements of the table are those of the reference (the loops below walk the table: an element that the
    # table does not hand out would be passed by)
    want_z = [0] + rt.all_element_numbers()
    ok, got_z = get(lambda: sorted(el.number for el in T), "element-list", [], "print([el.number for el in T])")
    cells += 1
    if ok and got_z != want_z:
        bad("element-list", [], "0..%d" % want_z[-1],
            "missing %r, extra %r" % (sorted(set(want_z) - set(got_z)), sorted(set(got_z) - set(want_z))), "print([el.number for el in T])")
    # --- isotope set and masses
    by_z = {}
    for (Z, A) in ref.iso:
        by_z.setdefault(Z, []).append(A)
    by_z.setdefault(0, []).append(1)
    for el in T:
        Z = el.number
        want = sorted(by_z.get(Z, []))
        ok, got = get(lambda: list(el.isotopes), "isotope-list", [Z], "print(T[%d].isotopes)" % Z)
        cells += 1
        if ok and got != want:
            bad("isotope-list", [Z], want, got, "print(T[%d].isotopes)" % Z)
        ok, it = get(lambda: [i.isotope for i in el], "isotope-iteration", [Z], "print([i.isotope for i in T[%d]])" % Z)
        if ok and it != want:
            bad("isotope-iteration", [Z], want, it, "print([i.isotope for i in T[%d]])" % Z)
    for (Z, A), (sym, m, u) in ref.iso.items():
        code = "print(T[%d][%d].mass, T[%d][%d]._mass_unc)" % (Z, A, Z, A)
        ok, iso = get(lambda: T[Z][A], "isotope-missing", [Z, A], code)
        if not ok:
            continue
        if T[Z].symbol != sym:
            bad("isotope-symbol", [Z, A], sym, T[Z].symbol, code)
        ok, gm = get(lambda: (iso.mass, iso._mass_unc), "isotope-mass", [Z, A], code)
        cells += 2
        if ok:
            if not close(gm[0], m, 1e-12):
                bad("isotope-mass", [Z, A], m, gm[0], code)
            if not close(gm[1], u, 1e-12):
                bad("isotope-mass-unc", [Z, A], u, gm[1], code)
    # neutron
    n = T[0]
    cells += 2
    if not close(n.mass, constants.neutron_mass, 1e-12) or not close(n[1].mass, constants.neutron_mass, 1e-12):
        bad("neutron-mass", [0], constants.neutron_mass, (n.mass, n[1].mass), "print(T[0].mass, T[0][1].mass)")
    # --- element masses
    for el in T:
        Z = el.number
        if Z == 0:
            continue
        if Z in ref.elm:
            _, m, u = ref.elm[Z]
        elif Z in ref.elm_fallback:
            m, u = ref.elm_fallback[Z]
        else:
            raise MachineryError("C06: no reference mass for element %d" % Z)
        code = "print(T[%d].mass, T[%d]._mass_unc)" % (Z, Z)
        ok, gm = get(lambda: (el.mass, el._mass_unc), "element-mass", [Z], code)
        cells += 2
        if ok:
            if not close(gm[0], m, 1e-12):
                bad("element-mass", [Z], m, gm[0], code)
            if not close(gm[1], u, 1e-12):
                bad("element-mass-unc", [Z], u, gm[1], code)
    # --- abundances
    for el in T:
        Z = el.number
        if Z == 0:
            continue   # the loader states abundance 100 for the free neutron; not in the composition table
        block = ref.abund.get(Z)
        if block:
            tot = sum(v[0] for v in block.values())
        ssum = 0.0
        for iso in el:
            A = iso.isotope
            code = "print(T[%d][%d].abundance)" % (Z, A)
            ok, ab = get(lambda: iso.abundance, "abundance", [Z, A], code)
            cells += 1
            if not ok:
                continue
            if block and A in block:
                want = 100.0 * block[A][0] / tot
                if not close(ab, want, 1e-12, 1e-15):
                    bad("abundance", [Z, A], want, ab, code)
                wantu = 100.0 * block[A][1] / tot
                gu = getattr(iso, "_abundance_unc", None)
                if not close(gu, wantu, 1e-12, 1e-15):
                    bad("abundance-unc", [Z, A], wantu, gu, code)
            else:
                if ab != 0:
                    bad("abundance-unlisted-nonzero", [Z, A], 0, ab, code)
            ssum += ab
        if block:
            cells += 2
            if not close(ssum, 100.0, 1e-10):
                bad("abundance-sum", [Z], 100.0, ssum, "print(sum(i.abundance for i in T[%d]))" % Z)
            missing = [A for A in block if A not in el.isotopes]
            if missing:
                bad("abundance-isotope-missing", [Z], [], missing, "print(T[%d].isotopes)" % Z)
            else:
                wsum = sum(T[Z][A].abundance * T[Z][A].mass for A in block) / 100.0
                if abs(el.mass - wsum) > el._mass_unc * (1 + 1e-9):
                    bad("atomic-weight-vs-isotopes", [Z], "|%r - sum a_i m_i| <= %r" % (el.mass, el._mass_unc),
                        wsum, "print(T[%d].mass, sum(i.abundance*i.mass for i in T[%d])/100)" % (Z, Z))
    # --- density, number density, interatomic distance
    for el in T:
        Z, sym = el.number, el.symbol
        if sym not in ref.dens:
            continue
        rho = ref.dens[sym]
        code = "print(T[%d].density, T[%d].number_density, T[%d].interatomic_distance)" % (Z, Z, Z)
        ok, g = get(lambda: el.density, "element-density", [Z], code)
        cells += 1
        if ok and not close(g, rho, 1e-12):
            bad("element-density", [Z], rho, g, code)
        ok, nd = get(lambda: (el.number_density, el.interatomic_distance), "number-density", [Z], code)
        cells += 2
        if ok:
            if rho is None:
                if nd != (None, None):
                    bad("number-density-unknown", [Z], (None, None), nd, code)
            else:
                want_n = rho * constants.avogadro_number / el.mass
                if not close(nd[0], want_n, 1e-12):
                    bad("number-density", [Z], want_n, nd[0], code)
                elif not close(nd[0] * nd[1] ** 3, 1e24, 1e-12):
                    bad("interatomic-distance", [Z], "n*d^3 = 1e24", nd[0] * nd[1] ** 3, code)
        for iso in el:
            A = iso.isotope
            code = "print(T[%d][%d].density)" % (Z, A)
            cells += 1
            try:
                gi = iso.density
            except Exception as e:
                bad("isotope-density-raises" + ("-unknown-element-density" if rho is None else ""), [Z, A],
                    "None" if rho is None else "a value", "%s: %s" % (type(e).__name__, e), code)
                continue
            if rho is None:
                if gi is not None:
                    bad("isotope-density-unknown", [Z, A], None, gi, code)
            else:
                want = rho * iso.mass / el.mass
                if not close(gi, want, 1e-12):
                    bad("isotope-density", [Z, A], want, gi, code)
        # --- the same two relations read through every other atom object of the element (several types in one
        # process): isotopes (n = rho_iso*N_A/m_iso = rho*N_A/m, the spacing of the natural form), ions of the
        # element and ions of every isotope
        cells += through_atoms(el, rho, constants.avogadro_number, bad)
    # elements of the table without a row in the density table, rows of the density table without an element
    for el in T:
        if el.symbol not in ref.dens:
            bad("density-entry-missing-in-reader", [el.number], "entry", "none", "")
    have = set(el.symbol for el in T)
    for sym in sorted(ref.dens):
        if sym not in have:
            bad("density-row-without-element", [sym], "an element %s" % sym, "none", "print(T.%s)" % sym)
    return cells


def served(atom, nuclide):
    """What an atom object serves for the quantities of the statement (an exception is an observation too)."""
    out = []
    for attr in ("mass", "_mass_unc", "density") + (("abundance",) if nuclide else ()):
        try:
            out.append(getattr(atom, attr))
        except Exception as e:
            out.append("%s: %s" % (type(e).__name__, e))
    return out


def same_served(a, b):
    return all((x == y) if isinstance(x, str) or isinstance(y, str) else close(x, y, 1e-12, 1e-15) for x, y in zip(a, b))


def sweep_routes(pt, T, label, path, acc):
    """Every access route to every element and nuclide of T (table attribute, symbol(), name(), isotope(), iteration,
    attribute + index, add_isotope of an existing mass number, the parent of an ion, the special names D and T, the
    names exported by the package for the public table) must serve the very object the row sweep judged; if it serves
    another object, that object must at least serve the same mass, uncertainty, abundance and density."""
    cells = 0
    failed_primary = set()
    after = RELOADED if label in restored_labels(path) else ""
    def bad(rule, route, key, expected, observed, code):
        acc.violation("%s:%s:%s%s" % (rule, route.rstrip("*"), "public" if label == "public" else "private", after),
                      dict(path=list(path), table=label, key=key, rule=rule, route=route),
                      expected=expected, observed=observed, standalone=_snippet(path, label, code))
    for route, key, expr, canon, thunk in atom_routes(pt, T, label):
        if route.endswith("*") and tuple(key) in failed_primary:
            continue
        cells += 1
        nuclide = len(key) == 2
        canon_expr = "T[%d]" % key[0] if not nuclide else "T[%d][%d]" % tuple(key)
        code = ("a = %s; c = %s\nprint(a is c, [getattr(x, n, 'absent') for x in (a, c) for n in "
                "('mass', '_mass_unc', 'density'%s)])" % (expr, canon_expr, ", 'abundance'" if nuclide else ""))
        try:
            obj = thunk()
        except Exception as e:
            bad("route-raises", route, key, "the atom %s" % canon_expr, "%s: %s" % (type(e).__name__, e), code)
            failed_primary.add(tuple(key))
            continue
        if obj is canon:
            acc.outcome("route:" + route.rstrip("*"))
            continue
        failed_primary.add(tuple(key))
        want, got = served(canon, nuclide), served(obj, nuclide)
        if not same_served(want, got):
            bad("route-serves-other-values", route, key, want, got, code)
        else:
            bad("route-gives-other-object", route, key, "%s itself" % canon_expr, "another object: %r" % (obj,), code)
    return cells


def run_path(args):
    idx, path = args
    acc = Acc()
    pt = load_pt()
    ref = Ref()
    tables = {}
    for ev in path:
        try:
            apply_event(pt, ev, tables, str(idx))
        except Exception as e:
            acc.violation("configuration-event-raises:" + ev, dict(path=list(path), event=ev),
                          "no exception", "%s: %s" % (type(e).__name__, e), standalone=_snippet(path, "public", ""))
            return acc
        acc.transitions += 1
    live = [("public", pt.elements)] + sorted(tables.items())
    for label, T in judged_tables(path, live):
        cells = sweep(pt, T, label, path, ref, acc)
        cells += sweep_routes(pt, T, label, path, acc)
        acc.states += cells
        acc.nontrivial += cells
        acc.evaluations += cells
        acc.transitions += cells
        acc.outcome("table:" + label)
    acc.sample(dict(path=list(path), tables=[l for l, _ in live]))
    acc.count("configurations")
    if path == ():
        # for the run record only: which copy of each table the check judged by (the tree's own text, or the pinned copy where that is unreadable)
        acc.notes += ["pinned reference tables: %s" % rt.pinned_origin()] + rt.reference_notes()
    return acc


def run(ctx):
    paths = QUICK_PATHS if ctx.quick else all_paths()
    jobs = list(enumerate(paths))
    ctx.pmap(run_path, rotate(jobs, ctx.seed))
    fold_reloaded(ctx.acc)
    ctx.acc.traces = ctx.acc.evaluations
    ctx.acc.info["rows"] = dict(isotope_mass=len(rt.isotope_masses()), element_mass=len(rt.element_masses()),
                                abundance_blocks=len(rt.isotope_abundances()), densities=len(rt.element_densities()))


def replay(ctx, case, signature=None):
    path = tuple(case["path"])
    acc = run_path((9000 + abs(hash(jdump_key(case))) % 1000, path))
    # keep only the violations of the recorded rule/key
    for sig, rec in acc.viol.items():
        if rec["case"].get("rule") == case.get("rule") and rec["case"].get("table") == case.get("table"):
            ctx.acc.viol[sig] = rec


def jdump_key(case):
    import json
    return json.dumps(case, sort_keys=True)
