"""C05 - X-ray factors, SLD and refraction follow the tables and documented equations; f0.

Four families of units, each enumerated completely (DESIGN section 4, C05):

 table unit (one per .nff file, 92)   every node, every midpoint, points just inside / just outside /
     far outside the tabulated range and around the first valid f1 node; asked through energy= and
     the equivalent wavelength=, scalar and as one vector, on the element; the same vector on every
     ion of the element and on every isotope / isotope ion (must equal the element's answer);
     element.xray.sld against r_e N f and against the one-atom compound at the element's density.
 f0 unit (one per '#S' entry of f0_WaasKirf.dat, 211)   Q grid x every atom that reaches the entry
     (element or element ion, each isotope or isotope ion, cromermann.fxrayatq by file symbol).
 compound unit   one- and two-atom compounds over the class-representative alphabet x counts x
     densities x energies (fixed grid + the two nodes bracketing every sharp absorption edge of the
     atoms present + out of range), with the property's relations as edges.
"""
import math
import numpy as np
from ..common import Acc, load_pt, chunks, rotate, MachineryError
from ..ref import xray as rx

META = dict(
    level="model_checking", engine="E1",
    technique="complete sweep of the 92 scattering-factor tables and 211 form-factor entries plus bounded-exhaustive "
              "exploration of a compound graph (edges = the property's relations) on the real implementation, against "
              "independent readers and hand-written equations",
    rule=("a case is one (atom, query point, route) of a table, one (entry, atom, Q) of the form-factor file, or one "
          "(compound, density, energy) with its outgoing edges (wavelength route, scalar call, density x k, isotope "
          "substitution, refraction, mirror); cases are distinct by construction (points, atoms and compounds are "
          "enumerated without repetition); non-trivial = the expected value is a finite number (in-range query)"),
    bound=dict(
        quick="all 92 tables: every node + 3 points per segment (0.25, 0.5, 0.75) + range probes, 4 routes, every "
              "ion, every isotope and isotope ion; all 211 f0 entries x 8 Q x every reaching atom; 17-atom alphabet: "
              "all singles x 2 counts, all unordered pairs x 3 count patterns, all triples over a 7-atom sub-alphabet; "
              "x 3 densities x "
              "(5 grid energies + 2 out of range + edge-bracketing nodes of the atoms present)",
        thorough="same tables with 5 points per segment (0.01, 0.25, 0.5, 0.75, 0.99); same f0 sweep; compounds: "
                 "singles x 3 counts, pairs x 4 count patterns, all triples over the 17-atom alphabet x 2 count "
                 "patterns; x 5 densities x (24 grid energies + 2 out of range + edge nodes)"),
    assumptions=[
        "the .nff and f0_WaasKirf.dat texts are the source of truth (loader errors are detected, not data errors)",
        "physical constants and neutral atom masses / element densities are read from the library (C06)",
        "vectors are numpy arrays (python lists as wavelength= are not in the alphabet)",
        "si.nff lists 1838.80, 1839., 1838.90 eV out of order: interpolation is undefined on [1.8388, 1.86] keV; "
        "points there are not judged against the table (edge relations that do not need the table still are)",
        "a node whose keV value depends on the eV->keV rounding is judged with both one-sided limits accepted; the "
        "same for every query that went through wavelength (h c / (h c / E) != E by an ulp)",
        "ions without Cromer-Mann entry are outside the statement; ion.xray.sld (number density of a charged atom) "
        "and elements without density are not judged",
    ],
    level_text="complete over the finite tables (every node, midpoint and range end of all 92 tables; all 211 "
               "coefficient sets; every element, ion, isotope and isotope ion as entry point) and bounded-exhaustive "
               "over compounds (pairs, in thorough triples, over a class-representative alphabet) on a grid placed at "
               "the table's own break points; nothing is claimed for real arguments off the grid",
    level_note="trusted: mc/ref/xray.py (independent readers; bisection + straight line; closed forms), numpy only as "
               "array container, periodictable.constants, neutral masses and element densities (C06)",
)

NAN = float("nan")
TOL = 1e-9
PI = math.pi
Q_GRID = (0.0, 1e-6, 1.0, 4 * PI, 24 * PI * (1 - 1e-12), 24 * PI, 24 * PI * (1 + 1e-12), 30 * PI)
ANGLES = (0.01, 0.1, 0.5, 1.0, 5.0, 45.0, 90.0)
ROUGHNESS = (0.0, 3.0)
DENS_K = (0.5, 2.0, 10.0)
ELEMENT_SLD_E = (0.03, 1.0, 8.04, 17.4, 29.0, 0.005, 31.0)

# atom = (element symbol, isotope number or None, charge)
ALPHABET = (("H", None, 0), ("H", 2, 0), ("H", 1, 0), ("H", None, -1), ("H", 1, -1), ("H", 2, -1), ("H", 3, 1),
            ("C", None, 0), ("O", None, 0), ("O", 18, 0), ("Si", None, 0), ("Fe", None, 0), ("Fe", None, 2),
            ("Fe", 56, 0), ("Fe", 56, 2), ("Au", None, 0), ("U", None, 0))
SUB_ALPHABET = (("H", None, 0), ("H", 2, 0), ("O", 18, 0), ("Si", None, 0), ("Fe", 56, 2), ("Au", None, 0),
                ("U", None, 0))


def _tier(quick):
    if quick:
        return dict(counts2=((1, 1), (2, 3), (0.5, 1)), counts1=(1, 2.5), counts3=((2, 1, 0.5),), dens=(0.5, 1.0, 7.87),
                    grid=(0.03, 1.0, 8.04, 17.4, 29.0), fractions=(0.25, 0.5, 0.75), triples=SUB_ALPHABET)
    g = [0.0101 * (30.0 / 0.0101) ** (i / 18.0) * 0.999 for i in range(19)]
    return dict(counts2=((1, 1), (2, 3), (0.5, 1), (7, 0.25)), counts1=(1, 2.5, 0.125), counts3=((2, 1, 0.5), (1, 3, 1)),
                dens=(0.07, 0.5, 1.0, 7.87, 19.3),
                grid=tuple(sorted(set((0.03, 1.0, 8.04, 17.4, 29.0) + tuple(g)))),
                fractions=(0.01, 0.25, 0.5, 0.75, 0.99), triples=ALPHABET)


# ------------------------------------------------------------------------------------- helpers
def _env():
    pt = load_pt()
    from periodictable import xsf, constants, cromermann
    return pt, xsf, constants, cromermann


def _sym(stem):
    return stem[0].upper() + stem[1:]


def atom_obj(pt, spec):
    sym, iso, q = spec
    a = pt.elements.symbol(sym)
    if iso is not None:
        a = a[iso]
    if q:
        a = a.ion[q]
    return a


def atom_code(spec):
    sym, iso, q = spec
    s = "pt.%s" % sym
    if iso is not None:
        s += "[%d]" % iso
    if q:
        s += ".ion[%d]" % q
    return s


def atom_label(spec):
    sym, iso, q = spec
    s = sym + ("[%d]" % iso if iso is not None else "")
    if q:
        s += "{%s%s}" % (abs(q) if abs(q) > 1 else "", "+" if q > 0 else "-")
    return s


def is_alias_isotope(iso_obj):
    """Isotope that carries a symbol of its own (D, T)."""
    try:
        return iso_obj.symbol != iso_obj.element.symbol
    except Exception:
        return False


def spec_is_alias_ion(pt, spec):
    sym, iso, q = spec
    return bool(q) and iso is not None and is_alias_isotope(pt.elements.symbol(sym)[iso])


def ref_mass(pt, consts, spec):
    sym, iso, q = spec
    base = pt.elements.symbol(sym)
    if iso is not None:
        base = base[iso]
    return base.mass - q * consts.electron_mass


def ok1(o, c, s, rel=TOL):
    """observed o agrees with candidate c; s = sum of magnitudes of the terms forming c."""
    if o is None:
        return False
    o = float(o)
    if c != c:
        return o != o
    if o != o:
        return False
    return abs(o - c) <= rel * max(s, abs(c)) + 1e-300


def match(o1, o2, cands, rel=TOL):
    for (c1, c2), (s1, s2) in cands:
        if ok1(o1, c1, s1, rel) and ok1(o2, c2, s2, rel):
            return True
    return False


def exc(e):
    return "%s: %s" % (type(e).__name__, e)


def fl(x):
    try:
        if x is None:
            return None
        if isinstance(x, complex) or (hasattr(x, "dtype") and np.iscomplexobj(x)):
            x = complex(x)
            return [x.real, x.imag]
        return float(x)
    except Exception:
        return repr(x)


def cands_out(cands):
    return [[c[0][0], c[0][1]] for c in cands]


# ------------------------------------------------------------------------------------- table unit
def table_points(t, fractions=(0.5,)):
    """[(kind, E, fuzzy)]: kind in in-range / out-of-range; fuzzy = node position ambiguous."""
    xs, n = t.energy, len(t)
    pts = []
    for k in range(n):
        if not rx.in_zone(t, xs[k]):
            pts.append(("node", xs[k], rx.node_is_fuzzy(t, k)))
    for k in range(n - 1):
        if xs[k + 1] > xs[k]:
            for fr in fractions:
                E = xs[k] + fr * (xs[k + 1] - xs[k])
                if xs[k] < E < xs[k + 1] and not rx.in_zone(t, E):
                    pts.append(("between", E, False))
    pts.append(("below-far", xs[0] * 0.5, False))
    pts.append(("below", xs[0] * (1 - 1e-13), False))
    pts.append(("inside-first", xs[0] * (1 + 1e-13), False))
    pts.append(("inside-last", xs[-1] * (1 - 1e-13), False))
    pts.append(("above", xs[-1] * (1 + 1e-13), False))
    pts.append(("above-far", xs[-1] * 1.1, False))
    for k in range(1, n):
        for col in (t.f1, t.f2):
            if col[k - 1] != col[k - 1] and col[k] == col[k]:
                pts.append(("before-first-valid", xs[k] * (1 - 1e-13), False))
                pts.append(("after-first-valid", xs[k] * (1 + 1e-13), False))
    seen, out = set(), []
    for p in pts:
        if p[1] not in seen:
            seen.add(p[1])
            out.append(p)
    return out


def _klass(cands):
    c = cands[0][0]
    if c[0] != c[0] and c[1] != c[1]:
        return "out-of-range"
    if c[0] != c[0] or c[1] != c[1]:
        return "missing-value"
    return "in-range"


def table_unit(arg):
    stem, quick, seed = arg
    acc = Acc()
    pt, xsf, consts, _cm = _env()
    t = rx.nff_tables()[stem]
    sym = _sym(stem)
    el = pt.elements.symbol(sym)
    tier = _tier(quick)
    pts = rotate(table_points(t, tier["fractions"]), seed)
    E = [p[1] for p in pts]
    strict = [rx.sf_candidates(t, p[1], fuzzy=p[2]) for p in pts]
    fuzzy = [rx.sf_candidates(t, p[1], fuzzy=True) for p in pts]
    if any(c is None for c in strict):
        raise MachineryError("point inside an unjudged zone")
    acc.count("tables")
    acc.count("nodes", len(t))
    if t.zones:
        acc.info["max_unjudged_zones"] = len(t.zones)
        acc.outcome("table-with-rows-out-of-order:" + stem)
    if t.duplicates:
        acc.outcome("table-with-duplicated-energy:" + stem)

    def viol(sig, route, i, observed, expected=None, atom=sym, code=None):
        Ei = E[i] if i is not None else None
        arg_ = "energy=%r" % Ei if "wavelength" not in route else "wavelength=%r" % rx.wavelength_of_energy(Ei, consts) \
            if Ei is not None else ""
        acc.violation(sig, dict(unit="table", stem=stem, atom=atom, route=route, energy_keV=Ei,
                                kind=pts[i][0] if i is not None else None),
                      expected=expected if expected is not None else (cands_out(strict[i]) if i is not None else None),
                      observed=observed,
                      standalone=code or ("import periodictable as pt\nprint(%s.xray.scattering_factors(%s))\n"
                                          % (atom if atom.startswith("pt.") else "pt." + atom, arg_)))

    x = el.xray
    # route 1: energy, scalar
    good = [False] * len(pts)
    scal = [None] * len(pts)
    for i, (kind, Ei, fz) in enumerate(pts):
        acc.states += 1
        acc.evaluations += 1
        acc.transitions += 1
        try:
            f1, f2 = x.scattering_factors(energy=Ei)
        except Exception as e:
            viol("sf-raises", "energy-scalar", i, exc(e))
            continue
        k = _klass(strict[i])
        acc.outcome("sf:" + k)
        if k == "in-range":
            acc.nontrivial += 1
        if f1 is None or not match(f1, f2, strict[i]):
            viol("sf-interpolation:" + k, "energy-scalar", i, [fl(f1), fl(f2)])
            continue
        good[i] = True
        scal[i] = (float(f1), float(f2))
    if not any(good):
        return acc
    acc.sample(dict(unit="table", stem=stem, energy_keV=E[0], kind=pts[0][0], expected=cands_out(strict[0])))
    # route 2: wavelength, scalar (edge energy -> wavelength)
    wl = [rx.wavelength_of_energy(Ei, consts) for Ei in E]
    for i in range(len(pts)):
        if not good[i]:
            continue
        acc.evaluations += 1
        acc.transitions += 1
        try:
            f1, f2 = x.scattering_factors(wavelength=wl[i])
        except Exception as e:
            viol("sf-raises", "wavelength-scalar", i, exc(e))
            continue
        if f1 is None or not match(f1, f2, fuzzy[i]):
            viol("sf-wavelength-differs-from-energy", "wavelength-scalar", i, [fl(f1), fl(f2)], cands_out(fuzzy[i]))
    # routes 3, 4: vectors
    idx = [i for i in range(len(pts)) if good[i]]
    Ev = np.array([E[i] for i in idx])
    Wv = np.array([wl[i] for i in idx])
    vec_e = None
    for route, kw, cl in (("energy-vector", dict(energy=Ev), strict), ("wavelength-vector", dict(wavelength=Wv), fuzzy)):
        acc.evaluations += 1
        acc.transitions += len(idx)
        try:
            f1, f2 = x.scattering_factors(**kw)
            f1 = np.asarray(f1, dtype=float)
            f2 = np.asarray(f2, dtype=float)
            if f1.shape != (len(idx),) or f2.shape != (len(idx),):
                raise ValueError("shape %r for %d queries" % (f1.shape, len(idx)))
        except Exception as e:
            viol("sf-raises", route, None, exc(e),
                 code="import numpy, periodictable as pt\nprint(pt.%s.xray.scattering_factors(%s=numpy.array(%r)))\n"
                      % (sym, "energy" if kw.get("energy") is not None else "wavelength",
                         list((Ev if "energy" in kw else Wv)[:3])))
            continue
        if route == "energy-vector":
            vec_e = (f1, f2)
        for j, i in enumerate(idx):
            if not match(f1[j], f2[j], cl[i]):
                viol("sf-vector-differs-from-scalar" if route == "energy-vector"
                     else "sf-wavelength-differs-from-energy", route, i, [fl(f1[j]), fl(f2[j])], cands_out(cl[i]))
                break
    sweep_clean = not acc.viol
    # ions, isotopes, isotope ions: same answer as the element (vector route)
    if vec_e is not None:
        others = []
        for q in el.ions:
            others.append((sym, None, q))
        for iso in el:
            others.append((sym, iso.isotope, 0))
            for q in el.ions:
                others.append((sym, iso.isotope, q))
        for spec in others:
            acc.states += 1
            acc.nontrivial += 1
            acc.evaluations += 1
            acc.transitions += 1          # one edge element -> atom (a whole vector is compared)
            code = ("import numpy, periodictable as pt\nE = numpy.array(%r)\nprint(%s.xray.scattering_factors(energy=E))\n"
                    "print(pt.%s.xray.scattering_factors(energy=E))\n" % ([E[i] for i in idx[:2]], atom_code(spec), sym))
            alias = spec_is_alias_ion(pt, spec)
            klass = ("ion" if spec[1] is None else "isotope" if not spec[2] else "isotope-ion")
            try:
                a = atom_obj(pt, spec)
                g1, g2 = a.xray.scattering_factors(energy=Ev)
                if g1 is None:
                    raise LookupError("scattering_factors returned (None, None)")
                g1 = np.asarray(g1, dtype=float)
                g2 = np.asarray(g2, dtype=float)
                same = (g1.shape == vec_e[0].shape and
                        np.allclose(g1, vec_e[0], rtol=1e-12, atol=0, equal_nan=True) and
                        np.allclose(g2, vec_e[1], rtol=1e-12, atol=0, equal_nan=True))
                obs = None if same else "differs from the element's factors, e.g. %r" % ([fl(g1[0]), fl(g2[0])],)
            except Exception as e:
                same, obs = False, exc(e)
            acc.outcome("sf-delegation:" + klass)
            if not same:
                sig = "sld-of-D/T-ion-uses-alias-symbol" if alias else "sf-of-%s-differs-from-element" % klass
                acc.violation(sig, dict(unit="table", stem=stem, atom=atom_code(spec), route="energy-vector"),
                              expected="the factors of %s: %r" % (sym, [fl(vec_e[0][0]), fl(vec_e[1][0])]),
                              observed=obs, standalone=code)
    if sweep_clean:
        element_sld(pt, xsf, consts, t, el, sym, acc)
    return acc


def element_sld(pt, xsf, consts, t, el, sym, acc):
    """element.xray.sld = r_e N (f1 + i f2) with N = rho_m / m N_A; equals the one-atom compound at the
    element's density; isotopes likewise at the isotope's density."""
    if el.density is None:
        acc.outcome("element-sld:no-density-not-judged")
        return
    Es = [e for e in ELEMENT_SLD_E if not rx.in_zone(t, e)]
    cand = [rx.sf_candidates(t, e) for e in Es]
    Ev = np.array(Es)
    atoms = [(sym, None, 0)] + [(sym, iso.isotope, 0) for iso in el]
    for spec in atoms:
        a = atom_obj(pt, spec)
        dens, mass = a.density, a.mass
        code = ("import numpy, periodictable as pt\nE = numpy.array(%r)\nprint(%s.xray.sld(energy=E))\n"
                "print(pt.xray_sld({%s: 1}, density=%s.density, energy=E))\n"
                % (Es, atom_code(spec), atom_code(spec), atom_code(spec)))
        case = dict(unit="table", stem=t.stem, atom=atom_code(spec), route="element-sld")
        acc.states += len(Es)
        acc.evaluations += 3 + len(Es)
        acc.transitions += 3 * len(Es)
        try:
            r, ir = a.xray.sld(energy=Ev)
            rw, irw = a.xray.sld(wavelength=np.array([rx.wavelength_of_energy(e, consts) for e in Es]))
            cr, cir = xsf.xray_sld({a: 1}, density=dens, energy=Ev)
            sc = [a.xray.sld(energy=e) for e in Es]
        except Exception as e:
            acc.violation("element-sld-raises", case, "values", exc(e), standalone=code)
            continue
        for j, e in enumerate(Es):
            (f1, f2), (m1, m2) = cand[j][0]
            rr, ri, s1, s2 = rx.sld_reference([(1.0, f1, f2, m1, m2)], mass, dens, consts)
            if f1 == f1:
                acc.nontrivial += 1
            if not (ok1(r[j], rr, s1) and ok1(ir[j], ri, s2)):
                acc.violation("element-sld-equation", dict(case, energy_keV=e), [rr, ri], [fl(r[j]), fl(ir[j])],
                              standalone=code)
                break
            if not (ok1(rw[j], rr, s1) and ok1(irw[j], ri, s2)):
                acc.violation("element-sld-wavelength-differs-from-energy", dict(case, energy_keV=e), [rr, ri],
                              [fl(rw[j]), fl(irw[j])], standalone=code)
                break
            if not (ok1(cr[j], fl(r[j]), s1, 1e-10) and ok1(cir[j], fl(ir[j]), s2, 1e-10)):
                acc.violation("element-sld-differs-from-one-atom-compound", dict(case, energy_keV=e),
                              [fl(r[j]), fl(ir[j])], [fl(cr[j]), fl(cir[j])], standalone=code)
                break
            if not (ok1(sc[j][0], fl(r[j]), s1, 1e-12) and ok1(sc[j][1], fl(ir[j]), s2, 1e-12)):
                acc.violation("element-sld-vector-differs-from-scalar", dict(case, energy_keV=e),
                              [fl(r[j]), fl(ir[j])], [fl(sc[j][0]), fl(sc[j][1])], standalone=code)
                break
    acc.outcome("element-sld:judged")


def table_shard(arg):
    stems, quick, seed = arg
    acc = Acc()
    for s in stems:
        acc.merge(table_unit((s, quick, seed)))
    return acc


# ------------------------------------------------------------------------------------- f0 unit
def f0_terms_scale(a, c, b, Q):
    s = Q / (4 * PI)
    return abs(c) + sum(abs(ai) * math.exp(-bi * s * s) for ai, bi in zip(a, b))


def f0_unit(ent, pt, cm, acc):
    sym, Z, a, c, b = ent["symbol"], ent["Z"], ent["a"], ent["c"], ent["b"]
    parts = rx.f0_symbol_parts(sym)
    ref = [rx.f0_reference(a, c, b, Q) for Q in Q_GRID]
    scale = [f0_terms_scale(a, c, b, Q) for Q in Q_GRID]
    Qv = np.array(Q_GRID)
    acc.count("f0_entries")

    def check(getter, code, who, klass, alias=False):
        """getter(Q) -> value; scalar at every Q and one vector call."""
        case = dict(unit="f0", entry=sym, atom=who)
        vals = []
        for i, Q in enumerate(Q_GRID):
            acc.states += 1
            acc.evaluations += 1
            acc.transitions += 1
            if ref[i] == ref[i]:
                acc.nontrivial += 1
            try:
                v = getter(Q)
                v = float(v)
            except Exception as e:
                if alias:
                    sig = "f0-of-D/T-ion-uses-alias-symbol"
                elif klass != "base":
                    sig = "f0-of-%s-raises" % klass
                else:
                    sig = "f0-raises"
                acc.violation(sig, dict(case, Q=Q), ref[i], exc(e), standalone=code % ("%r" % Q))
                return False
            vals.append(v)
            if not ok1(v, ref[i], scale[i]):
                if ref[i] != ref[i]:
                    sig = "f0-not-nan-beyond-fitted-range"
                elif v != v:
                    sig = "f0-nan-inside-fitted-range"
                elif klass != "base":
                    sig = "f0-of-%s-differs-from-entry" % klass
                else:
                    sig = "f0-value-differs-from-coefficients"
                acc.violation(sig, dict(case, Q=Q), ref[i], v, standalone=code % ("%r" % Q))
                return False
        acc.evaluations += 1
        acc.transitions += len(Q_GRID)
        try:
            vv = np.asarray(getter(Qv), dtype=float)
            if vv.shape != Qv.shape:
                raise ValueError("shape %r for %d Q values" % (vv.shape, len(Q_GRID)))
        except Exception as e:
            acc.violation("f0-vector-raises", case, vals, exc(e), standalone=code % ("numpy.array(%r)" % (list(Q_GRID),)))
            return False
        for i in range(len(Q_GRID)):
            if not ok1(vv[i], vals[i], scale[i], 1e-12):
                acc.violation("f0-vector-differs-from-scalar", dict(case, Q=Q_GRID[i]), vals[i], fl(vv[i]),
                              standalone=code % ("numpy.array(%r)" % (list(Q_GRID),)))
                return False
        return True

    head = "import numpy, periodictable as pt\nfrom periodictable import cromermann\n"
    ok = check(lambda Q: cm.fxrayatq(sym, Q), head + "print(cromermann.fxrayatq(%r, %%s))\n" % sym, "fxrayatq(%r)" % sym,
               "base")
    acc.outcome("f0:direct")
    if not ok:
        return            # the coefficient set itself is served wrongly: atoms reaching it add nothing
    if parts is None:
        acc.outcome("f0:valence-entry-no-atom")
        return
    esym, q = parts
    el = pt.elements.symbol(esym)
    if el.number != Z:
        acc.violation("f0-entry-atomic-number", dict(unit="f0", entry=sym), Z, el.number,
                      standalone="import periodictable as pt\nprint(pt.%s.number)\n" % esym)
        return
    if abs(q) == 1:
        short = esym + ("+" if q > 0 else "-")
        check(lambda Q: cm.fxrayatq(short, Q), head + "print(cromermann.fxrayatq(%r, %%s))\n" % short,
              "fxrayatq(%r)" % short, "base")
    if q and q not in el.ions:
        acc.outcome("f0:ion-not-reachable-from-table")
        return
    el.xray               # canonical history: the element's record exists before its ions are asked
    # electron count rule (file Z and charge): f0 -> Z - q for Q -> 0
    base_spec = (esym, None, q)
    specs = [(base_spec, "base")] + [((esym, iso.isotope, q), "isotope-ion" if q else "isotope") for iso in el]
    for spec, klass in specs:
        alias = spec_is_alias_ion(pt, spec)
        code = head + "print(%s.xray.f0(%%s))\n" % atom_code(spec)

        def getter(Q, spec=spec):
            return atom_obj(pt, spec).xray.f0(Q)
        good = check(getter, code, atom_code(spec), klass, alias)
        acc.outcome("f0:" + ("ion" if (q and klass == "base") else "element" if klass == "base" else klass))
        if klass == "base" and not good:
            return        # the element / element ion is wrong: its isotopes would only repeat it
        if klass == "base" and good:
            for Q in (0.0, 1e-6):
                acc.transitions += 1
                v = float(getter(Q))
                want = Z - q
                if not abs(v - want) <= 0.002 * want:
                    acc.violation("f0-electron-count", dict(unit="f0", entry=sym, atom=atom_code(spec), Q=Q),
                                  "within 0.2 %% of Z - charge = %d" % want, v, standalone=code % ("%r" % Q))
                    break
    acc.sample(dict(unit="f0", entry=sym, Z=Z, charge=q, f0_at_0=ref[0], atoms=len(specs)))


def f0_shard(arg):
    ents, quick, seed = arg
    acc = Acc()
    pt, _xsf, _consts, cm = _env()
    for ent in ents:
        f0_unit(ent, pt, cm, acc)
    return acc


# ------------------------------------------------------------------------------------- compound unit
def compound_list(tier):
    out = []
    for a in ALPHABET:
        for c in tier["counts1"]:
            out.append(((a, c),))
    n = len(ALPHABET)
    for i in range(n):
        for j in range(i + 1, n):
            for ci, cj in tier["counts2"]:
                out.append(((ALPHABET[i], ci), (ALPHABET[j], cj)))
    A3 = tier["triples"]
    m = len(A3)
    for i in range(m):
        for j in range(i + 1, m):
            for k in range(j + 1, m):
                for ci, cj, ck in tier["counts3"]:
                    out.append(((A3[i], ci), (A3[j], cj), (A3[k], ck)))
    return out


def cmpd_code(cmpd):
    tot = {}
    for a, c in cmpd:
        tot[a] = tot.get(a, 0) + c
    return "{%s}" % ", ".join("%s: %r" % (atom_code(a), tot[a]) for a in tot)


def cmpd_label(cmpd):
    return "".join("%s%s" % (atom_label(a), ("%g" % c) if c != 1 else "") for a, c in cmpd)


def cmpd_dict(pt, cmpd):
    out = {}
    for a, c in cmpd:
        o = atom_obj(pt, a)
        out[o] = out.get(o, 0) + c
    return out


def cmpd_energies(cmpd, tier):
    T = rx.nff_tables()
    Es = set(tier["grid"]) | set((0.005, 31.0))
    for (sym, _iso, _q), _c in cmpd:
        t = T[sym.lower()]
        for i, j in rx.edge_pairs(t):
            Es.add(t.energy[i])
            Es.add(t.energy[j])
    return sorted(Es)


def cmpd_reference(pt, consts, cmpd, density, E, fuzzy=False):
    """list of (rho, irho, s1, s2) candidates, or None if not judged at this energy."""
    T = rx.nff_tables()
    per = []
    for (sym, _iso, _q), c in cmpd:
        cl = rx.sf_candidates(T[sym.lower()], E, fuzzy=fuzzy)
        if cl is None:
            return None
        uniq = []
        for cand in cl:
            if not any(repr(cand[0]) == repr(u[0]) for u in uniq):
                uniq.append(cand)
        per.append([(c, u[0][0], u[0][1], u[1][0], u[1][1]) for u in uniq])
    mass = sum(c * ref_mass(pt, consts, a) for a, c in cmpd)
    combos = [[]]
    for alts in per:
        combos = [co + [alt] for co in combos for alt in alts]
        if len(combos) > 64:
            raise MachineryError("too many candidate combinations")
    return [rx.sld_reference(co, mass, density, consts) for co in combos]


def natural_spec(cmpd):
    return tuple(((a[0], None, a[2]), c) for a, c in cmpd)


def compound_unit(cmpd, pt, xsf, consts, tier, acc, broken):
    label = cmpd_label(cmpd)
    code_c = cmpd_code(cmpd)
    head = "import numpy, periodictable as pt\nfrom periodictable import xsf\n"
    Es = cmpd_energies(cmpd, tier)
    Ev = np.array(Es)
    Wl = [rx.wavelength_of_energy(e, consts) for e in Es]
    Wv = np.array(Wl)
    has_iso = any(a[1] is not None for a, _ in cmpd)
    iso_ion = any(a[1] is not None and a[2] for a, _ in cmpd)
    if any(a in broken for a, _ in cmpd) and len(cmpd) > 1:
        acc.count("compounds_skipped_containing_failing_atom")
        return
    try:
        cd = cmpd_dict(pt, cmpd)
    except Exception as e:
        raise MachineryError("cannot build %s: %s" % (label, exc(e)))
    acc.count("compounds")
    for d in tier["dens"]:
        case = dict(unit="compound", compound=[[list(a), c] for a, c in cmpd], label=label, density=d)

        def V(sig, expected, observed, call, **extra):
            acc.violation(sig, dict(case, **extra), expected, observed,
                          standalone=head + "E = numpy.array(%r)\nprint(%s)\n" % (Es, call))
        call_e = "xsf.xray_sld(%s, density=%r, energy=E)" % (code_c, d)
        acc.evaluations += 1
        try:
            r, ir = xsf.xray_sld(cd, density=d, energy=Ev)
            r = np.asarray(r, dtype=float)
            ir = np.asarray(ir, dtype=float)
            if r.shape != Ev.shape or ir.shape != Ev.shape:
                raise ValueError("shape %r for %d energies" % (r.shape, len(Es)))
        except Exception as e:
            if len(cmpd) == 1 and spec_is_alias_ion(pt, cmpd[0][0]):
                sig = "sld-of-D/T-ion-uses-alias-symbol"
            else:
                sig = "sld-raises"
            V(sig, "scattering length densities", exc(e), call_e)
            if len(cmpd) == 1:
                broken.add(cmpd[0][0])
            return
        refs = [cmpd_reference(pt, consts, cmpd, d, e) for e in Es]
        bad = False
        for j, e in enumerate(Es):
            acc.states += 1
            acc.transitions += 1
            if refs[j] is None:
                acc.count("compound_points_in_unjudged_zone")
                continue
            if refs[j][0][0] == refs[j][0][0]:
                acc.nontrivial += 1
                acc.outcome("sld:finite")
            else:
                acc.outcome("sld:nan-out-of-range")
            if not any(ok1(r[j], c[0], c[2]) and ok1(ir[j], c[1], c[3]) for c in refs[j]):
                V("sld-equation", [[c[0], c[1]] for c in refs[j]], [fl(r[j]), fl(ir[j])], call_e, energy_keV=e)
                bad = True
                break
        if bad:
            return
        scale = []
        for j in range(len(Es)):
            if refs[j] is not None:
                scale.append((refs[j][0][2], refs[j][0][3]))
            else:
                scale.append((abs(float(r[j])), abs(float(ir[j]))))
        # edge: scalar call
        for j, e in enumerate(Es):
            acc.evaluations += 1
            acc.transitions += 1
            try:
                sr, sir = xsf.xray_sld(cd, density=d, energy=e)
            except Exception as ex:
                V("sld-raises", [fl(r[j]), fl(ir[j])], exc(ex), "xsf.xray_sld(%s, density=%r, energy=%r)" % (code_c, d, e))
                bad = True
                break
            if np.size(sr) != 1 or np.size(sir) != 1 or not (
                    ok1(np.asarray(sr, dtype=float).reshape(-1)[0], float(r[j]), scale[j][0], 1e-12) and
                    ok1(np.asarray(sir, dtype=float).reshape(-1)[0], float(ir[j]), scale[j][1], 1e-12)):
                V("sld-vector-differs-from-scalar", [fl(r[j]), fl(ir[j])], [repr(sr), repr(sir)],
                  "xsf.xray_sld(%s, density=%r, energy=%r), %s" % (code_c, d, e, call_e), energy_keV=e)
                bad = True
                break
        if bad:
            return
        # edge: wavelength route (vector, then scalar against it)
        acc.evaluations += 1
        call_w = "xsf.xray_sld(%s, density=%r, wavelength=xsf.xray_wavelength(E))" % (code_c, d)
        try:
            rw, irw = xsf.xray_sld(cd, density=d, wavelength=Wv)
            rw = np.asarray(rw, dtype=float)
            irw = np.asarray(irw, dtype=float)
        except Exception as ex:
            V("sld-raises", "values", exc(ex), call_w)
            return
        for j, e in enumerate(Es):
            acc.transitions += 1
            if ok1(rw[j], float(r[j]), scale[j][0]) and ok1(irw[j], float(ir[j]), scale[j][1]):
                continue
            fz = cmpd_reference(pt, consts, cmpd, d, e, fuzzy=True)
            if fz is None:
                continue
            if not any(ok1(rw[j], c[0], c[2]) and ok1(irw[j], c[1], c[3]) for c in fz):
                V("sld-wavelength-differs-from-energy", [fl(r[j]), fl(ir[j])], [fl(rw[j]), fl(irw[j])],
                  call_w + ", " + call_e, energy_keV=e)
                bad = True
                break
        if bad:
            return
        for j in range(0, len(Es), max(1, len(Es) // 6)):
            acc.evaluations += 1
            acc.transitions += 1
            try:
                sr, sir = xsf.xray_sld(cd, density=d, wavelength=Wl[j])
            except Exception as ex:
                V("sld-raises", "values", exc(ex), "xsf.xray_sld(%s, density=%r, wavelength=%r)" % (code_c, d, Wl[j]))
                break
            if not (ok1(sr, float(rw[j]), scale[j][0], 1e-12) and ok1(sir, float(irw[j]), scale[j][1], 1e-12)):
                V("sld-vector-differs-from-scalar", [fl(rw[j]), fl(irw[j])], [fl(sr), fl(sir)],
                  "xsf.xray_sld(%s, density=%r, wavelength=%r)" % (code_c, d, Wl[j]), energy_keV=Es[j])
                break
        # edge: density x k
        for k in DENS_K:
            acc.evaluations += 1
            acc.transitions += len(Es)
            try:
                rk, irk = xsf.xray_sld(cd, density=k * d, energy=Ev)
            except Exception as ex:
                V("sld-raises", "values", exc(ex), "xsf.xray_sld(%s, density=%r, energy=E)" % (code_c, k * d))
                break
            j = _first_bad(rk, irk, k * r, k * ir, [(k * s[0], k * s[1]) for s in scale], 1e-12)
            if j is not None:
                V("sld-not-linear-in-density", [fl(k * r[j]), fl(k * ir[j])], [fl(rk[j]), fl(irk[j])],
                  "xsf.xray_sld(%s, density=%r, energy=E), %s" % (code_c, k * d, call_e), energy_keV=Es[j], k=k)
                break
        # refraction
        refraction(xsf, consts, cd, code_c, d, Es, Ev, Wl, Wv, r, ir, scale, acc, V)
        # mirror
        mirror(xsf, cd, code_c, d, Es, Ev, Wv, r, acc, V)
        # edge: isotope substitution at equal natural density
        if has_iso:
            nat = natural_spec(cmpd)
            try:
                nd = cmpd_dict(pt, nat)
            except Exception as e:
                raise MachineryError("cannot build %s: %s" % (cmpd_label(nat), exc(e)))
            m_iso = sum(c * ref_mass(pt, consts, a) for a, c in cmpd)
            m_nat = sum(c * ref_mass(pt, consts, a) for a, c in nat)
            ncode = cmpd_code(nat)
            acc.evaluations += 4
            acc.transitions += 2 * len(Es)
            try:
                r_n, ir_n = xsf.xray_sld(nd, density=d, energy=Ev)
                r_i, ir_i = xsf.xray_sld(cd, density=d * m_iso / m_nat, energy=Ev)
            except Exception as ex:
                V("sld-raises", "values", exc(ex), "xsf.xray_sld(%s, density=%r, energy=E)" % (ncode, d))
                continue
            j = _first_bad(r_i, ir_i, r_n, ir_n, scale, 1e-10)
            if j is not None:
                V("sld-depends-on-isotopes-at-equal-natural-density", [fl(r_n[j]), fl(ir_n[j])], [fl(r_i[j]), fl(ir_i[j])],
                  "xsf.xray_sld(%s, density=%r, energy=E), xsf.xray_sld(%s, density=%r*%r/%r, energy=E)"
                  % (ncode, d, code_c, d, m_iso, m_nat), energy_keV=Es[j])
                continue
            try:
                r_nk, ir_nk = xsf.xray_sld(nd, natural_density=d, energy=Ev)
                r_ik, ir_ik = xsf.xray_sld(cd, natural_density=d, energy=Ev)
            except Exception as ex:
                V("sld-raises", "values", exc(ex), "xsf.xray_sld(%s, natural_density=%r, energy=E)" % (code_c, d))
                continue
            j = _first_bad(r_ik, ir_ik, r_nk, ir_nk, scale, 1e-10)
            if j is not None:
                V("sld-natural_density-keyword-depends-on-isotopes:" + ("isotope-ion" if iso_ion else "isotope"),
                  [fl(r_nk[j]), fl(ir_nk[j])], [fl(r_ik[j]), fl(ir_ik[j])],
                  "xsf.xray_sld(%s, natural_density=%r, energy=E), xsf.xray_sld(%s, natural_density=%r, energy=E)"
                  % (ncode, d, code_c, d), energy_keV=Es[j])
    acc.sample(dict(unit="compound", label=label, densities=list(tier["dens"]), energies=len(Es)))


def _first_bad(a1, a2, b1, b2, scale, rel):
    a1 = np.asarray(a1, dtype=float); a2 = np.asarray(a2, dtype=float)
    for j in range(len(scale)):
        if not (ok1(a1[j], float(b1[j]), scale[j][0], rel) and ok1(a2[j], float(b2[j]), scale[j][1], rel)):
            return j
    return None


def refraction(xsf, consts, cd, code_c, d, Es, Ev, Wl, Wv, r, ir, scale, acc, V):
    """n = 1 - lambda^2/(2 pi) (rho + i irho) 1e-6 with the compound's own (already checked) SLD."""
    EPS1 = 8 * 2.220446049250313e-16
    for route, kw, call in (("energy", dict(energy=Ev), "xsf.index_of_refraction(%s, density=%r, energy=E)" % (code_c, d)),
                            ("wavelength", dict(wavelength=Wv),
                             "xsf.index_of_refraction(%s, density=%r, wavelength=xsf.xray_wavelength(E))" % (code_c, d))):
        acc.evaluations += 1
        acc.transitions += len(Es)
        try:
            n = np.asarray(xsf.index_of_refraction(cd, density=d, **kw))
            if n.shape != Ev.shape:
                raise ValueError("shape %r for %d energies" % (n.shape, len(Es)))
        except Exception as ex:
            V("index-of-refraction-raises", "values", exc(ex), call)
            return
        for j in range(len(Es)):
            want, dl, be = rx.index_reference(Wl[j], float(r[j]), float(ir[j]))
            k = Wl[j] * Wl[j] / (2 * PI) * 1e-6
            got = complex(n[j])
            if want.real != want.real:
                good = got.real != got.real
            else:
                good = (abs(got.real - want.real) <= TOL * max(dl, k * scale[j][0]) + EPS1 and
                        abs(got.imag - want.imag) <= TOL * max(be, k * scale[j][1]) + 1e-300)
            if not good:
                V("index-of-refraction-equation", fl(want), fl(got), call, energy_keV=Es[j], route=route)
                return
    for j in range(0, len(Es), max(1, len(Es) // 4)):
        acc.evaluations += 1
        acc.transitions += 1
        try:
            s = xsf.index_of_refraction(cd, density=d, energy=Es[j])
            want = complex(np.asarray(xsf.index_of_refraction(cd, density=d, energy=Ev))[j])
            s = complex(s)
        except Exception as ex:
            V("index-of-refraction-raises", "a scalar", exc(ex),
              "xsf.index_of_refraction(%s, density=%r, energy=%r)" % (code_c, d, Es[j]))
            return
        same = (s == want) or (s.real != s.real and want.real != want.real) or \
            (abs(s.real - want.real) <= EPS1 and abs(s.imag - want.imag) <= 1e-12 * abs(want.imag))
        if not same:
            V("index-of-refraction-vector-differs-from-scalar", fl(want), fl(s),
              "xsf.index_of_refraction(%s, density=%r, energy=%r)" % (code_c, d, Es[j]), energy_keV=Es[j])
            return


def mirror(xsf, cd, code_c, d, Es, Ev, Wv, r, acc, V):
    """0 <= reflectivity <= 1 wherever the SLD is a number."""
    fin = [j for j in range(len(Es)) if r[j] == r[j]]
    if not fin:
        return
    E_in = np.array([Es[j] for j in fin])
    ang = np.array(ANGLES)
    for rough in ROUGHNESS:
        for route, kw in (("energy", dict(energy=E_in)), ("wavelength", dict(wavelength=np.array([Wv[j] for j in fin])))):
            call = ("xsf.mirror_reflectivity(%s, density=%r, %s=%s, angle=numpy.array(%r), roughness=%r)"
                    % (code_c, d, route, "E" if route == "energy" else "xsf.xray_wavelength(E)", list(ANGLES), rough))
            acc.evaluations += 1
            acc.transitions += len(fin) * len(ANGLES)
            try:
                R = np.asarray(xsf.mirror_reflectivity(cd, density=d, angle=ang, roughness=rough, **kw), dtype=float)
                if R.shape != (len(ANGLES), len(fin)):
                    raise ValueError("shape %r for %d angles x %d energies" % (R.shape, len(ANGLES), len(fin)))
            except Exception as ex:
                V("mirror-reflectivity-raises", "matrix (angle, energy)", exc(ex), call)
                return
            okm = (R >= 0) & (R <= 1 + 1e-12)
            if not okm.all():
                ia, ie = [int(v[0]) for v in np.nonzero(~okm)]
                V("mirror-reflectivity-outside-[0,1]", "0 <= R <= 1", fl(R[ia, ie]), call,
                  energy_keV=float(E_in[ie]), angle=ANGLES[ia], roughness=rough)
                return
            acc.outcome("mirror:in-[0,1]")
    # scalar energy, scalar angle
    acc.evaluations += 1
    acc.transitions += 1
    try:
        R = np.asarray(xsf.mirror_reflectivity(cd, density=d, energy=float(E_in[len(fin) // 2]), angle=0.5), dtype=float)
        if not ((R >= 0) & (R <= 1 + 1e-12)).all() or R.size != 1:
            V("mirror-reflectivity-outside-[0,1]", "0 <= R <= 1", repr(R),
              "xsf.mirror_reflectivity(%s, density=%r, energy=%r, angle=0.5)" % (code_c, d, float(E_in[len(fin) // 2])))
    except Exception as ex:
        V("mirror-reflectivity-raises", "a reflectivity", exc(ex),
          "xsf.mirror_reflectivity(%s, density=%r, energy=%r, angle=0.5)" % (code_c, d, float(E_in[len(fin) // 2])))


def compound_shard(arg):
    cmpds, quick, seed = arg
    acc = Acc()
    pt, xsf, consts, _cm = _env()
    tier = _tier(quick)
    broken = set()
    # which single atoms fail on their own (so that compounds containing them are not explored)
    for a in sorted(set(a for c in cmpds for a, _ in c if len(c) > 1), key=repr):
        try:
            xsf.xray_sld({atom_obj(pt, a): 1}, density=1.0, energy=8.04)
        except Exception:
            broken.add(a)
    # elements whose scattering factors are wrong at the energies used here are reported by the table
    # units; compounds containing them are not explored (successors of a broken state add only noise)
    T = rx.nff_tables()
    wrong = set()
    for sym in sorted(set(a[0] for c in cmpds for a, _ in c)):
        Es = sorted(set(e for c in cmpds if any(a[0] == sym for a, _ in c) for e in cmpd_energies(c, tier)))
        t = T[sym.lower()]
        try:
            f1, f2 = pt.elements.symbol(sym).xray.scattering_factors(energy=np.array(Es))
            for j, e in enumerate(Es):
                cl = rx.sf_candidates(t, e)
                if cl is not None and not match(f1[j], f2[j], cl):
                    wrong.add(sym)
                    break
        except Exception:
            wrong.add(sym)
    for c in cmpds:
        if any(a[0] in wrong for a, _ in c):
            acc.count("compounds_skipped_constituent_factors_wrong")
            continue
        compound_unit(c, pt, xsf, consts, tier, acc, broken)
    return acc


# ------------------------------------------------------------------------------------- driver
def run(ctx):
    quick = ctx.quick
    tier = _tier(quick)
    T = rx.nff_tables()
    if len(T) != 92:
        raise MachineryError("%d .nff tables" % len(T))
    ents = rx.f0_entries()
    if rx.f0_file().duplicates:
        ctx.acc.notes.append("f0 file lists %r more than once" % rx.f0_file().duplicates)
        raise MachineryError("duplicated f0 symbols %r" % rx.f0_file().duplicates)
    pt = load_pt()
    # weight of a table unit ~ number of Xray objects it creates
    def weight(stem):
        el = pt.elements.symbol(_sym(stem))
        return (1 + len(el.ions)) * (1 + len(el.isotopes))
    stems = sorted(T, key=lambda s: -weight(s))
    nshard = max(8, min(32, 2 * ctx.jobs))
    bins = [[] for _ in range(nshard)]
    load = [0] * nshard
    for s in stems:
        k = load.index(min(load))
        bins[k].append(s)
        load[k] += weight(s) + 40
    jobs = [("table", (b, quick, ctx.seed)) for b in bins if b]
    # entries of one element stay together and in file order (neutral atom first, then its ions): the
    # X-ray record of an ion is created lazily and must not depend on the element's having been used
    byz = {}
    for e in ents:
        byz.setdefault(e["Z"], []).append(e)
    for ch in chunks(rotate(sorted(byz), ctx.seed), 6):
        jobs.append(("f0", ([e for z in ch for e in byz[z]], quick, ctx.seed)))
    cl = compound_list(tier)
    for ch in chunks(rotate(cl, ctx.seed), nshard):
        jobs.append(("compound", (ch, quick, ctx.seed)))
    kinds = {}
    for j in jobs:
        kinds.setdefault(j[0], []).append(j)
    mixed = []
    while any(kinds.values()):               # interleave the unit kinds (merge order = sample order)
        for k in ("compound", "f0", "table"):
            if kinds.get(k):
                mixed.append(kinds[k].pop(0))
    ctx.pmap(_dispatch, mixed)
    acc = ctx.acc
    acc.traces = acc.transitions
    acc.info["max_tables"] = len(T)
    acc.info["max_f0_entries_in_file"] = len(ents)
    acc.info["max_compounds_enumerated"] = len(cl)
    for s, t in sorted(T.items()):
        for z in t.zones:
            acc.notes.append("%s.nff: rows out of order, interpolation not judged on [%r, %r] keV" % (s, z[0], z[1]))
        for dup in t.duplicates:
            acc.notes.append("%s.nff: energy %s listed twice (either row accepted at that energy)" % (s, dup[2]))


def _san(x):
    """JSON-safe copy: NaN / inf become strings (evidence and replay files are strict JSON)."""
    if isinstance(x, float):
        return x if x == x and abs(x) != float("inf") else repr(x)
    if isinstance(x, dict):
        return dict((k, _san(v)) for k, v in x.items())
    if isinstance(x, (list, tuple)):
        return [_san(v) for v in x]
    if isinstance(x, np.generic):
        return _san(x.item())
    return x


def _clean(acc):
    for rec in acc.viol.values():
        for k in ("case", "expected", "observed"):
            rec[k] = _san(rec[k])
    acc.samples = [_san(x) for x in acc.samples[:1]]     # one per shard, so that all unit kinds show up
    return acc


def _dispatch(job):
    kind, arg = job
    if kind == "table":
        return _clean(table_shard(arg))
    if kind == "f0":
        return _clean(f0_shard(arg))
    return _clean(compound_shard(arg))


def replay(ctx, case, signature=None):
    unit = case.get("unit")
    quick = True
    acc = Acc()
    if unit == "table":
        acc = table_unit((case["stem"], quick, 0))
        if signature and signature not in acc.viol:
            acc = table_unit((case["stem"], False, 0))
    elif unit == "f0":
        pt, _xsf, _consts, cm = _env()
        for ent in rx.f0_entries():
            if ent["symbol"] == case["entry"]:
                f0_unit(ent, pt, cm, acc)
    elif unit == "compound":
        cmpd = tuple(((a[0], a[1], a[2]), c) for a, c in case["compound"])
        pt, xsf, consts, _cm = _env()
        for q in (True, False):
            tier = dict(_tier(q))
            tier["dens"] = (case["density"],)
            acc = Acc()
            compound_unit(cmpd, pt, xsf, consts, tier, acc, set())
            if not signature or signature in acc.viol:
                break
    else:
        raise MachineryError("unknown replay unit %r" % unit)
    for sig, rec in _clean(acc).viol.items():
        if signature is None or sig == signature:
            ctx.acc.viol[sig] = rec
