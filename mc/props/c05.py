"""C05 - X-ray factors, SLD and refraction follow the tables and documented equations; f0.

Four families of units, each enumerated completely (DESIGN section 4, C05):

 table unit (one per .nff file, 92)   every node, every midpoint, points just inside / just outside /
     far outside the tabulated range and around the first valid f1 node; asked through energy= and
     the equivalent wavelength=, scalar and as one vector, on the element; the same vector on every
     ion of the element and on every isotope / isotope ion (must equal the element's answer);
     element.xray.sld against r_e N f and against the one-atom compound at the element's density.
 f0 unit (one per '#S' entry of f0_WaasKirf.dat, 211)   Q grid x every atom that reaches the entry
     (element or element ion, each isotope or isotope ion, cromermann.fxrayatq by file symbol).
 compound unit   one- and two-atom compounds over the class-representative alphabet x counts x
     densities x energies (fixed grid + the two nodes bracketing every sharp absorption edge of the
     atoms present + out of range), with the property's relations as edges.
 reuse unit   the caller's objects (a Formula carrying its own density, an {atom: count} dictionary, text, energy /
     wavelength / angle arrays) used for two calculations in a row: every call of a small alphabet (function x object
     x density keyword x probe) alone in a fresh process, then every ordered pair on the same objects, optionally
     with an in-place update by the caller in between; after every call the caller's objects must be what they were
     and the result must be right for the density, composition and energies of THAT call.
"""
import math
import numpy as np
from ..common import Acc, load_pt, chunks, rotate, MachineryError
from ..ref import xray as rx
from ..histmc import in_fork

META = dict(
    level="model_checking", engine="E1",
    technique="complete sweep of the 92 scattering-factor tables and 211 form-factor entries plus bounded-exhaustive "
              "exploration of a compound graph (edges = the property's relations) and of all two-call histories on "
              "reused caller-side objects, on the real implementation, against "
              "independent readers and hand-written equations",
    rule=("a case is one (atom, query point, route) of a table, one (entry, atom, Q) of the form-factor file, or one "
          "(compound, density, energy) with its outgoing edges (wavelength route, scalar call, density x k, isotope "
          "substitution, refraction, mirror); cases are distinct by construction (points, atoms and compounds are "
          "enumerated without repetition); non-trivial = the expected value is a finite number (in-range query).  "
          "REUSE: a call = (xray_sld | index_of_refraction | mirror_reflectivity) x (Formula object with its own "
          "density | dictionary | text with '@density') x (own density | density=a | density=b | natural_density=c) x "
          "(scalar energy | the caller's energy array | the caller's wavelength array); every call alone in its own "
          "forked process; every history (first call, optional update by the caller: formula.density = x, a "
          "count in the dictionary, new contents of the energy / wavelength array, or going on with g = 2*formula and "
          "g.density = x (n*f copies f with whatever is attached to it); second call) on fresh objects; "
          "after every call the Formula (structure with atoms by identity, density, name, text), the dictionary and "
          "the energy, wavelength and angle arrays are compared with the caller's model; results are judged by the "
          "same reference equations for the density / composition / energies of that call (mirror: inside [0, 1] and "
          "equal to the question asked with fresh equal objects).  The table, f0 and compound units also compare the "
          "arrays / dictionaries they pass with their contents before the calls"),
    bound=dict(
        quick="all 92 tables: every node + 3 points per segment (0.25, 0.5, 0.75) + range probes, 4 routes, every "
              "ion, every isotope and isotope ion; all 211 f0 entries x 8 Q x every reaching atom; 17-atom alphabet: "
              "all singles x 2 counts, all unordered pairs x 3 count patterns, all triples over a 7-atom sub-alphabet; "
              "x 3 densities x "
              "(5 grid energies + 2 out of range + edge-bracketing nodes of the atoms present); reuse: 6 compounds "
              "(isotope, isotope ion, single atom, fractional count, triple) x 10512 histories (48 first calls x 72 "
              "second calls x the caller updates that concern the second call), 72 calls alone; f0 first-call histories: "
              "every one of the 211 entries x 5 ways of asking as the first form-factor call of a fresh fork (then repeated), "
              "and all ordered pairs of calls over 10 entries x 3 ways",
        thorough="same tables with 5 points per segment (0.01, 0.25, 0.5, 0.75, 0.99); same f0 sweep; compounds: "
                 "singles x 3 counts, pairs x 4 count patterns, all triples over the 17-atom alphabet x 2 count "
                 "patterns; x 5 densities x (24 grid energies + 2 out of range + edge nodes); reuse: the same 10512 "
                 "histories for all singles and pairs over the 7-atom sub-alphabet and the quick compounds (32); f0 first-call "
                 "histories as in quick, pairs over 10 entries x all 5 ways"),
    assumptions=[
        "the .nff and f0_WaasKirf.dat texts are the source of truth (loader errors are detected, not data errors)",
        "physical constants and neutral atom masses / element densities are read from the library (C06)",
        "vectors are numpy arrays (python lists as wavelength= are not in the alphabet)",
        "si.nff lists 1838.80, 1839., 1838.90 eV out of order: interpolation is undefined on [1.8388, 1.86] keV; "
        "points there are not judged against the table (edge relations that do not need the table still are)",
        "a node whose keV value depends on the eV->keV rounding is judged with both one-sided limits accepted; the "
        "same for every query that went through wavelength (h c / (h c / E) != E by an ulp)",
        "'the caller's object is unaltered' is judged on what a caller can read (Formula structure with atoms by identity, "
        "density, name, text; dictionary items; array bytes), not on private attributes the library may attach",
        "a density= / natural_density= keyword given together with a Formula object is the density of that call "
        "('Mass density of the compound, or None for default'); a dictionary is only used with a density keyword, "
        "text with '@density' only without one; text is only used if the parser reads it as the compound meant (C01)",
        "mirror_reflectivity in a history is compared with the same function on fresh equal objects (the statement "
        "only bounds it to [0, 1]); within one history worker earlier histories ran in the same process, so a "
        "violation is named after the last two calls although something older may be the cause (the worker stops at "
        "its first violation); X-ray functions have no table= argument: private tables are C10 / C20",
        "ions without Cromer-Mann entry are outside the statement; ion.xray.sld (number density of a charged atom) "
        "and elements without density are not judged",
    ],
    level_text="complete over the finite tables (every node, midpoint and range end of all 92 tables; all 211 "
               "coefficient sets; every element, ion, isotope and isotope ion as entry point) and bounded-exhaustive "
               "over compounds (pairs, in thorough triples, over a class-representative alphabet) on a grid placed at "
               "the table's own break points; nothing is claimed for real arguments off the grid",
    level_note="trusted: mc/ref/xray.py (independent readers; bisection + straight line; closed forms), numpy only as "
               "array container, periodictable.constants, neutral masses and element densities (C06)",
)

NAN = float("nan")
TOL = 1e-9
PI = math.pi
Q_GRID = (0.0, 1e-6, 1.0, 4 * PI, 24 * PI * (1 - 1e-12), 24 * PI, 24 * PI * (1 + 1e-12), 30 * PI)
ANGLES = (0.01, 0.1, 0.5, 1.0, 5.0, 45.0, 90.0)
ROUGHNESS = (0.0, 3.0)
DENS_K = (0.5, 2.0, 10.0)
ELEMENT_SLD_E = (0.03, 1.0, 8.04, 17.4, 29.0, 0.005, 31.0)

# atom = (element symbol, isotope number or None, charge)
ALPHABET = (("H", None, 0), ("H", 2, 0), ("H", 1, 0), ("H", None, -1), ("H", 1, -1), ("H", 2, -1), ("H", 3, 1),
            ("C", None, 0), ("O", None, 0), ("O", 18, 0), ("Si", None, 0), ("Fe", None, 0), ("Fe", None, 2),
            ("Fe", 56, 0), ("Fe", 56, 2), ("Au", None, 0), ("U", None, 0))
SUB_ALPHABET = (("H", None, 0), ("H", 2, 0), ("O", 18, 0), ("Si", None, 0), ("Fe", 56, 2), ("Au", None, 0),
                ("U", None, 0))


def _tier(quick):
    if quick:
        return dict(counts2=((1, 1), (2, 3), (0.5, 1)), counts1=(1, 2.5), counts3=((2, 1, 0.5),), dens=(0.5, 1.0, 7.87),
                    grid=(0.03, 1.0, 8.04, 17.4, 29.0), fractions=(0.25, 0.5, 0.75), triples=SUB_ALPHABET)
    g = [0.0101 * (30.0 / 0.0101) ** (i / 18.0) * 0.999 for i in range(19)]
    return dict(counts2=((1, 1), (2, 3), (0.5, 1), (7, 0.25)), counts1=(1, 2.5, 0.125), counts3=((2, 1, 0.5), (1, 3, 1)),
                dens=(0.07, 0.5, 1.0, 7.87, 19.3),
                grid=tuple(sorted(set((0.03, 1.0, 8.04, 17.4, 29.0) + tuple(g)))),
                fractions=(0.01, 0.25, 0.5, 0.75, 0.99), triples=ALPHABET)


# ------------------------------------------------------------------------------------- helpers
def _env():
    pt = load_pt()
    from periodictable import xsf, constants, cromermann
    return pt, xsf, constants, cromermann


def _sym(stem):
    return stem[0].upper() + stem[1:]


def atom_obj(pt, spec):
    sym, iso, q = spec
    a = pt.elements.symbol(sym)
    if iso is not None:
        a = a[iso]
    if q:
        a = a.ion[q]
    return a


def atom_code(spec):
    sym, iso, q = spec
    s = "pt.%s" % sym
    if iso is not None:
        s += "[%d]" % iso
    if q:
        s += ".ion[%d]" % q
    return s


def atom_label(spec):
    sym, iso, q = spec
    s = sym + ("[%d]" % iso if iso is not None else "")
    if q:
        s += "{%s%s}" % (abs(q) if abs(q) > 1 else "", "+" if q > 0 else "-")
    return s


def is_alias_isotope(iso_obj):
    """Isotope that carries a symbol of its own (D, T)."""
    try:
        return iso_obj.symbol != iso_obj.element.symbol
    except Exception:
        return False


def spec_is_alias_ion(pt, spec):
    sym, iso, q = spec
    return bool(q) and iso is not None and is_alias_isotope(pt.elements.symbol(sym)[iso])


def ref_mass(pt, consts, spec):
    sym, iso, q = spec
    base = pt.elements.symbol(sym)
    if iso is not None:
        base = base[iso]
    return base.mass - q * consts.electron_mass


def ok1(o, c, s, rel=TOL):
    """observed o agrees with candidate c; s = sum of magnitudes of the terms forming c."""
    if o is None:
        return False
    o = float(o)
    if c != c:
        return o != o
    if o != o:
        return False
    return abs(o - c) <= rel * max(s, abs(c)) + 1e-300


def match(o1, o2, cands, rel=TOL):
    for (c1, c2), (s1, s2) in cands:
        if ok1(o1, c1, s1, rel) and ok1(o2, c2, s2, rel):
            return True
    return False


def exc(e):
    return "%s: %s" % (type(e).__name__, e)


def fl(x):
    try:
        if x is None:
            return None
        if isinstance(x, complex) or (hasattr(x, "dtype") and np.iscomplexobj(x)):
            x = complex(x)
            return [x.real, x.imag]
        return float(x)
    except Exception:
        return repr(x)


def cands_out(cands):
    return [[c[0][0], c[0][1]] for c in cands]


# ------------------------------------------------------------------------------------- table unit
def table_points(t, fractions=(0.5,)):
    """[(kind, E, fuzzy)]: kind in in-range / out-of-range; fuzzy = node position ambiguous."""
    xs, n = t.energy, len(t)
    pts = []
    for k in range(n):
        if not rx.in_zone(t, xs[k]):
            pts.append(("node", xs[k], rx.node_is_fuzzy(t, k)))
    for k in range(n - 1):
        if xs[k + 1] > xs[k]:
            for fr in fractions:
                E = xs[k] + fr * (xs[k + 1] - xs[k])
                if xs[k] < E < xs[k + 1] and not rx.in_zone(t, E):
                    pts.append(("between", E, False))
    pts.append(("below-far", xs[0] * 0.5, False))
    pts.append(("below", xs[0] * (1 - 1e-13), False))
    pts.append(("inside-first", xs[0] * (1 + 1e-13), False))
    pts.append(("inside-last", xs[-1] * (1 - 1e-13), False))
    pts.append(("above", xs[-1] * (1 + 1e-13), False))
    pts.append(("above-far", xs[-1] * 1.1, False))
    for k in range(1, n):
        for col in (t.f1, t.f2):
            if col[k - 1] != col[k - 1] and col[k] == col[k]:
                pts.append(("before-first-valid", xs[k] * (1 - 1e-13), False))
                pts.append(("after-first-valid", xs[k] * (1 + 1e-13), False))
    seen, out = set(), []
    for p in pts:
        if p[1] not in seen:
            seen.add(p[1])
            out.append(p)
    return out


def _klass(cands):
    c = cands[0][0]
    if c[0] != c[0] and c[1] != c[1]:
        return "out-of-range"
    if c[0] != c[0] or c[1] != c[1]:
        return "missing-value"
    return "in-range"


def table_unit(arg):
    stem, quick, seed = arg
    acc = Acc()
    pt, xsf, consts, _cm = _env()
    t = rx.nff_tables()[stem]
    sym = _sym(stem)
    el = pt.elements.symbol(sym)
    tier = _tier(quick)
    pts = rotate(table_points(t, tier["fractions"]), seed)
    E = [p[1] for p in pts]
    strict = [rx.sf_candidates(t, p[1], fuzzy=p[2]) for p in pts]
    fuzzy = [rx.sf_candidates(t, p[1], fuzzy=True) for p in pts]
    if any(c is None for c in strict):
        raise MachineryError("point inside an unjudged zone")
    acc.count("tables")
    acc.count("nodes", len(t))
    if t.zones:
        acc.info["max_unjudged_zones"] = len(t.zones)
        acc.outcome("table-with-rows-out-of-order:" + stem)
    if t.duplicates:
        acc.outcome("table-with-duplicated-energy:" + stem)

    def viol(sig, route, i, observed, expected=None, atom=sym, code=None):
        Ei = E[i] if i is not None else None
        arg_ = "energy=%r" % Ei if "wavelength" not in route else "wavelength=%r" % rx.wavelength_of_energy(Ei, consts) \
            if Ei is not None else ""
        acc.violation(sig, dict(unit="table", stem=stem, atom=atom, route=route, energy_keV=Ei,
                                kind=pts[i][0] if i is not None else None),
                      expected=expected if expected is not None else (cands_out(strict[i]) if i is not None else None),
                      observed=observed,
                      standalone=code or ("import periodictable as pt\nprint(%s.xray.scattering_factors(%s))\n"
                                          % (atom if atom.startswith("pt.") else "pt." + atom, arg_)))

    x = el.xray
    # route 1: energy, scalar
    good = [False] * len(pts)
    scal = [None] * len(pts)
    for i, (kind, Ei, fz) in enumerate(pts):
        acc.states += 1
        acc.evaluations += 1
        acc.transitions += 1
        try:
            f1, f2 = x.scattering_factors(energy=Ei)
        except Exception as e:
            viol("sf-raises", "energy-scalar", i, exc(e))
            continue
        k = _klass(strict[i])
        acc.outcome("sf:" + k)
        if k == "in-range":
            acc.nontrivial += 1
        if f1 is None or not match(f1, f2, strict[i]):
            viol("sf-interpolation:" + k, "energy-scalar", i, [fl(f1), fl(f2)])
            continue
        good[i] = True
        scal[i] = (float(f1), float(f2))
    if not any(good):
        return acc
    acc.sample(dict(unit="table", stem=stem, energy_keV=E[0], kind=pts[0][0], expected=cands_out(strict[0])))
    # route 2: wavelength, scalar (edge energy -> wavelength)
    wl = [rx.wavelength_of_energy(Ei, consts) for Ei in E]
    for i in range(len(pts)):
        if not good[i]:
            continue
        acc.evaluations += 1
        acc.transitions += 1
        try:
            f1, f2 = x.scattering_factors(wavelength=wl[i])
        except Exception as e:
            viol("sf-raises", "wavelength-scalar", i, exc(e))
            continue
        if f1 is None or not match(f1, f2, fuzzy[i]):
            viol("sf-wavelength-differs-from-energy", "wavelength-scalar", i, [fl(f1), fl(f2)], cands_out(fuzzy[i]))
    # routes 3, 4: vectors
    idx = [i for i in range(len(pts)) if good[i]]
    Ev = np.array([E[i] for i in idx])
    Wv = np.array([wl[i] for i in idx])
    arrays_before = (Ev.tobytes(), Wv.tobytes())
    vec_e = None
    for route, kw, cl in (("energy-vector", dict(energy=Ev), strict), ("wavelength-vector", dict(wavelength=Wv), fuzzy)):
        acc.evaluations += 1
        acc.transitions += len(idx)
        try:
            f1, f2 = x.scattering_factors(**kw)
            f1 = np.asarray(f1, dtype=float)
            f2 = np.asarray(f2, dtype=float)
            if f1.shape != (len(idx),) or f2.shape != (len(idx),):
                raise ValueError("shape %r for %d queries" % (f1.shape, len(idx)))
        except Exception as e:
            viol("sf-raises", route, None, exc(e),
                 code="import numpy, periodictable as pt\nprint(pt.%s.xray.scattering_factors(%s=numpy.array(%r)))\n"
                      % (sym, "energy" if kw.get("energy") is not None else "wavelength",
                         list((Ev if "energy" in kw else Wv)[:3])))
            continue
        if route == "energy-vector":
            vec_e = (f1, f2)
        for j, i in enumerate(idx):
            if not match(f1[j], f2[j], cl[i]):
                viol("sf-vector-differs-from-scalar" if route == "energy-vector"
                     else "sf-wavelength-differs-from-energy", route, i, [fl(f1[j]), fl(f2[j])], cands_out(cl[i]))
                break
    sweep_clean = not acc.viol
    # ions, isotopes, isotope ions: same answer as the element (vector route)
    if vec_e is not None:
        others = []
        for q in el.ions:
            others.append((sym, None, q))
        for iso in el:
            others.append((sym, iso.isotope, 0))
            for q in el.ions:
                others.append((sym, iso.isotope, q))
        for spec in others:
            acc.states += 1
            acc.nontrivial += 1
            acc.evaluations += 1
            acc.transitions += 1          # one edge element -> atom (a whole vector is compared)
            code = ("import numpy, periodictable as pt\nE = numpy.array(%r)\nprint(%s.xray.scattering_factors(energy=E))\n"
                    "print(pt.%s.xray.scattering_factors(energy=E))\n" % ([E[i] for i in idx[:2]], atom_code(spec), sym))
            alias = spec_is_alias_ion(pt, spec)
            klass = ("ion" if spec[1] is None else "isotope" if not spec[2] else "isotope-ion")
            try:
                a = atom_obj(pt, spec)
                g1, g2 = a.xray.scattering_factors(energy=Ev)
                if g1 is None:
                    raise LookupError("scattering_factors returned (None, None)")
                g1 = np.asarray(g1, dtype=float)
                g2 = np.asarray(g2, dtype=float)
                same = (g1.shape == vec_e[0].shape and
                        np.allclose(g1, vec_e[0], rtol=1e-12, atol=0, equal_nan=True) and
                        np.allclose(g2, vec_e[1], rtol=1e-12, atol=0, equal_nan=True))
                obs = None if same else "differs from the element's factors, e.g. %r" % ([fl(g1[0]), fl(g2[0])],)
            except Exception as e:
                same, obs = False, exc(e)
            acc.outcome("sf-delegation:" + klass)
            if not same:
                sig = "sld-of-D/T-ion-uses-alias-symbol" if alias else "sf-of-%s-differs-from-element" % klass
                acc.violation(sig, dict(unit="table", stem=stem, atom=atom_code(spec), route="energy-vector"),
                              expected="the factors of %s: %r" % (sym, [fl(vec_e[0][0]), fl(vec_e[1][0])]),
                              observed=obs, standalone=code)
    if (Ev.tobytes(), Wv.tobytes()) != arrays_before:
        which = "energy" if Ev.tobytes() != arrays_before[0] else "wavelength"
        acc.violation("argument-altered:scattering_factors:%s-array" % which,
                      dict(unit="table", stem=stem, atom=sym, route="%s-vector" % which),
                      expected="the caller's array as it was", observed="the array passed as %s= was changed" % which,
                      standalone="import numpy, periodictable as pt\nx = numpy.array(%r)\ny = x.copy()\n"
                                 "pt.%s.xray.scattering_factors(%s=x)\nprint((x == y).all(), x, y)\n"
                                 % (list((Ev if which == "energy" else Wv)[:3]), sym, which))
        return acc
    if sweep_clean:
        element_sld(pt, xsf, consts, t, el, sym, acc)
    return acc


def element_sld(pt, xsf, consts, t, el, sym, acc):
    """element.xray.sld = r_e N (f1 + i f2) with N = rho_m / m N_A; equals the one-atom compound at the
    element's density; isotopes likewise at the isotope's density."""
    if el.density is None:
        acc.outcome("element-sld:no-density-not-judged")
        return
    Es = [e for e in ELEMENT_SLD_E if not rx.in_zone(t, e)]
    cand = [rx.sf_candidates(t, e) for e in Es]
    Ev = np.array(Es)
    atoms = [(sym, None, 0)] + [(sym, iso.isotope, 0) for iso in el]
    for spec in atoms:
        a = atom_obj(pt, spec)
        dens, mass = a.density, a.mass
        code = ("import numpy, periodictable as pt\nE = numpy.array(%r)\nprint(%s.xray.sld(energy=E))\n"
                "print(pt.xray_sld({%s: 1}, density=%s.density, energy=E))\n"
                % (Es, atom_code(spec), atom_code(spec), atom_code(spec)))
        case = dict(unit="table", stem=t.stem, atom=atom_code(spec), route="element-sld")
        acc.states += len(Es)
        acc.evaluations += 3 + len(Es)
        acc.transitions += 3 * len(Es)
        try:
            r, ir = a.xray.sld(energy=Ev)
            rw, irw = a.xray.sld(wavelength=np.array([rx.wavelength_of_energy(e, consts) for e in Es]))
            cr, cir = xsf.xray_sld({a: 1}, density=dens, energy=Ev)
            sc = [a.xray.sld(energy=e) for e in Es]
        except Exception as e:
            acc.violation("element-sld-raises", case, "values", exc(e), standalone=code)
            continue
        for j, e in enumerate(Es):
            (f1, f2), (m1, m2) = cand[j][0]
            rr, ri, s1, s2 = rx.sld_reference([(1.0, f1, f2, m1, m2)], mass, dens, consts)
            if f1 == f1:
                acc.nontrivial += 1
            if not (ok1(r[j], rr, s1) and ok1(ir[j], ri, s2)):
                acc.violation("element-sld-equation", dict(case, energy_keV=e), [rr, ri], [fl(r[j]), fl(ir[j])],
                              standalone=code)
                break
            if not (ok1(rw[j], rr, s1) and ok1(irw[j], ri, s2)):
                acc.violation("element-sld-wavelength-differs-from-energy", dict(case, energy_keV=e), [rr, ri],
                              [fl(rw[j]), fl(irw[j])], standalone=code)
                break
            if not (ok1(cr[j], fl(r[j]), s1, 1e-10) and ok1(cir[j], fl(ir[j]), s2, 1e-10)):
                acc.violation("element-sld-differs-from-one-atom-compound", dict(case, energy_keV=e),
                              [fl(r[j]), fl(ir[j])], [fl(cr[j]), fl(cir[j])], standalone=code)
                break
            if not (ok1(sc[j][0], fl(r[j]), s1, 1e-12) and ok1(sc[j][1], fl(ir[j]), s2, 1e-12)):
                acc.violation("element-sld-vector-differs-from-scalar", dict(case, energy_keV=e),
                              [fl(r[j]), fl(ir[j])], [fl(sc[j][0]), fl(sc[j][1])], standalone=code)
                break
    acc.outcome("element-sld:judged")


def table_shard(arg):
    stems, quick, seed = arg
    acc = Acc()
    for s in stems:
        acc.merge(table_unit((s, quick, seed)))
    return acc


# ------------------------------------------------------------------------------------- f0 unit
def f0_terms_scale(a, c, b, Q):
    s = Q / (4 * PI)
    return abs(c) + sum(abs(ai) * math.exp(-bi * s * s) for ai, bi in zip(a, b))


def f0_unit(ent, pt, cm, acc):
    sym, Z, a, c, b = ent["symbol"], ent["Z"], ent["a"], ent["c"], ent["b"]
    parts = rx.f0_symbol_parts(sym)
    ref = [rx.f0_reference(a, c, b, Q) for Q in Q_GRID]
    scale = [f0_terms_scale(a, c, b, Q) for Q in Q_GRID]
    Qv = np.array(Q_GRID)
    Qv_before = Qv.tobytes()
    acc.count("f0_entries")

    def check(getter, code, who, klass, alias=False):
        """getter(Q) -> value; scalar at every Q and one vector call."""
        case = dict(unit="f0", entry=sym, atom=who)
        vals = []
        for i, Q in enumerate(Q_GRID):
            acc.states += 1
            acc.evaluations += 1
            acc.transitions += 1
            if ref[i] == ref[i]:
                acc.nontrivial += 1
            try:
                v = getter(Q)
                v = float(v)
            except Exception as e:
                if alias:
                    sig = "f0-of-D/T-ion-uses-alias-symbol"
                elif klass != "base":
                    sig = "f0-of-%s-raises" % klass
                else:
                    sig = "f0-raises"
                acc.violation(sig, dict(case, Q=Q), ref[i], exc(e), standalone=code % ("%r" % Q))
                return False
            vals.append(v)
            if not ok1(v, ref[i], scale[i]):
                if ref[i] != ref[i]:
                    sig = "f0-not-nan-beyond-fitted-range"
                elif v != v:
                    sig = "f0-nan-inside-fitted-range"
                elif klass != "base":
                    sig = "f0-of-%s-differs-from-entry" % klass
                else:
                    sig = "f0-value-differs-from-coefficients"
                acc.violation(sig, dict(case, Q=Q), ref[i], v, standalone=code % ("%r" % Q))
                return False
        acc.evaluations += 1
        acc.transitions += len(Q_GRID)
        try:
            vv = np.asarray(getter(Qv), dtype=float)
            if vv.shape != Qv.shape:
                raise ValueError("shape %r for %d Q values" % (vv.shape, len(Q_GRID)))
        except Exception as e:
            acc.violation("f0-vector-raises", case, vals, exc(e), standalone=code % ("numpy.array(%r)" % (list(Q_GRID),)))
            return False
        if Qv.tobytes() != Qv_before:
            acc.violation("argument-altered:f0:Q-array", case, list(Q_GRID), Qv.tolist(),
                          standalone=code % ("numpy.array(%r)" % (list(Q_GRID),)))
            Qv[:] = Q_GRID
            return False
        for i in range(len(Q_GRID)):
            if not ok1(vv[i], vals[i], scale[i], 1e-12):
                acc.violation("f0-vector-differs-from-scalar", dict(case, Q=Q_GRID[i]), vals[i], fl(vv[i]),
                              standalone=code % ("numpy.array(%r)" % (list(Q_GRID),)))
                return False
        return True

    head = "import numpy, periodictable as pt\nfrom periodictable import cromermann\n"
    ok = check(lambda Q: cm.fxrayatq(sym, Q), head + "print(cromermann.fxrayatq(%r, %%s))\n" % sym, "fxrayatq(%r)" % sym,
               "base")
    acc.outcome("f0:direct")
    if not ok:
        return            # the coefficient set itself is served wrongly: atoms reaching it add nothing
    if parts is None:
        acc.outcome("f0:valence-entry-no-atom")
        return
    esym, q = parts
    el = pt.elements.symbol(esym)
    if el.number != Z:
        acc.violation("f0-entry-atomic-number", dict(unit="f0", entry=sym), Z, el.number,
                      standalone="import periodictable as pt\nprint(pt.%s.number)\n" % esym)
        return
    if abs(q) == 1:
        short = esym + ("+" if q > 0 else "-")
        check(lambda Q: cm.fxrayatq(short, Q), head + "print(cromermann.fxrayatq(%r, %%s))\n" % short,
              "fxrayatq(%r)" % short, "base")
    if q and q not in el.ions:
        acc.outcome("f0:ion-not-reachable-from-table")
        return
    el.xray               # canonical history: the element's record exists before its ions are asked
    # electron count rule (file Z and charge): f0 -> Z - q for Q -> 0
    base_spec = (esym, None, q)
    specs = [(base_spec, "base")] + [((esym, iso.isotope, q), "isotope-ion" if q else "isotope") for iso in el]
    for spec, klass in specs:
        alias = spec_is_alias_ion(pt, spec)
        code = head + "print(%s.xray.f0(%%s))\n" % atom_code(spec)

        def getter(Q, spec=spec):
            return atom_obj(pt, spec).xray.f0(Q)
        good = check(getter, code, atom_code(spec), klass, alias)
        acc.outcome("f0:" + ("ion" if (q and klass == "base") else "element" if klass == "base" else klass))
        if klass == "base" and not good:
            return        # the element / element ion is wrong: its isotopes would only repeat it
        if klass == "base" and good:
            for Q in (0.0, 1e-6):
                acc.transitions += 1
                v = float(getter(Q))
                want = Z - q
                if not abs(v - want) <= 0.002 * want:
                    acc.violation("f0-electron-count", dict(unit="f0", entry=sym, atom=atom_code(spec), Q=Q),
                                  "within 0.2 %% of Z - charge = %d" % want, v, standalone=code % ("%r" % Q))
                    break
    acc.sample(dict(unit="f0", entry=sym, Z=Z, charge=q, f0_at_0=ref[0], atoms=len(specs)))


def f0_shard(arg):
    ents, quick, seed = arg
    acc = Acc()
    pt, _xsf, _consts, cm = _env()
    for ent in ents:
        f0_unit(ent, pt, cm, acc)
    return acc


# ------------------------------------------------------------------------------------- f0 first-call histories
# The analytic form factors come from a table the library reads on first use: which entry a process asks FIRST, and by
# which call, must not matter.  Every history below runs in its own fork of a process that has asked for no form factor.
F0H_WAYS = ("fxrayatq(label)", "fxrayatq(symbol,charge)", "fxrayatstol(label)", "atom.xray.f0", "isotope-ion.xray.f0")
F0H_PAIR_ENTRIES = ("Fe", "Fe2+", "Fe3+", "O", "O1-", "Cl1-", "Na1+", "Ca2+", "H", "H1-")


def f0h_call(pt, cm, ent, way):
    """-> (callable Q -> value, python text with %s for Q) or None when the way does not apply to the entry."""
    sym = ent["symbol"]
    parts = rx.f0_symbol_parts(sym)
    if way == "fxrayatq(label)":
        return (lambda Q: cm.fxrayatq(sym, Q)), "cromermann.fxrayatq(%r, %%s)" % sym
    if way == "fxrayatstol(label)":
        return (lambda Q: cm.fxrayatstol(sym, Q / (4 * PI))), "cromermann.fxrayatstol(%r, %%s/(4*math.pi))" % sym
    if parts is None:
        return None
    esym, q = parts
    if way == "fxrayatq(symbol,charge)":
        return (lambda Q: cm.fxrayatq(esym, Q, charge=q)), "cromermann.fxrayatq(%r, %%s, charge=%d)" % (esym, q)
    el = pt.elements.symbol(esym)
    if q and q not in el.ions:
        return None
    if way == "atom.xray.f0":
        spec = (esym, None, q)
    else:
        isos = el.isotopes
        if not isos:
            return None
        spec = (esym, isos[len(isos) // 2], q)
    return (lambda Q: atom_obj(pt, spec).xray.f0(Q)), "%s.xray.f0(%%s)" % atom_code(spec)


def f0h_history(hist):
    """hist = [(entry symbol, way), ...]; runs in the calling (forked, fresh) process.  After every call of the
    history the call just made - and at the end every call again - is compared with the closed form of its entry."""
    acc = Acc()
    pt, _xsf, _consts, cm = _env()
    ents = dict((e["symbol"], e) for e in rx.f0_entries())
    head = "import math, periodictable as pt\nfrom periodictable import cromermann\n"
    calls, lines = [], []
    for sym, way in hist:
        c = f0h_call(pt, cm, ents[sym], way)
        if c is None:
            acc.count("f0_history_way_not_applicable")
            return acc
        calls.append((ents[sym], c))
    QS = (0.0, 1.0, 4 * PI)
    def judge(k, tag):
        ent, (fn, text) = calls[k]
        for Q in QS:
            acc.states += 1; acc.evaluations += 1; acc.transitions += 1; acc.nontrivial += 1
            ref = rx.f0_reference(ent["a"], ent["c"], ent["b"], Q)
            scale = f0_terms_scale(ent["a"], ent["c"], ent["b"], Q)
            code = head + "".join(lines) + "print(%s)   # entry %r of f0_WaasKirf.dat\n" % (text % repr(Q), ent["symbol"])
            case = dict(unit="f0-history", history=[list(h) for h in hist], judged=k, when=tag, Q=Q)
            try:
                v = float(fn(Q))
            except Exception as e:
                acc.violation("f0-history:%s-raises" % tag, case, ref, exc(e), standalone=code)
                return False
            if not ok1(v, ref, scale):
                acc.violation("f0-history:%s-differs-from-entry" % tag, case, ref, v, standalone=code)
                return False
        lines.append(calls[k][1][1] % repr(QS[0]) + "\n")
        return True
    for k in range(len(calls)):
        if not judge(k, "first-call" if k == 0 else "call-after-another-entry"):
            return acc
    for k in range(len(calls)):
        if not judge(k, "call-repeated"):
            return acc
    acc.outcome("f0-history:depth-%d" % len(hist))
    return acc


def f0h_plan(quick):
    ents = rx.f0_entries()
    singles = [((e["symbol"], w),) for e in ents for w in F0H_WAYS]
    alpha = [(sym, w) for sym in F0H_PAIR_ENTRIES for w in (F0H_WAYS if not quick else F0H_WAYS[:2] + F0H_WAYS[3:4])]
    pairs = [(a, b) for a in alpha for b in alpha if a != b]
    return singles, pairs


def f0h_shard(arg):
    hists, quick = arg
    acc = Acc()
    for h in hists:
        acc.merge(in_fork(lambda h=h: _clean(f0h_history(h))))
    acc.count("f0_histories", len(hists))
    return acc


# ------------------------------------------------------------------------------------- compound unit
def compound_list(tier):
    out = []
    for a in ALPHABET:
        for c in tier["counts1"]:
            out.append(((a, c),))
    n = len(ALPHABET)
    for i in range(n):
        for j in range(i + 1, n):
            for ci, cj in tier["counts2"]:
                out.append(((ALPHABET[i], ci), (ALPHABET[j], cj)))
    A3 = tier["triples"]
    m = len(A3)
    for i in range(m):
        for j in range(i + 1, m):
            for k in range(j + 1, m):
                for ci, cj, ck in tier["counts3"]:
                    out.append(((A3[i], ci), (A3[j], cj), (A3[k], ck)))
    return out


def cmpd_code(cmpd):
    tot = {}
    for a, c in cmpd:
        tot[a] = tot.get(a, 0) + c
    return "{%s}" % ", ".join("%s: %r" % (atom_code(a), tot[a]) for a in tot)


def cmpd_label(cmpd):
    return "".join("%s%s" % (atom_label(a), ("%g" % c) if c != 1 else "") for a, c in cmpd)


def cmpd_dict(pt, cmpd):
    out = {}
    for a, c in cmpd:
        o = atom_obj(pt, a)
        out[o] = out.get(o, 0) + c
    return out


def cmpd_energies(cmpd, tier):
    T = rx.nff_tables()
    Es = set(tier["grid"]) | set((0.005, 31.0))
    for (sym, _iso, _q), _c in cmpd:
        t = T[sym.lower()]
        for i, j in rx.edge_pairs(t):
            Es.add(t.energy[i])
            Es.add(t.energy[j])
    return sorted(Es)


def cmpd_reference(pt, consts, cmpd, density, E, fuzzy=False):
    """list of (rho, irho, s1, s2) candidates, or None if not judged at this energy."""
    T = rx.nff_tables()
    per = []
    for (sym, _iso, _q), c in cmpd:
        cl = rx.sf_candidates(T[sym.lower()], E, fuzzy=fuzzy)
        if cl is None:
            return None
        uniq = []
        for cand in cl:
            if not any(repr(cand[0]) == repr(u[0]) for u in uniq):
                uniq.append(cand)
        per.append([(c, u[0][0], u[0][1], u[1][0], u[1][1]) for u in uniq])
    mass = sum(c * ref_mass(pt, consts, a) for a, c in cmpd)
    combos = [[]]
    for alts in per:
        combos = [co + [alt] for co in combos for alt in alts]
        if len(combos) > 64:
            raise MachineryError("too many candidate combinations")
    return [rx.sld_reference(co, mass, density, consts) for co in combos]


def natural_spec(cmpd):
    return tuple(((a[0], None, a[2]), c) for a, c in cmpd)


def compound_unit(cmpd, pt, xsf, consts, tier, acc, broken):
    label = cmpd_label(cmpd)
    code_c = cmpd_code(cmpd)
    head = "import numpy, periodictable as pt\nfrom periodictable import xsf\n"
    Es = cmpd_energies(cmpd, tier)
    Ev = np.array(Es)
    Wl = [rx.wavelength_of_energy(e, consts) for e in Es]
    Wv = np.array(Wl)
    has_iso = any(a[1] is not None for a, _ in cmpd)
    iso_ion = any(a[1] is not None and a[2] for a, _ in cmpd)
    if any(a in broken for a, _ in cmpd) and len(cmpd) > 1:
        acc.count("compounds_skipped_containing_failing_atom")
        return
    try:
        cd = cmpd_dict(pt, cmpd)
    except Exception as e:
        raise MachineryError("cannot build %s: %s" % (label, exc(e)))
    acc.count("compounds")
    owned = lambda: (tuple((id(k), v) for k, v in cd.items()), Ev.tobytes(), Wv.tobytes())
    owned_before = owned()

    def intact(case):
        """The dictionary and the arrays handed to the library in all calls so far are what they were."""
        now = owned()
        if now == owned_before:
            return True
        what = "dict" if now[0] != owned_before[0] else "energy-array" if now[1] != owned_before[1] else "wavelength-array"
        acc.violation("argument-altered:compound-calls:%s" % what, case, "the caller's objects as they were",
                      "changed: %s" % what,
                      standalone=head + "E = numpy.array(%r)\nc = %s\nxsf.xray_sld(c, density=1.0, energy=E)\n"
                                        "xsf.mirror_reflectivity(c, density=1.0, energy=E, angle=numpy.array([0.1, 1.0]))\n"
                                        "print(c, E)\n" % (Es, code_c))
        return False
    for d in tier["dens"]:
        case = dict(unit="compound", compound=[[list(a), c] for a, c in cmpd], label=label, density=d)
        if not intact(case):
            return

        def V(sig, expected, observed, call, **extra):
            acc.violation(sig, dict(case, **extra), expected, observed,
                          standalone=head + "E = numpy.array(%r)\nprint(%s)\n" % (Es, call))
        call_e = "xsf.xray_sld(%s, density=%r, energy=E)" % (code_c, d)
        acc.evaluations += 1
        try:
            r, ir = xsf.xray_sld(cd, density=d, energy=Ev)
            r = np.asarray(r, dtype=float)
            ir = np.asarray(ir, dtype=float)
            if r.shape != Ev.shape or ir.shape != Ev.shape:
                raise ValueError("shape %r for %d energies" % (r.shape, len(Es)))
        except Exception as e:
            if len(cmpd) == 1 and spec_is_alias_ion(pt, cmpd[0][0]):
                sig = "sld-of-D/T-ion-uses-alias-symbol"
            else:
                sig = "sld-raises"
            V(sig, "scattering length densities", exc(e), call_e)
            if len(cmpd) == 1:
                broken.add(cmpd[0][0])
            return
        refs = [cmpd_reference(pt, consts, cmpd, d, e) for e in Es]
        bad = False
        for j, e in enumerate(Es):
            acc.states += 1
            acc.transitions += 1
            if refs[j] is None:
                acc.count("compound_points_in_unjudged_zone")
                continue
            if refs[j][0][0] == refs[j][0][0]:
                acc.nontrivial += 1
                acc.outcome("sld:finite")
            else:
                acc.outcome("sld:nan-out-of-range")
            if not any(ok1(r[j], c[0], c[2]) and ok1(ir[j], c[1], c[3]) for c in refs[j]):
                V("sld-equation", [[c[0], c[1]] for c in refs[j]], [fl(r[j]), fl(ir[j])], call_e, energy_keV=e)
                bad = True
                break
        if bad:
            return
        scale = []
        for j in range(len(Es)):
            if refs[j] is not None:
                scale.append((refs[j][0][2], refs[j][0][3]))
            else:
                scale.append((abs(float(r[j])), abs(float(ir[j]))))
        # edge: scalar call
        for j, e in enumerate(Es):
            acc.evaluations += 1
            acc.transitions += 1
            try:
                sr, sir = xsf.xray_sld(cd, density=d, energy=e)
            except Exception as ex:
                V("sld-raises", [fl(r[j]), fl(ir[j])], exc(ex), "xsf.xray_sld(%s, density=%r, energy=%r)" % (code_c, d, e))
                bad = True
                break
            if np.size(sr) != 1 or np.size(sir) != 1 or not (
                    ok1(np.asarray(sr, dtype=float).reshape(-1)[0], float(r[j]), scale[j][0], 1e-12) and
                    ok1(np.asarray(sir, dtype=float).reshape(-1)[0], float(ir[j]), scale[j][1], 1e-12)):
                V("sld-vector-differs-from-scalar", [fl(r[j]), fl(ir[j])], [repr(sr), repr(sir)],
                  "xsf.xray_sld(%s, density=%r, energy=%r), %s" % (code_c, d, e, call_e), energy_keV=e)
                bad = True
                break
        if bad:
            return
        # edge: wavelength route (vector, then scalar against it)
        acc.evaluations += 1
        call_w = "xsf.xray_sld(%s, density=%r, wavelength=xsf.xray_wavelength(E))" % (code_c, d)
        try:
            rw, irw = xsf.xray_sld(cd, density=d, wavelength=Wv)
            rw = np.asarray(rw, dtype=float)
            irw = np.asarray(irw, dtype=float)
        except Exception as ex:
            V("sld-raises", "values", exc(ex), call_w)
            return
        for j, e in enumerate(Es):
            acc.transitions += 1
            if ok1(rw[j], float(r[j]), scale[j][0]) and ok1(irw[j], float(ir[j]), scale[j][1]):
                continue
            fz = cmpd_reference(pt, consts, cmpd, d, e, fuzzy=True)
            if fz is None:
                continue
            if not any(ok1(rw[j], c[0], c[2]) and ok1(irw[j], c[1], c[3]) for c in fz):
                V("sld-wavelength-differs-from-energy", [fl(r[j]), fl(ir[j])], [fl(rw[j]), fl(irw[j])],
                  call_w + ", " + call_e, energy_keV=e)
                bad = True
                break
        if bad:
            return
        for j in range(0, len(Es), max(1, len(Es) // 6)):
            acc.evaluations += 1
            acc.transitions += 1
            try:
                sr, sir = xsf.xray_sld(cd, density=d, wavelength=Wl[j])
            except Exception as ex:
                V("sld-raises", "values", exc(ex), "xsf.xray_sld(%s, density=%r, wavelength=%r)" % (code_c, d, Wl[j]))
                break
            if not (ok1(sr, float(rw[j]), scale[j][0], 1e-12) and ok1(sir, float(irw[j]), scale[j][1], 1e-12)):
                V("sld-vector-differs-from-scalar", [fl(rw[j]), fl(irw[j])], [fl(sr), fl(sir)],
                  "xsf.xray_sld(%s, density=%r, wavelength=%r)" % (code_c, d, Wl[j]), energy_keV=Es[j])
                break
        # edge: density x k
        for k in DENS_K:
            acc.evaluations += 1
            acc.transitions += len(Es)
            try:
                rk, irk = xsf.xray_sld(cd, density=k * d, energy=Ev)
            except Exception as ex:
                V("sld-raises", "values", exc(ex), "xsf.xray_sld(%s, density=%r, energy=E)" % (code_c, k * d))
                break
            j = _first_bad(rk, irk, k * r, k * ir, [(k * s[0], k * s[1]) for s in scale], 1e-12)
            if j is not None:
                V("sld-not-linear-in-density", [fl(k * r[j]), fl(k * ir[j])], [fl(rk[j]), fl(irk[j])],
                  "xsf.xray_sld(%s, density=%r, energy=E), %s" % (code_c, k * d, call_e), energy_keV=Es[j], k=k)
                break
        # refraction
        refraction(xsf, consts, cd, code_c, d, Es, Ev, Wl, Wv, r, ir, scale, acc, V)
        # mirror
        mirror(xsf, cd, code_c, d, Es, Ev, Wv, r, acc, V)
        # edge: isotope substitution at equal natural density
        if has_iso:
            nat = natural_spec(cmpd)
            try:
                nd = cmpd_dict(pt, nat)
            except Exception as e:
                raise MachineryError("cannot build %s: %s" % (cmpd_label(nat), exc(e)))
            m_iso = sum(c * ref_mass(pt, consts, a) for a, c in cmpd)
            m_nat = sum(c * ref_mass(pt, consts, a) for a, c in nat)
            ncode = cmpd_code(nat)
            acc.evaluations += 4
            acc.transitions += 2 * len(Es)
            try:
                r_n, ir_n = xsf.xray_sld(nd, density=d, energy=Ev)
                r_i, ir_i = xsf.xray_sld(cd, density=d * m_iso / m_nat, energy=Ev)
            except Exception as ex:
                V("sld-raises", "values", exc(ex), "xsf.xray_sld(%s, density=%r, energy=E)" % (ncode, d))
                continue
            j = _first_bad(r_i, ir_i, r_n, ir_n, scale, 1e-10)
            if j is not None:
                V("sld-depends-on-isotopes-at-equal-natural-density", [fl(r_n[j]), fl(ir_n[j])], [fl(r_i[j]), fl(ir_i[j])],
                  "xsf.xray_sld(%s, density=%r, energy=E), xsf.xray_sld(%s, density=%r*%r/%r, energy=E)"
                  % (ncode, d, code_c, d, m_iso, m_nat), energy_keV=Es[j])
                continue
            try:
                r_nk, ir_nk = xsf.xray_sld(nd, natural_density=d, energy=Ev)
                r_ik, ir_ik = xsf.xray_sld(cd, natural_density=d, energy=Ev)
            except Exception as ex:
                V("sld-raises", "values", exc(ex), "xsf.xray_sld(%s, natural_density=%r, energy=E)" % (code_c, d))
                continue
            j = _first_bad(r_ik, ir_ik, r_nk, ir_nk, scale, 1e-10)
            if j is not None:
                V("sld-natural_density-keyword-depends-on-isotopes:" + ("isotope-ion" if iso_ion else "isotope"),
                  [fl(r_nk[j]), fl(ir_nk[j])], [fl(r_ik[j]), fl(ir_ik[j])],
                  "xsf.xray_sld(%s, natural_density=%r, energy=E), xsf.xray_sld(%s, natural_density=%r, energy=E)"
                  % (ncode, d, code_c, d), energy_keV=Es[j])
    if not intact(dict(unit="compound", compound=[[list(a), c] for a, c in cmpd], label=label, density=tier["dens"][-1])):
        return
    acc.sample(dict(unit="compound", label=label, densities=list(tier["dens"]), energies=len(Es)))


def _first_bad(a1, a2, b1, b2, scale, rel):
    a1 = np.asarray(a1, dtype=float); a2 = np.asarray(a2, dtype=float)
    for j in range(len(scale)):
        if not (ok1(a1[j], float(b1[j]), scale[j][0], rel) and ok1(a2[j], float(b2[j]), scale[j][1], rel)):
            return j
    return None


def refraction(xsf, consts, cd, code_c, d, Es, Ev, Wl, Wv, r, ir, scale, acc, V):
    """n = 1 - lambda^2/(2 pi) (rho + i irho) 1e-6 with the compound's own (already checked) SLD."""
    EPS1 = 8 * 2.220446049250313e-16
    for route, kw, call in (("energy", dict(energy=Ev), "xsf.index_of_refraction(%s, density=%r, energy=E)" % (code_c, d)),
                            ("wavelength", dict(wavelength=Wv),
                             "xsf.index_of_refraction(%s, density=%r, wavelength=xsf.xray_wavelength(E))" % (code_c, d))):
        acc.evaluations += 1
        acc.transitions += len(Es)
        try:
            n = np.asarray(xsf.index_of_refraction(cd, density=d, **kw))
            if n.shape != Ev.shape:
                raise ValueError("shape %r for %d energies" % (n.shape, len(Es)))
        except Exception as ex:
            V("index-of-refraction-raises", "values", exc(ex), call)
            return
        for j in range(len(Es)):
            want, dl, be = rx.index_reference(Wl[j], float(r[j]), float(ir[j]))
            k = Wl[j] * Wl[j] / (2 * PI) * 1e-6
            got = complex(n[j])
            if want.real != want.real:
                good = got.real != got.real
            else:
                good = (abs(got.real - want.real) <= TOL * max(dl, k * scale[j][0]) + EPS1 and
                        abs(got.imag - want.imag) <= TOL * max(be, k * scale[j][1]) + 1e-300)
            if not good:
                V("index-of-refraction-equation", fl(want), fl(got), call, energy_keV=Es[j], route=route)
                return
    for j in range(0, len(Es), max(1, len(Es) // 4)):
        acc.evaluations += 1
        acc.transitions += 1
        try:
            s = xsf.index_of_refraction(cd, density=d, energy=Es[j])
            want = complex(np.asarray(xsf.index_of_refraction(cd, density=d, energy=Ev))[j])
            s = complex(s)
        except Exception as ex:
            V("index-of-refraction-raises", "a scalar", exc(ex),
              "xsf.index_of_refraction(%s, density=%r, energy=%r)" % (code_c, d, Es[j]))
            return
        same = (s == want) or (s.real != s.real and want.real != want.real) or \
            (abs(s.real - want.real) <= EPS1 and abs(s.imag - want.imag) <= 1e-12 * abs(want.imag))
        if not same:
            V("index-of-refraction-vector-differs-from-scalar", fl(want), fl(s),
              "xsf.index_of_refraction(%s, density=%r, energy=%r)" % (code_c, d, Es[j]), energy_keV=Es[j])
            return


def mirror(xsf, cd, code_c, d, Es, Ev, Wv, r, acc, V):
    """0 <= reflectivity <= 1 wherever the SLD is a number."""
    fin = [j for j in range(len(Es)) if r[j] == r[j]]
    if not fin:
        return
    E_in = np.array([Es[j] for j in fin])
    ang = np.array(ANGLES)
    for rough in ROUGHNESS:
        for route, kw in (("energy", dict(energy=E_in)), ("wavelength", dict(wavelength=np.array([Wv[j] for j in fin])))):
            call = ("xsf.mirror_reflectivity(%s, density=%r, %s=%s, angle=numpy.array(%r), roughness=%r)"
                    % (code_c, d, route, "E" if route == "energy" else "xsf.xray_wavelength(E)", list(ANGLES), rough))
            acc.evaluations += 1
            acc.transitions += len(fin) * len(ANGLES)
            try:
                R = np.asarray(xsf.mirror_reflectivity(cd, density=d, angle=ang, roughness=rough, **kw), dtype=float)
                if R.shape != (len(ANGLES), len(fin)):
                    raise ValueError("shape %r for %d angles x %d energies" % (R.shape, len(ANGLES), len(fin)))
            except Exception as ex:
                V("mirror-reflectivity-raises", "matrix (angle, energy)", exc(ex), call)
                return
            okm = (R >= 0) & (R <= 1 + 1e-12)
            if not okm.all():
                ia, ie = [int(v[0]) for v in np.nonzero(~okm)]
                V("mirror-reflectivity-outside-[0,1]", "0 <= R <= 1", fl(R[ia, ie]), call,
                  energy_keV=float(E_in[ie]), angle=ANGLES[ia], roughness=rough)
                return
            acc.outcome("mirror:in-[0,1]")
    # scalar energy, scalar angle
    acc.evaluations += 1
    acc.transitions += 1
    try:
        R = np.asarray(xsf.mirror_reflectivity(cd, density=d, energy=float(E_in[len(fin) // 2]), angle=0.5), dtype=float)
        if not ((R >= 0) & (R <= 1 + 1e-12)).all() or R.size != 1:
            V("mirror-reflectivity-outside-[0,1]", "0 <= R <= 1", repr(R),
              "xsf.mirror_reflectivity(%s, density=%r, energy=%r, angle=0.5)" % (code_c, d, float(E_in[len(fin) // 2])))
    except Exception as ex:
        V("mirror-reflectivity-raises", "a reflectivity", exc(ex),
          "xsf.mirror_reflectivity(%s, density=%r, energy=%r, angle=0.5)" % (code_c, d, float(E_in[len(fin) // 2])))


def compound_shard(arg):
    cmpds, quick, seed = arg
    acc = Acc()
    pt, xsf, consts, _cm = _env()
    tier = _tier(quick)
    broken = set()
    # which single atoms fail on their own (so that compounds containing them are not explored)
    for a in sorted(set(a for c in cmpds for a, _ in c if len(c) > 1), key=repr):
        try:
            xsf.xray_sld({atom_obj(pt, a): 1}, density=1.0, energy=8.04)
        except Exception:
            broken.add(a)
    # elements whose scattering factors are wrong at the energies used here are reported by the table
    # units; compounds containing them are not explored (successors of a broken state add only noise)
    T = rx.nff_tables()
    wrong = set()
    for sym in sorted(set(a[0] for c in cmpds for a, _ in c)):
        Es = sorted(set(e for c in cmpds if any(a[0] == sym for a, _ in c) for e in cmpd_energies(c, tier)))
        t = T[sym.lower()]
        try:
            f1, f2 = pt.elements.symbol(sym).xray.scattering_factors(energy=np.array(Es))
            for j, e in enumerate(Es):
                cl = rx.sf_candidates(t, e)
                if cl is not None and not match(f1[j], f2[j], cl):
                    wrong.add(sym)
                    break
        except Exception:
            wrong.add(sym)
    for c in cmpds:
        if any(a[0] in wrong for a, _ in c):
            acc.count("compounds_skipped_constituent_factors_wrong")
            continue
        compound_unit(c, pt, xsf, consts, tier, acc, broken)
    return acc


# ------------------------------------------------------------------------------------- reuse unit
# The caller's objects are used for several calculations.
#   A call    = (function, target object, density keyword, probe).
#   A history = call 1 on fresh objects, an optional in-place update by the caller, call 2 on the same objects.
# Targets: F a Formula object that carries its own density, D an {atom: count} dictionary, S text with '@density'.
# Probes: scalar energy, the caller's energy array, the caller's wavelength array (mirror: + the caller's angles).
# After every call every caller-owned object must be what the caller made it; every result is judged with the
# reference equations for the density, composition and energies of THAT call.
R_OWN, R_CALLER = 2.65, 1.9
R_DENS = (("own", None), ("density", 0.7), ("density", 5.0), ("natural_density", 1.3))
R_FIRST_FNS = ("sld", "mirror")               # mirror_reflectivity -> index_of_refraction -> xray_sld: all three layers
R_SECOND_FNS = ("sld", "index", "mirror")
R_PROBES = ("E-scalar", "E-array", "W-array")
R_ES = 8.04
R_E, R_E_ALT = (1.0, 8.04, 31.0), (17.4, 0.03, 29.0)
R_WE, R_WE_ALT = (8.04, 17.4, 1.0), (29.0, 1.0, 0.03)       # the energies the wavelength array stands for
R_ANGLES = (0.1, 0.5, 5.0)
R_COMPOUNDS_QUICK = (
    ((("Si", None, 0), 1), (("O", 18, 0), 2)),
    ((("H", 2, 0), 2), (("Fe", 56, 2), 3)),
    ((("Au", None, 0), 1),),
    ((("U", None, 0), 0.5), (("Si", None, 0), 1)),
    ((("H", None, 0), 1), (("Au", None, 0), 2)),
    ((("Fe", 56, 2), 1), (("O", 18, 0), 1), (("H", None, 0), 2)),
)


def reuse_compounds(quick):
    if quick:
        return list(R_COMPOUNDS_QUICK)
    out = [((a, 1),) for a in SUB_ALPHABET]
    n = len(SUB_ALPHABET)
    for i in range(n):
        for j in range(i + 1, n):
            out.append(((SUB_ALPHABET[i], 2), (SUB_ALPHABET[j], 3)))
    return out + [c for c in R_COMPOUNDS_QUICK if c not in out]


def reuse_calls(fns):
    out = []
    for fn in fns:
        for target in ("F", "D", "S"):
            for dk in R_DENS:
                if (target == "D" and dk[0] == "own") or (target == "S" and dk[0] != "own"):
                    continue        # a dictionary has no density; text with '@' and a keyword: which wins is not stated
                for probe in R_PROBES:
                    out.append((fn, target, dk, probe))
    return out


def reuse_updates(second):
    """In-place updates by the caller that matter for the second call."""
    _, target, dk, probe = second
    out = [None]
    if target == "F":
        out.append("F.density")
        out.append("F-derived")
    if target == "D":
        out.append("D-count")
    if probe == "E-array":
        out.append("E-array")
    if probe == "W-array":
        out.append("W-array")
    return out


def reuse_plan(quick):
    firsts = reuse_calls(R_FIRST_FNS)
    seconds = reuse_calls(R_SECOND_FNS)
    hist = [(a, u, b) for a in firsts for b in seconds for u in reuse_updates(b)]
    alone = sorted(set(firsts) | set(seconds), key=repr)
    return alone, hist


def _skey(structure):
    return tuple((float(c), _skey(x) if isinstance(x, (tuple, list)) else (id(x), str(x))) for c, x in structure)


def formula_state(f):
    """What a caller can read of a Formula (not private attributes the library may keep on it)."""
    return dict(structure=_skey(f.structure), density=f.density, name=f.name, text=str(f))


class RObjects(object):
    """Fresh caller-side objects of one history and the caller's model of them."""
    def __init__(self, pt, consts, cmpd):
        self.pt, self.consts = pt, consts
        self.cd = cmpd_dict(pt, cmpd)
        self.cd0 = dict(self.cd)
        self.F = pt.formula(cmpd_dict(pt, cmpd), density=R_OWN)
        self.S = cmpd_label(cmpd) + "@%r" % R_OWN
        self.E = np.array(R_E)
        self.W = np.array([rx.wavelength_of_energy(e, consts) for e in R_WE])
        self.A = np.array(R_ANGLES)
        self.own = R_OWN
        self.counts = dict(F=tuple(cmpd), S=tuple(cmpd), D=tuple(cmpd))
        self.e_model, self.we_model = R_E, R_WE
        self.snap = self.state()

    def state(self):
        return dict(formula=formula_state(self.F), dict=tuple((id(k), str(k), v) for k, v in self.cd.items()),
                    energy_array=self.E.tobytes(), wavelength_array=self.W.tobytes(), angle_array=self.A.tobytes())

    def update(self, what):
        if what == "F.density":
            self.F.density = R_CALLER
            self.own = R_CALLER
        elif what == "F-derived":
            # the caller goes on with an object derived from the one used before (n*f is made by copying f, private
            # attributes included) and gives it a density of its own
            g = 2 * self.F
            want = dict((k, 2 * v) for k, v in self.cd0.items())
            if g.atoms != want:
                return False            # formula arithmetic is C02's business: not judged here
            g.density = R_CALLER
            self.F = g
            self.own = R_CALLER
            self.counts["F"] = tuple((a, 2 * c) for a, c in self.counts["F"])
        elif what == "D-count":
            k = list(self.cd)[0]
            self.cd[k] = 2 * self.cd[k]
            c = self.counts["D"]
            self.counts["D"] = ((c[0][0], 2 * c[0][1]),) + c[1:]
        elif what == "E-array":
            self.E[:] = R_E_ALT
            self.e_model = R_E_ALT
        elif what == "W-array":
            self.W[:] = [rx.wavelength_of_energy(e, self.consts) for e in R_WE_ALT]
            self.we_model = R_WE_ALT
        else:
            raise MachineryError("unknown update %r" % (what,))
        self.snap = self.state()
        return True

    def altered(self):
        now = self.state()
        out = []
        for k in ("formula", "dict", "energy_array", "wavelength_array", "angle_array"):
            if now[k] != self.snap[k]:
                if k == "formula":
                    k = "formula-" + "+".join(f for f in ("structure", "density", "name", "text")
                                              if now["formula"][f] != self.snap["formula"][f])
                out.append(k)
        return out


class ReuseCheck(object):
    def __init__(self, pt, xsf, consts, cmpd, acc):
        self.pt, self.xsf, self.consts, self.cmpd, self.acc = pt, xsf, consts, tuple(cmpd), acc
        self.label = cmpd_label(cmpd)
        self._ref = {}
        self.text_ok = None

    # -- model
    def effective(self, objs, call):
        """(composition, density, energies, fuzzy) this call is about."""
        _, target, dk, probe = call
        counts = objs.counts[target]
        if dk[0] == "own":
            rho = objs.own if target == "F" else R_OWN
        elif dk[0] == "density":
            rho = dk[1]
        else:
            m_iso = sum(c * ref_mass(self.pt, self.consts, a) for a, c in counts)
            m_nat = sum(c * ref_mass(self.pt, self.consts, a) for a, c in natural_spec(counts))
            rho = dk[1] * m_iso / m_nat
        if probe == "E-scalar":
            return counts, rho, (R_ES,), False
        if probe == "E-array":
            return counts, rho, tuple(objs.e_model), False
        return counts, rho, tuple(objs.we_model), True

    def reference(self, counts, rho, e, fuzzy):
        key = (counts, rho, e, fuzzy)
        if key not in self._ref:
            self._ref[key] = cmpd_reference(self.pt, self.consts, counts, rho, e, fuzzy=fuzzy)
        return self._ref[key]

    # -- the real thing
    def kwargs(self, objs, call):
        fn, target, dk, probe = call
        kw = {}
        if dk[0] != "own":
            kw[dk[0]] = dk[1]
        if probe == "E-scalar":
            kw["energy"] = R_ES
        elif probe == "E-array":
            kw["energy"] = objs.E
        else:
            kw["wavelength"] = objs.W
        if fn == "mirror":
            kw["angle"] = objs.A
        return kw

    def execute(self, objs, call):
        fn, target = call[0], call[1]
        arg = dict(F=objs.F, D=objs.cd, S=objs.S)[target]
        f = dict(sld=self.xsf.xray_sld, index=self.xsf.index_of_refraction, mirror=self.xsf.mirror_reflectivity)[fn]
        self.acc.evaluations += 1
        with np.errstate(all="ignore"):
            return f(arg, **self.kwargs(objs, call))

    def code(self, call):
        fn, target, dk, probe = call
        kws = []
        if dk[0] != "own":
            kws.append("%s=%r" % dk)
        kws.append("energy=%r" % R_ES if probe == "E-scalar" else "energy=E" if probe == "E-array" else "wavelength=W")
        if fn == "mirror":
            kws.append("angle=A")
        name = dict(sld="xray_sld", index="index_of_refraction", mirror="mirror_reflectivity")[fn]
        return "xsf.%s(%s, %s)" % (name, target, ", ".join(kws))

    def snippet(self, calls, update=None):
        c = self.cmpd
        lines = ["import numpy, periodictable as pt", "from periodictable import xsf",
                 "F = pt.formula(%s, density=%r)" % (cmpd_code(c), R_OWN), "D = %s" % cmpd_code(c),
                 "S = %r" % (self.label + "@%r" % R_OWN),
                 "E = numpy.array(%r); W = xsf.xray_wavelength(numpy.array(%r)); A = numpy.array(%r)"
                 % (list(R_E), list(R_WE), list(R_ANGLES))]
        upd = {"F.density": "F.density = %r" % R_CALLER, "F-derived": "F = 2*F; F.density = %r" % R_CALLER, "D-count": "k = list(D)[0]; D[k] = 2*D[k]",
               "E-array": "E[:] = %r" % (list(R_E_ALT),), "W-array": "W[:] = xsf.xray_wavelength(numpy.array(%r))" % (list(R_WE_ALT),)}
        for k, call in enumerate(calls):
            if k == len(calls) - 1 and update:
                lines.append(upd[update] + "          # the caller's own update")
            lines.append("print(%s)" % self.code(call))
            lines.append("print('   F:', F, F.density, ' D:', D, ' E:', E, ' W:', W, ' A:', A)")
        return "\n".join(lines) + "\n"

    def verdict(self, objs, call, got):
        """None if the result is what the equations give for the composition, density and energies of this call,
        else (what, expected, observed)."""
        fn, probe = call[0], call[3]
        counts, rho, Es, fuzzy = self.effective(objs, call)
        refs = [self.reference(counts, rho, e, fuzzy) for e in Es]
        Wl = [rx.wavelength_of_energy(e, self.consts) for e in Es]
        scalar = probe == "E-scalar"
        if fn == "sld":
            if not isinstance(got, tuple) or len(got) != 2:
                return ("form", "(rho, irho)", repr(got))
            r, ir = [np.asarray(x, dtype=float) for x in got]
            if (r.size != len(Es) or ir.size != len(Es)) or (not scalar and (r.shape != (len(Es),) or ir.shape != (len(Es),))):
                return ("shape", [len(Es)], [list(r.shape), list(ir.shape)])
            r, ir = r.reshape(-1), ir.reshape(-1)
            for j, e in enumerate(Es):
                if refs[j] is None:
                    continue
                if not any(ok1(r[j], c[0], c[2]) and ok1(ir[j], c[1], c[3]) for c in refs[j]):
                    return ("sld", [[c[0], c[1]] for c in refs[j]], [fl(r[j]), fl(ir[j])])
            return None
        if fn == "index":
            n = np.asarray(got)
            if n.size != len(Es) or (not scalar and n.shape != (len(Es),)):
                return ("shape", [len(Es)], list(n.shape))
            n = n.reshape(-1)
            EPS1 = 8 * 2.220446049250313e-16
            for j, e in enumerate(Es):
                if refs[j] is None:
                    continue
                g = complex(n[j])
                k = Wl[j] * Wl[j] / (2 * PI) * 1e-6
                good = False
                for c in refs[j]:
                    want, dl, be = rx.index_reference(Wl[j], c[0], c[1])
                    if want.real != want.real:
                        good = good or g.real != g.real
                    else:
                        good = good or (abs(g.real - want.real) <= TOL * max(dl, k * c[2]) + EPS1 and
                                        abs(g.imag - want.imag) <= TOL * max(be, k * c[3]) + 1e-300)
                if not good:
                    return ("index", fl(rx.index_reference(Wl[j], refs[j][0][0], refs[j][0][1])[0]), fl(g))
            return None
        # mirror: inside [0, 1] wherever the SLD is a number, and equal to the same question asked with fresh,
        # equal objects (dictionary, explicit density, fresh arrays)
        R = np.asarray(got, dtype=float)
        if R.shape != (len(R_ANGLES), len(Es)):
            return ("shape", [len(R_ANGLES), len(Es)], list(R.shape))
        fresh_kw = dict(angle=np.array(R_ANGLES), density=rho)
        if probe == "W-array":
            fresh_kw["wavelength"] = np.array(Wl)
        else:
            fresh_kw["energy"] = np.array(Es)
        self.acc.evaluations += 1
        with np.errstate(all="ignore"):
            Rf = np.asarray(self.xsf.mirror_reflectivity(cmpd_dict(self.pt, counts), **fresh_kw), dtype=float)
        for j, e in enumerate(Es):
            fin = refs[j] is not None and all(c[0] == c[0] for c in refs[j])
            for i in range(len(R_ANGLES)):
                v, w = float(R[i, j]), float(Rf[i, j])
                if fin and not (0 <= v <= 1 + 1e-12):
                    return ("mirror-outside-[0,1]", "0 <= R <= 1", v)
                same = (v != v and w != w) or abs(v - w) <= 1e-9 * max(abs(v), abs(w)) + 1e-13
                if not same:
                    return ("mirror-differs-from-fresh-objects", w, v)
        return None

    def run_call(self, objs, call, case, before, update, signature):
        """Execute one call of a history: the caller's objects must come back as they went in, and the result must
        be right for this call.  Returns False after a violation."""
        acc = self.acc
        acc.transitions += 1
        try:
            got, err = self.execute(objs, call), None
        except Exception as e:
            got, err = None, exc(e)
        changed = objs.altered()
        if changed:
            what = changed[0]
            passed = dict(F="formula", D="dict", S="text")[call[1]]
            which = "passed" if what.startswith(passed) else "argument" if what.endswith("array") else "other"
            sig = ("argument-altered:%s" % what if which == "argument"
                   else "argument-altered:%s-%s:density-keyword=%s" % (which, what, call[2][0]))
            acc.violation(sig, case,
                          expected="the caller's objects as they were", observed="changed: %s" % ", ".join(changed),
                          standalone=self.snippet(before + [call], update))
            return False
        if err is not None:
            acc.violation(signature, dict(case, part="raises"), "a result", err, standalone=self.snippet(before + [call], update))
            return False
        bad = self.verdict(objs, call, got)
        if bad is not None:
            acc.violation(signature, dict(case, part=bad[0]), _san(bad[1]), _san(bad[2]),
                          standalone=self.snippet(before + [call], update))
            return False
        return True

    def usable(self, objs, call):
        """Text is only in the alphabet if the parser reads it as the compound meant (reading it is C01's business)."""
        if call[1] != "S":
            return True
        if self.text_ok is None:
            try:
                f = self.pt.formula(objs.S)
                self.text_ok = (f.atoms == cmpd_dict(self.pt, self.cmpd) and f.density == R_OWN)
            except Exception:
                self.text_ok = False
            if not self.text_ok:
                self.acc.count("reuse_text_form_not_read_as_meant_not_judged")
        return self.text_ok

    def case(self, first, update, second):
        c = dict(unit="reuse", compound=[[list(a), n] for a, n in self.cmpd], label=self.label)
        if first is not None:
            c["first"] = _call_json(first)
        if update:
            c["update"] = update
        c["second"] = _call_json(second)
        return c

    def single(self, call):
        objs = RObjects(self.pt, self.consts, self.cmpd)
        if not self.usable(objs, call):
            return True
        self.acc.states += 1
        self.acc.nontrivial += 1
        return self.run_call(objs, call, self.case(None, None, call), [], None,
                             "single-call:%s:%s/%s" % (call[0], dict(F="formula-object", D="dict", S="text")[call[1]],
                                                       call[2][0] + "-density"))

    def history(self, first, update, second):
        objs = RObjects(self.pt, self.consts, self.cmpd)
        if not (self.usable(objs, first) and self.usable(objs, second)):
            return True
        acc = self.acc
        acc.states += 1
        acc.nontrivial += 1
        case = self.case(first, update, second)
        if not self.run_call(objs, first, case, [], None, "reuse:first-call-differs-from-the-call-alone"):
            return False
        if update and not objs.update(update):
            acc.count("reuse_histories_update_not_applicable_not_judged")
            return True
        diff = [n for n, a, b in zip(("fn", "object", "density", "probe"), first, second)
                if a != b and n in ("object", "density")]
        sig = "reuse:result-depends-on-earlier-call:differs-in=%s%s" % (
            "+".join(diff) or "nothing", ":after-caller-updates-%s" % update if update else "")
        ok = self.run_call(objs, second, case, [first], update, sig)
        if ok:
            acc.outcome("reuse:%s-after-%s:ok" % (second[0], first[0]))
        return ok


def _call_json(call):
    return [call[0], call[1], list(call[2]), call[3]]


def _call_from_json(j):
    return (j[0], j[1], (j[2][0], j[2][1]), j[3])


def reuse_alone_shard(arg):
    """Every call of the alphabet ALONE, each in its own fork of this worker (which has not calculated anything):
    nothing an earlier call left behind can be involved.  Returns (compound index, calls wrong alone, Acc)."""
    k, cmpd, quick = arg
    alone, _ = reuse_plan(quick)
    acc = Acc()
    bad = []
    for call in alone:
        def one(call=call):
            a = Acc()
            pt, xsf, consts, _cm = _env()
            return ReuseCheck(pt, xsf, consts, cmpd, a).single(call), _clean(a)
        ok, a = in_fork(one)
        acc.merge(a)
        if not ok:
            bad.append(call)
    acc.count("reuse_calls_alone", len(alone))
    return k, bad, acc


def reuse_shard(arg):
    """A part of the histories of one compound; calls that are wrong alone are not used; the worker stops at its
    first violation (whatever was left behind may be anywhere in this process)."""
    cmpd, quick, part, nparts, alone_bad = arg
    acc = Acc()
    pt, xsf, consts, _cm = _env()
    rc = ReuseCheck(pt, xsf, consts, cmpd, acc)
    _, hist = reuse_plan(quick)
    bad = set(alone_bad)
    for first, update, second in hist[part::nparts]:
        if first in bad or second in bad:
            acc.count("reuse_histories_skipped_call_wrong_alone")
            continue
        if not rc.history(first, update, second):
            break
    if part == 0:
        acc.sample(dict(unit="reuse", label=rc.label, histories=len(hist)))
        acc.count("reuse_compounds")
    return acc


# ------------------------------------------------------------------------------------- driver
def run(ctx):
    quick = ctx.quick
    tier = _tier(quick)
    T = rx.nff_tables()
    if len(T) != 92:
        raise MachineryError("%d .nff tables" % len(T))
    ents = rx.f0_entries()
    if rx.f0_file().duplicates:
        ctx.acc.notes.append("f0 file lists %r more than once" % rx.f0_file().duplicates)
        raise MachineryError("duplicated f0 symbols %r" % rx.f0_file().duplicates)
    pt = load_pt()
    # weight of a table unit ~ number of Xray objects it creates
    def weight(stem):
        el = pt.elements.symbol(_sym(stem))
        return (1 + len(el.ions)) * (1 + len(el.isotopes))
    stems = sorted(T, key=lambda s: -weight(s))
    nshard = max(8, min(32, 2 * ctx.jobs))
    bins = [[] for _ in range(nshard)]
    load = [0] * nshard
    for s in stems:
        k = load.index(min(load))
        bins[k].append(s)
        load[k] += weight(s) + 40
    jobs = [("table", (b, quick, ctx.seed)) for b in bins if b]
    # entries of one element stay together and in file order (neutral atom first, then its ions): the
    # X-ray record of an ion is created lazily and must not depend on the element's having been used
    byz = {}
    for e in ents:
        byz.setdefault(e["Z"], []).append(e)
    for ch in chunks(rotate(sorted(byz), ctx.seed), 6):
        jobs.append(("f0", ([e for z in ch for e in byz[z]], quick, ctx.seed)))
    cl = compound_list(tier)
    for ch in chunks(rotate(cl, ctx.seed), nshard):
        jobs.append(("compound", (ch, quick, ctx.seed)))
    kinds = {}
    for j in jobs:
        kinds.setdefault(j[0], []).append(j)
    mixed = []
    while any(kinds.values()):               # interleave the unit kinds (merge order = sample order)
        for k in ("compound", "f0", "table"):
            if kinds.get(k):
                mixed.append(kinds[k].pop(0))
    rcs = reuse_compounds(quick)
    mixed = [("reuse-alone", (k, c, quick)) for k, c in enumerate(rcs)] + mixed
    singles, pairs = f0h_plan(quick)
    allh = singles + pairs
    mixed = mixed + [("f0-history", (allh[k::nshard], quick)) for k in range(nshard)]
    ctx.acc.info["max_f0_histories"] = len(allh)
    res = ctx.pmap(_dispatch, mixed)
    bad = {}
    for r in res:
        if isinstance(r, tuple):
            bad[r[0]] = r[1]
            ctx.acc.merge(r[2])
    nparts = 4
    ctx.pmap(_dispatch, [("reuse", (c, quick, p, nparts, bad[k])) for p in range(nparts) for k, c in enumerate(rcs)])
    acc = ctx.acc
    acc.info["max_reuse_histories_per_compound"] = len(reuse_plan(quick)[1])
    acc.traces = acc.transitions
    acc.info["max_tables"] = len(T)
    acc.info["max_f0_entries_in_file"] = len(ents)
    acc.info["max_compounds_enumerated"] = len(cl)
    for s, t in sorted(T.items()):
        for z in t.zones:
            acc.notes.append("%s.nff: rows out of order, interpolation not judged on [%r, %r] keV" % (s, z[0], z[1]))
        for dup in t.duplicates:
            acc.notes.append("%s.nff: energy %s listed twice (either row accepted at that energy)" % (s, dup[2]))


def _san(x):
    """JSON-safe copy: NaN / inf become strings (evidence and replay files are strict JSON)."""
    if isinstance(x, float):
        return x if x == x and abs(x) != float("inf") else repr(x)
    if isinstance(x, dict):
        return dict((k, _san(v)) for k, v in x.items())
    if isinstance(x, (list, tuple)):
        return [_san(v) for v in x]
    if isinstance(x, np.generic):
        return _san(x.item())
    return x


def _clean(acc):
    for rec in acc.viol.values():
        for k in ("case", "expected", "observed"):
            rec[k] = _san(rec[k])
    acc.samples = [_san(x) for x in acc.samples[:1]]     # one per shard, so that all unit kinds show up
    return acc


def _dispatch(job):
    kind, arg = job
    if kind == "table":
        return _clean(table_shard(arg))
    if kind == "f0":
        return _clean(f0_shard(arg))
    if kind == "reuse-alone":
        k, bad, acc = reuse_alone_shard(arg)
        return k, bad, _clean(acc)
    if kind == "reuse":
        return _clean(reuse_shard(arg))
    if kind == "f0-history":
        return _clean(f0h_shard(arg))
    return _clean(compound_shard(arg))


def replay(ctx, case, signature=None):
    unit = case.get("unit")
    quick = True
    acc = Acc()
    if unit == "table":
        acc = table_unit((case["stem"], quick, 0))
        if signature and signature not in acc.viol:
            acc = table_unit((case["stem"], False, 0))
    elif unit == "f0":
        pt, _xsf, _consts, cm = _env()
        for ent in rx.f0_entries():
            if ent["symbol"] == case["entry"]:
                f0_unit(ent, pt, cm, acc)
    elif unit == "f0-history":
        acc = in_fork(lambda: _clean(f0h_history([tuple(h) for h in case["history"]])))
    elif unit == "compound":
        cmpd = tuple(((a[0], a[1], a[2]), c) for a, c in case["compound"])
        pt, xsf, consts, _cm = _env()
        for q in (True, False):
            tier = dict(_tier(q))
            tier["dens"] = (case["density"],)
            acc = Acc()
            compound_unit(cmpd, pt, xsf, consts, tier, acc, set())
            if not signature or signature in acc.viol:
                break
    elif unit == "reuse":
        cmpd = tuple(((a[0], a[1], a[2]), c) for a, c in case["compound"])
        pt, xsf, consts, _cm = _env()
        rc = ReuseCheck(pt, xsf, consts, cmpd, acc)
        second = _call_from_json(case["second"])
        if case.get("first") is None:
            rc.single(second)
        else:
            rc.history(_call_from_json(case["first"]), case.get("update"), second)
    else:
        raise MachineryError("unknown replay unit %r" % unit)
    for sig, rec in _clean(acc).viol.items():
        if signature is None or sig == signature:
            ctx.acc.viol[sig] = rec
