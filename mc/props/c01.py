"""C01 - a formula string denotes what the documented grammar says (E1, derivation graph;
DESIGN section 4, C01).

State  = a complete sentence of the documented compound grammar, i.e. an AST of mc.ref.formula
         (a derivation), printed to its string.
Graphs = (a) lexical: every sequence of symbols of a colliding alphabet x every separator layout,
             at most one decoration in the sentence;
         (b) structural: every AST over a 4-symbol alphabet whose total deviation (isotope tag, ion
             tag, count, leading group count, parenthesis, group count, '+' separator, density tag;
             1 each) is within the bound;
         (c) the complete one-atom sweep: every element, isotope, ion and isotope ion of the table,
             plus the undefined neighbours (isotope A+-1, charges in [-9, 9]);
         (d) a fixed list of malformations applied at every token slot of every sentence of a base
             set of (b); + every spelling (as written, lower, upper, capitalised) of every OTHER token of
             the formula grammar (unit names, percent words, density suffixes, exponent letter) put in
             the place of a symbol;
         (e) forced collisions: the structural graph of (b) over the alphabet {X, O} for EVERY symbol X of
             the table (sentences containing X), so that every symbol that spells another token under
             some case folding (Mg ~ mg, Cm ~ cm, W ~ wt, N ~ n, Dy ~ D y) stands first, after a leading
             count, after an element count, inside parentheses, after every separator, before a density
             tag; the symbol sequences that spell a token as a whole (W T); and the same compounds as a
             PART of a quantity / percentage mixture (after a unit, after '%', after '//'; atom set only).
Oracle = the reference denotation of the AST (exact Fractions): atoms (identical objects of the
         table, counts), the same through an own traversal of `.structure`, net charge, density
         (@d, @dn, @di; no tag on a compound of >= 2 atoms -> None); for (c) undefined / (d): any
         exception, a returned Formula is the violation.
Every sentence is first read by the reference reader (all derivations under the documented
grammar): it must have exactly one denotation, else it is dropped and counted under `ambiguous`;
every malformed candidate must have NO derivation under the most liberal reading of the guide,
else it is dropped and counted under `malformed_candidates_derivable`."""
import os, re
from fractions import Fraction
from ..common import Acc, MachineryError, load_pt, close, close_scaled, chunks, rotate
from ..ref import formula as R
from ..ref.formula import Elem, Implicit, Explicit, Seq, Density, Compound

META = dict(
    level="model_checking", engine="E1",
    technique="bounded-exhaustive enumeration of grammar derivations against a reference denotation",
    rule=("every AST of the documented compound grammar within the deviation bound is printed and "
          "parsed by the real parser; distinct = distinct sentence string (printing is injective on "
          "the generated ASTs; duplicates are counted, not re-run); non-trivial = any sentence other "
          "than a bare element symbol"),
    bound=dict(
        quick=("(a) lexical: all sequences of <= 3 symbols over 14 colliding symbols x all 6 separators "
               "per gap, one decoration on <= 2 symbols (all layouts) and on 3 adjacent symbols; "
               "(b) structural: deviation <= 2, nesting <= 2, all menus; <= 2 elements over {H,O,Co,D} and "
               "3 elements over {H,Co,D}; + count chains: <= 2 elements over {H,O}, counts/parentheses only, "
               "deviation 3..5, nesting <= 3; "
               "(c) all one-atom strings of the table + undefined neighbours; "
               "(d) the malformation list at every slot of every (b)-sentence with <= 2 elements, deviation <= 1, nesting 1 (2 counts); "
               "+ every token spelling at every symbol slot of the sentences over {O} of the same bound; "
               "(e) every symbol X of the table (120): all sentences containing X over {X,O}, <= 2 elements, deviation <= 1, "
               "and 3 elements with deviation 0; every X that spells another token under case folding (equal to a token, "
               "beginning of one, or beginning with one: 49 symbols): deviation <= 2, nesting <= 2 (menus: count 2, leading "
               "count 2 / .5, group count 2, own lightest isotope, own smallest charge, @1n, separators ' ', '', '+'); "
               "the symbol sequences spelling a token (lexical layouts over adjacent, ' ', '+' with one decoration); "
               "for the 49 symbols and 2 neutral ones 6 part shapes (X, XO, X2O, OX, 2XO, (XO)2) in 8 mixture frames, "
               "and the symbol-shaped token spellings as unknown symbols in the same frames; "
               "public table"),
        thorough=("(a) <= 4 symbols (4 symbols: gaps adjacent or ' '), one decoration on <= 3 symbols (3 symbols: "
                  "only layouts with gaps adjacent, ' ', '+'); "
                  "(b) <= 3 elements over {H,O,Co,D}, deviation <= 2, nesting <= 2, all menus; + deviation = 3, "
                  "nesting <= 3 with reduced menus (2 counts, 1 isotope, 2 ions, 2 density tags, separators "
                  "'', ' ', '+'); + 4 elements over {H,Co,D}, deviation <= 2, nesting <= 3, reduced menus; "
                  "(c) as quick; (d) base set <= 2 elements, deviation <= 2, nesting 1 (token spellings: same bound over {O}); "
                  "(e) every symbol X: <= 2 elements over {X,O}, deviation <= 2, nesting <= 2 with wider menus (counts 2 / 0.5, "
                  "leading counts 2 / 0.5 / .5, group counts 2 / 0.5, @1 / @1n / @1i, all 6 separators), 3 elements with "
                  "deviation <= 1, and for the symbols that spell another token deviation = 3 with the quick menus; "
                  "mixture parts for every symbol; "
                  "and the whole quick set again on a private table with customised masses")),
    assumptions=[
        "reading conventions of the reference (mc/ref/formula.py): count optional in group/element; "
        "maximal tokens; `space` = one blank; the empty separator only next to a parenthesis and never "
        "before a leading count (a number after an element or ')' is its count)",
        "not judged (neither valid nor malformed): 'H2O@' (density tag without number), bare '.', zero "
        "counts, white space other than one blank inside a separator ('2 H2O', '( H2O )2', 'H2O @1', "
        "leading/trailing blanks, tabs), '()' and a density inside parentheses (both literally derivable "
        "from '(' formula ')'), an isotope tag on D/T, the density of an untagged one-atom formula, "
        "a dangling or doubled '+' (outside the grammar, but not in the property's list of rejections), "
        "the mixture and biomolecule productions (C11, C18)",
        "the suffix 'i' of a density tag is the explicit form of the default (formulas.py), 'n' is the "
        "documented natural density: value / (mass with isotopes replaced by their element, charges "
        "kept / mass as written)",
        "which symbols, isotopes and charges exist is read from the table itself (el.symbol, "
        "el.isotopes, el.ions); atom masses for the @..n oracle are the library's (C06)",
        "the nesting of `.structure` is judged only through its meaning (products of counts summed per "
        "atom), so an equivalent structure stays silent",
        "a quantity whose count is omitted ('LO' = one litre of O, 'mgO', '(gO)2': documented unit spelling at "
        "the start, after '(' or after '//', followed by something that can start a part) is not judged: the count "
        "is optional in `group` too and the unchanged parser reads it so; every OTHER spelling of a unit "
        "(Kg, ML, Nm ...) in the place of a symbol is an unknown symbol and must be rejected; the lower-case 'n' is "
        "the table's symbol of the neutron and is not among the spellings",
        "a compound as PART of a mixture ('5g X', '5wt% A // X', ...; mass units and wt% only, positive amounts): "
        "judged is only that the atoms of the mixture are exactly the atoms of its parts (the table's own "
        "objects) and that a part naming an unknown symbol is rejected; the amounts belong to C11",
        "which words are tokens of the mixture productions is taken from the guide and from formulas.py "
        "(ref.TOKEN_CLASSES, plus the keys of formulas.LENGTH_UNITS / MASS_UNITS / VOLUME_UNITS of the tree under "
        "test); it only selects inputs and names causes",
    ],
    level_text=("every sentence of the stated finite sets was parsed by the real parser and compared with "
                "an independent denotation; nothing is claimed for sentences outside the bound"),
    level_note=("trusted: mc/ref/formula.py (AST, printer, denotation, reference reader - cross-checked "
                "against each other on every sentence), table attribute access (C08), atom masses (C06)"),
)

# ------------------------------------------------------------------------------------ alphabets
LEX = ("H", "C", "O", "N", "S", "I", "Co", "Na", "Si", "No", "He", "Fe", "D", "T")
GAPS6 = (None, " ", "+", " + ", " +", "+ ")          # None = adjacent in the same implicit group
GAPS3 = (None, " ", "+")
GAPS2 = (None, " ")
SYMS = ("H", "O", "Co", "D")
ISO_MENU = (1, 2, 16, 18, 59)
ION_MENU = ("+", "-", "1+", "2+", "2-", "3+")
COUNTS = ("2", "10", "0.5", ".5", "1.5", "2.", "12.25")
LEADS = ("2", "0.5")
DENS = (("1", ""), ("2.5", ""), (".5", ""), ("1", "n"), ("2.5", "n"), ("1", "i"))
SEP_COST = ((" ", 0), ("", 0), ("+", 1), (" + ", 1), (" +", 1), ("+ ", 1))
# menus of the structural generator: "full" as in the design; "reduced" for the deepest level
REDUCED = dict(counts=("2", "0.5"), gcounts=("2", "0.5"), leads=("2",), dens=(("1", ""), ("1", "n")),
               seps=((" ", 0), ("", 0), ("+", 1)), max_isos=1, max_ions=2)
# "chain": nothing but counts and parentheses, for deep count chains at a higher deviation bound
CHAIN = dict(syms=("H", "O"), counts=("2", "0.5"), gcounts=("2", "0.5"), leads=("2",), dens=(),
             seps=((" ", 0), ("", 0)), max_isos=0, max_ions=0)
# menus of the collision enumeration (e): the symbol under test carries its own isotope / ion tag
SLIM = dict(counts=("2",), gcounts=("2",), leads=("2", ".5"), dens=(("1", "n"),),
            seps=((" ", 0), ("", 0), ("+", 1)), max_isos=1, max_ions=1, own_tags=True)
MID = dict(counts=("2", "0.5"), gcounts=("2", "0.5"), leads=("2", "0.5"), dens=(("1", ""), ("1", "n"), ("1", "i")),
           seps=SEP_COST, max_isos=1, max_ions=1, own_tags=True)
MENUS = dict(full={}, full3=dict(syms=("H", "Co", "D")), reduced=REDUCED, chain=CHAIN,
             reduced3=dict(REDUCED, syms=("H", "Co", "D")), slim=SLIM, mid=MID)


# ------------------------------------------------------------------------------------ environment
_ENV = {}
_PRIVATE_SERIAL = [0]


class Env(object):
    """The library under test bound to one table, per process."""

    def __init__(self, private):
        pt = load_pt()
        import periodictable.formulas, periodictable.core, periodictable.mass, periodictable.density
        self.pt = pt
        self.private = bool(private)
        self.parse = periodictable.formulas.formula
        if private:
            _PRIVATE_SERIAL[0] += 1
            name = "c01-private-%d-%d" % (os.getpid(), _PRIVATE_SERIAL[0])
            T = periodictable.core.PeriodicTable(name)
            periodictable.mass.init(T)
            periodictable.density.init(T)
            # a private table exists to carry customised data (doc/sphinx/guide/customizing.rst): give it
            # masses of its own, so that a parser that reads anything from the public table is seen
            for atom, factor in ((T.H, 1.0 / 1.00794), (T.D, 1.01), (T.O, 1.02), (T.O[18], 0.99), (T.Co, 1.03),
                                 (T.Co[59], 0.98), (T.H[1], 1.005), (T.C, 0.97), (T.Fe[56], 1.015)):
                atom._mass = atom._mass * factor
            self.kw = dict(table=T)
        else:
            T = pt.elements
            self.kw = {}
        self.T = T
        self.me = pt.constants.electron_mass
        self.symbols = R.table_symbols(T)
        self.atom_ok = R.make_atom_ok(T)
        self.atom_ok_liberal = R.make_atom_ok(T, liberal=True)
        self._bound = {}
        # unit names the library itself knows (a unit added there joins the collision alphabet)
        F = periodictable.formulas
        self.lib_units = tuple(sorted(set(k for name in ("LENGTH_UNITS", "MASS_UNITS", "VOLUME_UNITS")
                                          for k in (getattr(F, name, None) or {}) if isinstance(k, str))))
        self.raw_symbols = frozenset(el.symbol for el in T)
        self.collisions = dict((sym, R.collision_classes(sym, self.lib_units)) for sym in self.symbols)
        self.looks_like = dict((sym, R.collision_classes(sym, self.lib_units, closest=True)) for sym in self.symbols)

    def bind(self, key):
        a = self._bound.get(key)
        if a is None:
            a = self._bound[key] = R.bind_atom(self.T, key)
        return a

    def isotopes(self, sym):
        return sorted(self.symbols[sym][0])

    def charges(self, sym):
        return sorted(self.symbols[sym][1], key=lambda q: (abs(q), -q))

    def run(self, s):
        """('ok', Formula) | ('exc', exception)"""
        try:
            return "ok", self.parse(s, **self.kw)
        except Exception as e:        # "rejected with an exception": any class
            return "exc", e


def env_for(private):
    key = (os.getpid(), bool(private))
    if key not in _ENV:
        _ENV[key] = Env(private)
    return _ENV[key]


def ion_text(q, explicit_one=False):
    n = abs(q)
    return ("%d" % n if (n > 1 or explicit_one) else "") + ("+" if q > 0 else "-")


# ------------------------------------------------------------------------------------ observation
def obj_key(a):
    """(Z, isotope, charge) of a returned atom object."""
    return (a.number, getattr(a, "isotope", 0), getattr(a, "charge", 0))


def flatten(structure, factor, total):
    """Own traversal of Formula.structure: a count multiplies its fragment, repeated atoms add."""
    for n, frag in structure:
        if isinstance(frag, (list, tuple)):
            flatten(frag, factor * n, total)
        else:
            k = id(frag)
            old = total.get(k)
            total[k] = (frag, (old[1] if old else 0) + factor * n)
    return total


def _cmp_counts(exp, got):
    """exp: {id: (atom, Fraction)}, got: {id: (atom, number)} -> None or description."""
    if set(exp) != set(got):
        return "atom sets differ"
    for k, (a, n) in exp.items():
        g = got[k][1]
        if n.denominator == 1:
            if g != int(n):
                return "count of %s" % a
        elif not close(g, float(n), 1e-12, 0.0):
            return "count of %s" % a
    return None


def _show(d):
    return sorted((str(a) if not getattr(a, "charge", 0) else "%s{%+d}" % (a.element, a.charge), float(n))
                  for a, n in d.values())


def compare(env, den, f):
    """Compare a returned Formula with the reference denotation.
    Returns None or (what, expected, observed); `what` is a stable class name."""
    exp = {}
    for key, n in den.atoms.items():
        a = env.bind(key)
        exp[id(a)] = (a, n)
    try:
        atoms = f.atoms
        got = dict((id(a), (a, n)) for a, n in atoms.items())
        for a in atoms:
            z, iso, q = obj_key(a)
            el = env.T[z]
            home = el[iso] if iso else el
            home = home.ion[q] if q else home
            if home is not a:
                return ("atom-not-from-table", "every atom is the table's own object", "%r is not" % (a,))
        if _cmp_counts(exp, got):
            return ("atoms", _show(exp), _show(got))
        got2 = flatten(f.structure, 1, {})
        if _cmp_counts(exp, got2):
            return ("structure-sum", _show(exp), _show(got2))
        q_exp = float(den.charge)
        scale = sum(abs(float(n) * k[2]) for k, n in den.atoms.items())
        if not close_scaled(f.charge, q_exp, scale, 1e-12):
            return ("charge", q_exp, f.charge)
        if den.density is None:
            if len(den.atoms) >= 2 and f.density is not None:
                return ("density-untagged", None, f.density)
        else:
            d_exp = R.expected_density(den, env.T, env.me)
            if f.density is None or not close(f.density, d_exp, 1e-9):
                return ("density-" + den.density[0], d_exp, f.density)
    except Exception as e:
        return ("observe-exception", "atoms/charge/density readable", "%s: %s" % (type(e).__name__, e))
    return None


def atoms_equal(env, den_atoms, f):
    exp = {}
    try:
        for key, n in den_atoms.items():
            a = env.bind(key)
            exp[id(a)] = (a, n)
        return _cmp_counts(exp, dict((id(a), (a, n)) for a, n in f.atoms.items())) is None
    except Exception:
        return False


# ------------------------------------------------------------------------------------ attribution
def features(ast):
    """Decorations present in a sentence (symbols and numbers abstracted away)."""
    out = set()
    nsym = 0
    for role, text in R.slots(ast):
        if role == "sym":
            nsym += 1
            if text in R.ALIASES:
                out.add("alias")
        elif not text and role != "sep":
            continue
        elif role in ("lead", "iso", "ion", "gcnt"):
            out.add({"lead": "lead-count", "iso": "isotope", "ion": "ion", "gcnt": "group-count"}[role])
        elif role == "cnt":
            out.add("count")
        elif role == "open":
            out.add("paren")
        elif role == "sep":
            out.add("sep-plus" if "+" in text else ("sep-space" if text else "sep-empty"))
            if "+" in text and " " in text:
                out.add("sep-plus-blank")
        elif role == "dens":
            out.add("density-" + (text[-1] if text[-1] in "ni" else "plain"))
        if role in ("lead", "cnt", "gcnt", "dens") and "." in text:
            out.add("fraction")
    if nsym > 1:
        out.add("multi")
    return out


def _swallow(seq):
    """Alternative reading: an implicit group with a leading count absorbs the following
    blank-separated implicit groups that have no count of their own (recursively)."""
    groups, seps = [], []
    for i, g in enumerate(seq.groups):
        if isinstance(g, Explicit):
            g = Explicit(_swallow(g.body), g.count)
        if (groups and isinstance(g, Implicit) and g.count is None and seq.seps[i - 1] == " "
                and isinstance(groups[-1], Implicit) and groups[-1].count is not None):
            groups[-1] = Implicit(groups[-1].count, groups[-1].elems + g.elems)
            continue
        if i:
            seps.append(seq.seps[i - 1])
        groups.append(g)
    return Seq(tuple(groups), tuple(seps))


def _rebind(seq):
    """Alternative reading: the leading count of an implicit group that follows a count-less
    parenthesis after a blank is taken as the count of that parenthesis (recursively)."""
    groups = []
    for i, g in enumerate(seq.groups):
        if isinstance(g, Explicit):
            g = Explicit(_rebind(g.body), g.count)
        if (groups and isinstance(g, Implicit) and g.count is not None and seq.seps[i - 1] == " "
                and isinstance(groups[-1], Explicit) and groups[-1].count is None):
            groups[-1] = Explicit(groups[-1].body, g.count)
            g = Implicit(None, g.elems)
        groups.append(g)
    return Seq(tuple(groups), seq.seps)


def _without(node, role, counter, target):
    """Copy of the AST with the target-th non-empty slot of `role` (lead/cnt/gcnt) emptied."""
    if isinstance(node, Compound):
        return Compound(_without(node.seq, role, counter, target), node.density)
    if isinstance(node, Seq):
        return Seq(tuple(_without(g, role, counter, target) for g in node.groups), node.seps)
    if isinstance(node, Explicit):
        body = _without(node.body, role, counter, target)
        c = node.count
        if role == "gcnt" and c is not None:
            counter[0] += 1
            if counter[0] == target:
                c = None
        return Explicit(body, c)
    if isinstance(node, Implicit):
        c = node.count
        if role == "lead" and c is not None:
            counter[0] += 1
            if counter[0] == target:
                c = None
        return Implicit(c, tuple(_without(e, role, counter, target) for e in node.elems))
    c = node.count
    if role == "cnt" and c is not None:
        counter[0] += 1
        if counter[0] == target:
            c = None
    return Elem(node.symbol, node.iso, node.ion, c)


def hypotheses(ast):
    """(signature, alternative AST) for named misreadings of the count structure."""
    alt = Compound(_swallow(ast.seq), ast.density)
    if alt != ast:
        yield "leading-count-swallows-space-separated-group", alt
    alt2 = Compound(_rebind(ast.seq), ast.density)
    if alt2 != ast:
        yield "leading-count-after-blank-binds-to-preceding-parenthesis", alt2
    alt3 = Compound(_swallow(alt2.seq), ast.density)
    if alt3 != alt2 and alt3 != alt:
        yield "leading-count-after-blank-binds-to-preceding-parenthesis", alt3
    for role, name in (("lead", "leading-count"), ("cnt", "element-count"), ("gcnt", "group-count")):
        n = sum(1 for r, t in R.slots(ast) if r == role and t)
        for target in range(1, n + 1):
            yield "%s-ignored" % name, _without(ast, role, [0], target)


def _edits(sl):
    """Simplifications of a slot list (for shrinking a counterexample): each is a new slot list."""
    n = len(sl)
    for i, (role, text) in enumerate(sl):
        if role in ("lead", "iso", "ion", "cnt", "gcnt", "dens") and text:
            yield sl[:i] + [[role, ""]] + sl[i + 1:]
        if role == "sep":
            if text != " ":
                yield sl[:i] + [[role, " "]] + sl[i + 1:]
            if text not in (" ", "+"):
                yield sl[:i] + [[role, "+"]] + sl[i + 1:]
        if role == "sym":
            # drop the element, alone or with the separator on one side
            yield sl[:i] + sl[i + 4:]
            if i + 4 < n and sl[i + 4][0] == "sep":
                yield sl[:i] + sl[i + 5:]
            if i >= 2 and sl[i - 2][0] == "sep" and sl[i - 1][0] == "lead":
                yield sl[:i - 2] + sl[i - 1:i] + sl[i + 4:]
                yield sl[:i - 2] + sl[i + 4:]
        if role == "open":
            depth = 0
            for j in range(i, n):
                depth += (sl[j][0] == "open") - (sl[j][0] == "close")
                if depth == 0:
                    break
            yield sl[:i] + sl[i + 1:j] + sl[j + 2:]          # unwrap (drops ')' and its count)
            yield sl[:i] + sl[j + 2:]                        # drop the whole group
        if role in ("lead", "cnt", "gcnt") and text not in ("", "2"):
            yield sl[:i] + [[role, "2"]] + sl[i + 1:]
        if role == "dens" and text and text.strip("ni") != "@1":
            yield sl[:i] + [[role, "@1" + text[len(text.rstrip("ni")):]]] + sl[i + 1:]
        if role == "sym":
            # canonical symbols: H for the first element, O for the others (strictly decreasing rank)
            first = not any(r == "sym" for r, _ in sl[:i])
            pref = ("H", "O") if first else ("O", "H")
            rank = pref.index(text) if text in pref else 9
            for cand in pref[:rank]:
                yield sl[:i] + [[role, cand]] + sl[i + 1:]


def shrink(env, ast, what):
    """Greedy local minimisation of a violating valid sentence (same violation class).
    Returns the minimal AST."""
    best = ast
    budget = 400
    improved = True
    while improved and budget > 0:
        improved = False
        sl = R.slots(best)
        for cand in _edits(sl):
            s2 = "".join(t for _, t in cand)
            if not s2 or s2 == R.to_string(best):
                continue
            rd = R.readings(s2, env.atom_ok)
            if len(rd) != 1:
                continue
            budget -= 1
            kind, res = env.run(s2)
            w = "rejected-valid" if kind == "exc" else (compare(env, R.denote(rd[0]), res) or (None,))[0]
            if w == what:
                best = rd[0]
                improved = True
                break
    return best


def classify(env, s, ast, what, f, memo):
    """Signature of a violation on a valid sentence: a named misreading if one explains the observed
    atoms, else the violation class + the decorations of the shrunk counterexample."""
    cause = symbol_cause(env, ast, what)
    if cause:
        return "%s:%s" % (what, cause)
    if what in ("atoms", "structure-sum") and f is not None:
        for name, alt in hypotheses(ast):
            try:
                if atoms_equal(env, R.denote(alt).atoms, f):
                    return name
            except ValueError:
                pass
    feats = frozenset(features(ast))
    mkey = (what, feats)
    if mkey not in memo:
        small = shrink(env, ast, what)
        memo[mkey] = "%s:%s" % (what, "+".join(sorted(features(small))) or "plain")
    return memo[mkey]


NEUTRAL = ("Zr", "Y")        # stand-ins that look like no token of the grammar


def _stand_in(env, node, hit):
    """Copy of the AST with every symbol that looks like another token (D, T: the feature 'alias' names
    them already) replaced by a stand-in that does not; an isotope / ion tag becomes one the stand-in has."""
    if isinstance(node, Compound):
        return Compound(_stand_in(env, node.seq, hit), node.density)
    if isinstance(node, Seq):
        return Seq(tuple(_stand_in(env, g, hit) for g in node.groups), node.seps)
    if isinstance(node, Explicit):
        return Explicit(_stand_in(env, node.body, hit), node.count)
    if isinstance(node, Implicit):
        return Implicit(node.count, tuple(_stand_in(env, e, hit) for e in node.elems))
    if node.symbol in R.ALIASES or not env.collisions.get(node.symbol):
        return node
    hit.update(env.looks_like[node.symbol])
    z = NEUTRAL[0]
    return Elem(z, None if node.iso is None else str(env.isotopes(z)[0]),
                None if node.ion is None else ion_text(env.charges(z)[0]), node.count)


def symbol_cause(env, ast, what):
    """'symbol-looks-like-<token classes>' if the sentence contains symbols that spell another token of the
    grammar under case folding AND the same sentence with stand-in symbols shows no violation: the cause is
    the spelling of the symbol (read as a unit, a percent word, a density suffix ...), not the structure."""
    hit = set()
    alt = _stand_in(env, ast, hit)
    if not hit:
        return None
    s2 = R.to_string(alt)
    rd = R.readings(s2, env.atom_ok)
    if len(set(R.den_key(R.denote(r)) for r in rd)) != 1:
        return None
    kind, res = env.run(s2)
    if kind == "exc" or compare(env, R.denote(rd[0]), res) is not None:
        return None
    return "symbol-looks-like-" + "+".join(sorted(hit))


# ------------------------------------------------------------------------------------ snippets
def _pyatom(key):
    sym, iso, q = key
    return "T.%s%s%s" % (sym, "[%d]" % iso if iso else "", ".ion[%d]" % q if q else "")


def _prelude(env):
    if env.private:
        return ("import periodictable, periodictable.core, periodictable.mass, periodictable.density\n"
                "from periodictable import formula\n"
                "T = periodictable.core.PeriodicTable('replay')\n"
                "periodictable.mass.init(T); periodictable.density.init(T)\nkw = dict(table=T)\n")
    return "import periodictable\nfrom periodictable import formula\nT = periodictable.elements\nkw = {}\n"


def snippet_valid(env, s, den):
    exp = ", ".join("%s: %r" % (_pyatom(k), float(n)) for k, n in sorted(den.atoms.items()))
    d = R.expected_density(den, env.T, env.me) if den.density else None
    return (_prelude(env) + "f = formula(%r, **kw)\nexpected = {%s}\n"
            "assert set(f.atoms) == set(expected), f.atoms\n"
            "assert all(abs(f.atoms[a] - n) <= 1e-12 * n for a, n in expected.items()), f.atoms\n"
            "assert abs(f.charge - %r) <= 1e-12, f.charge\n%s"
            % (s, exp, float(den.charge),
               "assert abs(f.density - %r) <= 1e-9*%r, f.density\n" % (d, d) if d else ""))


def snippet_reject(env, s):
    return (_prelude(env) + "try:\n    f = formula(%r, **kw)\nexcept Exception:\n    pass\n"
            "else:\n    raise AssertionError('accepted: %%r' %% (f.structure,))\n" % s)


# ------------------------------------------------------------------------------------ checks
def _tbl(env):
    return "private" if env.private else "public"


def _bare(s):
    return re.match(r"^[A-Z][a-z]*$", s) is not None


def check_valid(env, s, acc, ast=None, memo=None, seen=None):
    """One sentence of the documented grammar: unique reading, then parser == denotation."""
    if seen is not None:
        if s in seen:
            acc.count("duplicate_strings")
            return
        seen.add(s)
    rd = R.readings(s, env.atom_ok)
    dens = {}
    for r in rd:
        if R.to_string(r) != s:
            raise MachineryError("reference reader/printer disagree on %r" % s)
        d = R.denote(r)
        dens.setdefault(R.den_key(d), (d, r))
    if ast is not None and R.den_key(R.denote(ast)) not in dens:
        raise MachineryError("generated AST is not a reading of its own string %r" % s)
    if len(dens) != 1:
        acc.count("ambiguous")
        return
    den, tree = next(iter(dens.values()))
    acc.states += 1
    acc.transitions += 1
    acc.evaluations += 1
    acc.traces += 1
    if not _bare(s):
        acc.nontrivial += 1
    kind, res = env.run(s)
    if kind == "exc":
        bad = ("rejected-valid", "a Formula", "%s: %s" % (type(res).__name__, str(res)[:120]))
        f = None
    else:
        bad = compare(env, den, res)
        f = res
    if bad is None:
        acc.outcome("valid:%d-atom%s%s" % (min(len(den.atoms), 3), ",charged" if den.charge else "",
                                           ",density-" + den.density[0] if den.density else ""))
        if acc.states % 7919 == 1:
            acc.sample(dict(s=s, table=_tbl(env), atoms=sorted((list(k), str(n)) for k, n in den.atoms.items())))
        return
    what, expected, observed = bad
    sig = classify(env, s, tree, what, f, memo if memo is not None else {})
    acc.outcome("VIOLATION:" + what)
    acc.violation(sig, dict(kind="valid", s=s, table=_tbl(env)), expected=expected, observed=observed,
                  standalone=snippet_valid(env, s, den), detail=dict(what=what))


def check_reject(env, s, acc, signature, kind, extra=None):
    """A string outside the documented language (or naming something the table does not define):
    the parser must raise."""
    acc.states += 1
    acc.transitions += 1
    acc.evaluations += 1
    acc.traces += 1
    acc.nontrivial += 1
    k, res = env.run(s)
    if k == "exc":
        acc.outcome("rejected:%s" % type(res).__name__)
        if acc.states % 4001 == 1:
            acc.sample(dict(s=s, table=_tbl(env), rejected=type(res).__name__))
        return
    acc.outcome("VIOLATION:accepted")
    try:
        obs = "Formula %r" % (res.structure,)
    except Exception:
        obs = "returned %r" % (res,)
    acc.violation(signature, dict(extra or {}, kind=kind, s=s, table=_tbl(env), signature=signature),
                  expected="an exception", observed=obs, standalone=snippet_reject(env, s))


# ------------------------------------------------------------------------------------ (a) lexical graph
def lex_decorations(env, syms, groups_of):
    """At most one decoration in the whole sentence: yields (elem_overrides, lead_group, paren_group,
    density).  groups_of = number of implicit groups of the layout."""
    n = len(syms)
    for k, sym in enumerate(syms):
        if sym not in R.ALIASES:
            yield ({k: ("iso", str(env.isotopes(sym)[0]))}, None, None, None)
        if env.charges(sym):
            yield ({k: ("ion", ion_text(env.charges(sym)[0]))}, None, None, None)
        yield ({k: ("count", "2")}, None, None, None)
        yield ({k: ("count", "0.5")}, None, None, None)
    for g in range(groups_of):
        yield ({}, g, None, None)
        yield ({}, None, g, None)
    yield ({}, None, None, Density("1", ""))
    yield ({}, None, None, Density("1", "n"))


def lex_ast(syms, gaps, deco):
    over, lead_g, paren_g, dens = deco
    runs, seps = [[]], []
    for k, sym in enumerate(syms):
        kind, val = over.get(k, (None, None))
        e = Elem(sym, val if kind == "iso" else None, val if kind == "ion" else None,
                 val if kind == "count" else None)
        if k and gaps[k - 1] is not None:
            runs.append([])
            seps.append(gaps[k - 1])
        runs[-1].append(e)
    groups = []
    for g, run in enumerate(runs):
        node = Implicit("2" if lead_g == g else None, tuple(run))
        if paren_g == g:
            node = Explicit(Seq((node,), ()), None)
        groups.append(node)
    return Compound(Seq(tuple(groups), tuple(seps)), dens)


def _layouts(n, gapset):
    if n == 1:
        yield ()
        return
    for rest in _layouts(n - 1, gapset):
        for g in gapset:
            yield (g,) + rest


def _sequences(n, first):
    if n == 1:
        yield (first,)
        return
    for rest in _sequences(n - 1, first):
        for s in LEX:
            yield rest + (s,)


NO_DECO = ({}, None, None, None)


def shard_lexical(args):
    """All sentences whose first symbol is `first`, with n symbols."""
    private, firsts, n, gapset, deco_mode = args
    env = env_for(private)
    acc = Acc()
    memo, seen = {}, set()
    for syms in (x for first in firsts for x in _sequences(n, first)):
        for gaps in _layouts(n, gapset):
            ast = lex_ast(syms, gaps, NO_DECO)
            check_valid(env, R.to_string(ast), acc, ast, memo, seen)
            if (deco_mode == "all" or (deco_mode == "adjacent" and all(g is None for g in gaps))
                    or (deco_mode == "simple-gaps" and all(g in GAPS3 for g in gaps))):
                ngroups = 1 + sum(1 for g in gaps if g is not None)
                for deco in lex_decorations(env, syms, ngroups):
                    if deco_mode == "adjacent" and not deco[0]:
                        continue
                    ast = lex_ast(syms, gaps, deco)
                    check_valid(env, R.to_string(ast), acc, ast, memo, seen)
    acc.count("lexical_sentences", len(seen))
    return acc


# ------------------------------------------------------------------------------------ (b) structural graph
class Gen(object):
    """Deviation-bounded enumeration of ASTs.  Every generator yields (node, n_elements, cost)."""

    def __init__(self, env, syms=SYMS, counts=COUNTS, gcounts=COUNTS, leads=LEADS, dens=DENS,
                 seps=SEP_COST, max_isos=None, max_ions=None, own_tags=False):
        self.elem_menu = []
        for sym in syms:
            if own_tags:      # any symbol of the table: its own lightest isotope and smallest charge
                isos = [] if sym in R.ALIASES else [str(a) for a in env.isotopes(sym)[:1]]
                ions = [ion_text(q) for q in env.charges(sym)[:1]]
            else:
                isos = [] if sym in R.ALIASES else [str(a) for a in env.isotopes(sym) if a in ISO_MENU]
                ions = [t for t in ION_MENU if R.ion_value(t) in env.symbols[sym][1]]
            if max_isos is not None:
                isos = isos[-max_isos:] if max_isos else []
            if max_ions is not None:
                ions = ions[:max_ions]
            self.elem_menu.append((sym, [None] + isos, [None] + ions))
        self.seps = seps
        self.counts = [None] + list(counts)
        self.gcounts = [None] + list(gcounts)
        self.leads = [None] + list(leads)
        self.dens = dens

    def elems(self, budget):
        for sym, isos, ions in self.elem_menu:
            for iso in isos:
                c1 = 0 if iso is None else 1
                if c1 > budget:
                    continue
                for ion in ions:
                    c2 = c1 + (0 if ion is None else 1)
                    if c2 > budget:
                        continue
                    for cnt in self.counts:
                        c3 = c2 + (0 if cnt is None else 1)
                        if c3 <= budget:
                            yield Elem(sym, iso, ion, cnt), c3

    def runs(self, k, budget):
        if k == 0:
            yield (), 0
            return
        for e, c in self.elems(budget):
            for rest, c2 in self.runs(k - 1, budget - c):
                yield (e,) + rest, c + c2

    def groups(self, nmax, budget, depth):
        for k in range(1, nmax + 1):
            for lead in self.leads:
                lc = 0 if lead is None else 1
                if lc > budget:
                    continue
                for run, c in self.runs(k, budget - lc):
                    yield Implicit(lead, run), k, lc + c
        if depth > 0 and budget >= 1:
            for body, nel, c in self.seqs(nmax, budget - 1, depth - 1):
                for gc in self.gcounts:
                    gcost = 0 if gc is None else 1
                    if 1 + c + gcost <= budget:
                        yield Explicit(body, gc), nel, 1 + c + gcost

    def extend(self, groups, seps, nel, cost, nmax, budget, depth):
        yield Seq(groups, seps), nel, cost
        if nel >= nmax:
            return
        prev = groups[-1]
        for g, k, c in self.groups(nmax - nel, budget - cost, depth):
            for sep, sc in self.seps:
                if cost + c + sc > budget:
                    continue
                if sep == "" and not self.empty_sep_ok(prev, g):
                    continue
                for out in self.extend(groups + (g,), seps + (sep,), nel + k, cost + c + sc,
                                       nmax, budget, depth):
                    yield out

    def seqs(self, nmax, budget, depth):
        for g, k, c in self.groups(nmax, budget, depth):
            for out in self.extend((g,), (), k, c, nmax, budget, depth):
                yield out

    @staticmethod
    def empty_sep_ok(prev, g):
        return ((isinstance(prev, Explicit) or isinstance(g, Explicit))
                and not (isinstance(g, Implicit) and g.count is not None))

    def compounds(self, nmax, budget, depth, part=None):
        """part=(p, n): only the sentences built on the group sequences number p, p+n, p+2n, ... of
        the (deterministic) enumeration - a partition of the sentence set into n shards."""
        for i, (seq, nel, c) in enumerate(self.seqs(nmax, budget, depth)):
            if part is not None and i % part[1] != part[0]:
                continue
            yield Compound(seq, None), nel, c
            if c + 1 <= budget:
                for v, tag in self.dens:
                    yield Compound(seq, Density(v, tag)), nel, c + 1


def shard_structural(args):
    """Shard = every nparts-th group sequence of the enumeration (with all its density variants);
    different ASTs print differently, so shards are disjoint."""
    private, menu, nmax, budget, depth, part, nparts, only = args
    env = env_for(private)
    gen = Gen(env, **MENUS[menu])
    acc = Acc()
    memo, seen = {}, set()
    for ast, nel, cost in gen.compounds(nmax, budget, depth, (part, nparts)):
        if only is not None and not ((only[0] is None or nel == only[0]) and only[1] <= cost <= only[2]):
            continue
        check_valid(env, R.to_string(ast), acc, ast, memo, seen)
        acc.info["max_deviation"] = max(acc.info.get("max_deviation", 0), cost)
        acc.info["max_elements"] = max(acc.info.get("max_elements", 0), nel)
    acc.count("structural_sentences", len(seen))
    return acc


# ------------------------------------------------------------------------------------ (c) one-atom sweep
def one_atom_cases(env):
    """(string, kind, key | None): every atom the table defines, and the undefined neighbours."""
    valid, undefined = [], []
    for sym in sorted(env.symbols):
        isos, ions = env.symbols[sym]
        base = R.ALIASES.get(sym)
        bsym, biso = base if base else (sym, 0)
        valid.append((sym, "element", (bsym, biso, 0)))
        tagsets = [("", biso)] + [("[%d]" % a, a) for a in sorted(isos)]
        for tag, a in tagsets:
            if tag:
                valid.append((sym + tag, "isotope", (bsym, a, 0)))
            for q in sorted(ions):
                kind = "isotope-ion" if (tag or base) else "ion"
                valid.append((sym + tag + "{" + ion_text(q) + "}", kind, (bsym, a, q)))
                if abs(q) == 1:
                    valid.append((sym + tag + "{" + ion_text(q, True) + "}", kind, (bsym, a, q)))
        if not base:
            nb = set()
            for a in isos:
                nb.update(x for x in (a - 1, a + 1) if x >= 1 and x not in isos)
            if not isos:
                nb.add(1)
            for a in sorted(nb):
                undefined.append(("%s[%d]" % (sym, a), "isotope"))
        edge = sorted(isos)[:1] + sorted(isos)[-1:] if not base else []
        for tag in [""] + ["[%d]" % a for a in dict.fromkeys(edge)]:
            for q in range(-9, 10):
                if q != 0 and q not in ions:
                    undefined.append((sym + tag + "{" + ion_text(q) + "}",
                                      "charge-on-isotope" if tag else "charge"))
    return valid, undefined


def check_one_atom(env, s, kind, key, acc):
    acc.states += 1
    acc.transitions += 1
    acc.evaluations += 1
    acc.traces += 1
    if not _bare(s):
        acc.nontrivial += 1
    rd = R.readings(s, env.atom_ok)
    if len(rd) != 1 or list(R.denote(rd[0]).atoms.items()) != [(tuple(key), Fraction(1))]:
        raise MachineryError("one-atom string %r is not read as %r by the reference" % (s, key))
    want = env.bind(tuple(key))
    k, res = env.run(s)
    bad = None
    if k == "exc":
        bad = ("rejected", "%s: %s" % (type(res).__name__, str(res)[:120]))
    else:
        try:
            st = res.structure
            flat = flatten(st, 1, {})
            atoms = res.atoms
            if len(flat) != 1 or len(atoms) != 1:
                bad = ("not-single", repr(st))
            else:
                a, n = next(iter(flat.values()))
                if a is not want or next(iter(atoms)) is not want:
                    bad = ("wrong-object", repr(st))
                elif n != 1 or atoms[want] != 1:
                    bad = ("wrong-count", repr(st))
                elif res.charge != key[2]:
                    bad = ("wrong-charge", repr(res.charge))
        except Exception as e:
            bad = ("observe-exception", "%s: %s" % (type(e).__name__, e))
    if bad is None:
        acc.outcome("one-atom:%s" % kind)
        if acc.states % 2003 == 1:
            acc.sample(dict(s=s, table=_tbl(env), atom=repr(want)))
        return
    acc.outcome("VIOLATION:one-atom")
    den = R.denote(rd[0])
    acc.violation("one-atom:%s:%s" % (kind, bad[0]), dict(kind="atom", s=s, table=_tbl(env), atom_kind=kind,
                                                          key=list(key)),
                  expected="((1, %s),) with charge %d" % (_pyatom(tuple(key)), key[2]), observed=bad[1],
                  standalone=snippet_valid(env, s, den))


def shard_atoms(args):
    private, part, nparts = args
    env = env_for(private)
    valid, undefined = one_atom_cases(env)
    acc = Acc()
    for s, kind, key in valid[part::nparts]:
        check_one_atom(env, s, kind, key, acc)
    for s, kind in undefined[part::nparts]:
        if R.derivable_liberal(s, env.atom_ok_liberal):
            raise MachineryError("undefined neighbour %r is derivable" % s)
        check_reject(env, s, acc, "accepted-undefined:" + kind, "undefined")
    if part == 0:
        acc.info["one_atom_strings"] = len(valid)
        acc.info["undefined_neighbour_strings"] = len(undefined)
    return acc


# ------------------------------------------------------------------------------------ (c') parse histories
# What a string denotes must not depend on what was parsed before, nor on what the caller did to the
# formulas earlier parses returned (every parse returns an object of its own).  Events: parse(s) for a
# few strings - among them the blank strings, whatever they denote - and "customise the last result"
# (+=, name, density).  Every path of <= depth events runs in its own chain of forked interpreters.
HIST_STRINGS = ("", " ", "  ", "H2O", "H2O@1", "2H2O+D2O", "Fe{2+}2O3@5n", "(H2O)2", "D{+}")


def _hist_obs(f):
    def walk(st):
        return tuple((repr(c), walk(x) if isinstance(x, (list, tuple)) else str(x)) for c, x in st)
    return (walk(f.structure), None if f.density is None else "%.12g" % f.density, f.name)


def _hist_node(env, hist, depth, acc):
    from ..histmc import in_fork
    events = [("parse", s) for s in HIST_STRINGS] + [("customise",)]
    for ev in events:
        if ev[0] == "customise" and not (hist and hist[-1][0] == "parse"):
            continue
        def node(ev=ev):
            sub = Acc()
            ns = env.__dict__.setdefault("_hist_ns", dict(first={}, last=None, made=[]))
            sub.transitions += 1
            sub.evaluations += 1
            h2 = [list(e) for e in hist] + [list(ev)]
            code = "import periodictable as pt\n" + "".join(
                ("f = pt.formula(%r); print(repr(f), f.density, f.name)\n" % e[1]) if e[0] == "parse" else
                "f += pt.formula('NaCl'); f.name = 'customised'; f.density = 3.21\n" for e in h2)
            if ev[0] == "parse":
                st, f = env.run(ev[1])
                if st != "ok":
                    ob = ("raises", type(f).__name__)
                else:
                    ob = _hist_obs(f)
                    if any(f is g for g in ns["made"]):
                        sub.violation("parse-history:returns-an-object-handed-out-before", dict(kind="history", history=h2),
                                      expected="a formula object of its own", observed="the same object as an earlier parse",
                                      standalone=code)
                        return sub, False
                    ns["made"].append(f)
                    ns["last"] = f
                want = ns["first"].setdefault(ev[1], ob)
                if ob != want:
                    sub.violation("parse-history:result-depends-on-earlier-parses", dict(kind="history", history=h2),
                                  expected=repr(want), observed=repr(ob), standalone=code)
                    return sub, False
            else:
                f = ns["last"]
                f += env.parse("NaCl", **env.kw)
                f.name = "customised"
                f.density = 3.21
            sub.states += 1
            sub.nontrivial += 1
            go = len(hist) + 1 < depth
            if go:
                _hist_node(env, hist + (ev,), depth, sub)
            return sub, True
        sub, _ = in_fork(node)
        acc.merge(sub)


def shard_history(args):
    private, first, depth = args
    from ..histmc import in_fork
    env = env_for(private)
    acc = Acc()
    def root():
        sub = Acc()
        ns = env.__dict__.setdefault("_hist_ns", dict(first={}, last=None, made=[]))
        # reference observations of every string from THIS pristine state are taken lazily (first parse wins
        # inside a path); across paths they are compared through the fixed first event
        st, f = env.run(first)
        sub.transitions += 1; sub.evaluations += 1; sub.states += 1
        if st == "ok":
            ns["first"][first] = _hist_obs(f); ns["made"].append(f); ns["last"] = f
        else:
            ns["first"][first] = ("raises", type(f).__name__)
        _hist_node(env, (("parse", first),), depth, sub)
        return sub
    acc.merge(in_fork(root))
    acc.sample(dict(kind="history", first=first, depth=depth))
    return acc


# ------------------------------------------------------------------------------------ (e) forced collisions
# Element symbols against every OTHER token class of the formula grammar (ref.TOKEN_CLASSES: unit names,
# the words of the percentage forms, the density suffixes n/i, the aliases D/T, the exponent letter): the
# quantity and percentage productions are tried before `compound`, and their tokens are letters too.  A
# symbol that spells such a token under some case folding (Mg ~ mg, Cm ~ cm, W ~ wt, N ~ n, Dy ~ D + y) must
# still be read as the symbol in EVERY position of a compound: first, after a leading count, after an
# element count, inside parentheses, after each separator, before a density tag, alone.  The enumeration
# is the structural one of (b) over the two-symbol alphabet {X, O} for EVERY symbol X of the table (O: {O, H}),
# restricted to the sentences that contain X; X carries its own lightest isotope / smallest charge.
def collision_symbols(env):
    return sorted(sym for sym, classes in env.collisions.items() if classes)


def token_words(env):
    """[(class, word)] incl. the unit names the library knows."""
    out = []
    for name, words in R.TOKEN_CLASSES:
        ws = list(words) + (list(env.lib_units) if name == "unit" else [])
        out += [(name, w) for w in dict.fromkeys(ws)]
    return out


def token_symbol_sequences(env):
    """Sequences of >= 2 table symbols whose concatenation spells a token word under case folding
    (W T ~ wt): valid sentences that look like a token only as a whole."""
    lows = sorted((sym.lower(), sym) for sym in env.symbols)

    def seg(w):
        if not w:
            yield ()
            return
        for low, sym in lows:
            if w.startswith(low):
                for rest in seg(w[len(low):]):
                    yield (sym,) + rest
    out = set()
    for _, w in token_words(env):
        out.update(q for q in seg(w.lower()) if len(q) >= 2)
    return sorted(out)


def token_spellings(env):
    """{spelling: class}: every token word as written, lower case, upper case and capitalised - the
    candidates for 'unknown symbol that looks like another token' (those that ARE readable, such as Mg,
    W or WT, are dropped by the derivability guard of (d))."""
    out = {}
    for name, w in token_words(env):
        if name == "hydrogen-alias":
            continue
        for v in (w, w.lower(), w.upper(), w.capitalize()):
            if v not in env.raw_symbols:      # 'n' is the table's symbol of the neutron: not judged
                out.setdefault(v, name)
    return out


def _select(env, which, part, nparts):
    """The part-th of nparts interleaved slices of: 'all' symbols of the table | 'coll' the symbols that
    spell another token under case folding | 'coll+' those and the neutral stand-ins."""
    syms = sorted(env.symbols) if which == "all" else collision_symbols(env)
    if which == "coll+":
        syms = sorted(set(syms) | set(NEUTRAL))
    return tuple(syms[part::nparts])


def shard_collision(args):
    private, (which, part, nparts), menu, nmax, budget, depth, only = args
    env = env_for(private)
    syms = _select(env, which, part, nparts)
    acc = Acc()
    memo, seen = {}, set()
    for X in syms:
        gen = Gen(env, **dict(MENUS[menu], syms=(X, "H" if X == "O" else "O")))
        for ast, nel, cost in gen.compounds(nmax, budget, depth):
            if only is not None and not ((only[0] is None or nel == only[0]) and only[1] <= cost <= only[2]):
                continue
            sl = R.slots(ast)
            if not any(r == "sym" and t == X for r, t in sl):
                continue
            check_valid(env, "".join(t for _, t in sl), acc, ast, memo, seen)
    acc.count("collision_sentences", len(seen))
    if part == 0:
        acc.info["max_collision_symbols_%s" % which] = len(_select(env, which, 0, 1))
    return acc


def shard_token_sequences(args):
    """The symbol sequences that spell a token as a whole, alone and next to O, every layout and every
    single decoration of the lexical graph."""
    private, = args
    env = env_for(private)
    acc = Acc()
    memo, seen = {}, set()
    seqs = token_symbol_sequences(env)
    for q in seqs:
        for syms in (q, q + ("O",), ("O",) + q):
            for gaps in _layouts(len(syms), GAPS3):
                ngroups = 1 + sum(1 for g in gaps if g is not None)
                for deco in [NO_DECO] + list(lex_decorations(env, syms, ngroups)):
                    ast = lex_ast(syms, gaps, deco)
                    check_valid(env, R.to_string(ast), acc, ast, memo, seen)
    acc.info["token_symbol_sequences"] = len(seqs)
    acc.count("collision_sentences", len(seen))
    return acc


# -- a compound as a PART of a mixture: the positions after a unit, after '%' and after '//'.  Amounts are
# C11's; judged here is only what C01 says about the part: its symbols are read as symbols, so the atoms of
# the mixture are exactly the atoms of its parts (all amounts are positive), each the table's own object;
# and a part naming an unknown symbol is rejected.  Mass units and wt% only (no density needed).
MIX_FRAMES = (
    ("after-unit", "5g {c}", ()),
    ("after-unit", "5g {c} // 5g H2O", ("H2O",)),
    ("after-unit", "5g H2O // 5g {c}", ("H2O",)),
    ("after-unit", "5g H2O//5g {c}", ("H2O",)),
    ("after-percent", "5wt% {c} // H2O", ("H2O",)),
    ("after-percent", "5wt% H2O // 5% {c} // H2O", ("H2O",)),
    ("after-part-separator", "5wt% H2O // {c}", ("H2O",)),
    ("after-part-separator", "5wt% H2O//{c}", ("H2O",)),
)
MIX_PARTS = ("{x}", "{x}{o}", "{x}2{o}", "{o}{x}", "2{x}{o}", "({x}{o})2")

def _part_atoms(env, part):
    rd = R.readings(part, env.atom_ok)
    dens = dict((R.den_key(R.denote(r)), R.denote(r)) for r in rd)
    if len(dens) != 1:
        raise MachineryError("mixture part %r has %d readings" % (part, len(dens)))
    return set(next(iter(dens.values())).atoms)


def _mix_observe(env, s, parts):
    """None | (what, expected, observed)"""
    keys = set()
    for part in parts:
        keys |= _part_atoms(env, part)
    want = dict((id(env.bind(k)), env.bind(k)) for k in keys)
    kind, res = env.run(s)
    if kind == "exc":
        return ("rejected-valid", "a Formula", "%s: %s" % (type(res).__name__, str(res)[:120]))
    try:
        got = dict((id(a), a) for a in res.atoms)
    except Exception as e:
        return ("observe-exception", "atoms readable", "%s: %s" % (type(e).__name__, e))
    if set(got) != set(want):
        return ("atom-set", sorted(str(a) for a in want.values()), sorted(str(a) for a in got.values()))
    return None


def check_mix_part(env, s, parts, frame, x, acc):
    acc.states += 1
    acc.transitions += 1
    acc.evaluations += 1
    acc.traces += 1
    acc.nontrivial += 1
    bad = _mix_observe(env, s, parts)
    if bad is None:
        acc.outcome("mixture-part:" + frame)
        if acc.states % 1009 == 1:
            acc.sample(dict(s=s, table=_tbl(env), parts=list(parts)))
        return
    what, expected, observed = bad
    # cause: does it need this symbol?  the same sentence with a stand-in that looks like no token
    tag = frame
    if x is not None:
        n = next(z for z in NEUTRAL if z != x)
        s2, parts2 = s.replace(x, n), [q.replace(x, n) for q in parts]
        try:
            if _mix_observe(env, s2, parts2) is None:
                tag = ("symbol-looks-like-" + "+".join(env.looks_like[x])) if env.looks_like.get(x) else "symbol-specific"
        except MachineryError:
            pass
    acc.outcome("VIOLATION:mixture-part")
    keys = sorted(set().union(*[_part_atoms(env, q) for q in parts]))
    acc.violation("mixture-part:%s:%s" % (what, tag), dict(kind="mixpart", s=s, parts=list(parts), frame=frame, x=x,
                                                          table=_tbl(env)),
                  expected=expected, observed=observed,
                  standalone=(_prelude(env) + "f = formula(%r, **kw)\nexpected = {%s}\n"
                              "assert set(f.atoms) == expected, f.atoms\n" % (s, ", ".join(_pyatom(k) for k in keys))))


def _mix_strings(x, o):
    for frame, text, others in MIX_FRAMES:
        for tpl in MIX_PARTS:
            part = tpl.format(x=x, o=o)
            yield frame, text.format(c=part), (part,) + others


def unknown_part_ok(env, s, part):
    """Guard of the 'unknown symbol in a mixture part' cases: the part is in the string and no liberal
    reading of the compound grammar derives it."""
    r = R._Reader(part, env.atom_ok_liberal, True)
    return part in s and not any(r.sp(end) == len(part) for end, _ in r.compound(r.sp(0)))


def shard_mix_parts(args):
    private, (which, part, nparts), with_unknown = args
    env = env_for(private)
    syms = _select(env, which, part, nparts)
    acc = Acc()
    n = 0
    for X in syms:
        for frame, s, parts in _mix_strings(X, "H" if X == "O" else "O"):
            check_mix_part(env, s, parts, frame, X, acc)
            n += 1
    if with_unknown:
        for sp, cls in sorted(token_spellings(env).items()):
            if not re.match(r"^[A-Z][a-z]*$", sp) or sp in env.symbols:
                continue
            for frame, s, parts in _mix_strings(sp, "O"):
                if len(parts[0]) > len(sp) + 1:       # the parts 'U' and 'UO' / 'OU' only
                    continue
                if not unknown_part_ok(env, s, parts[0]):
                    raise MachineryError("mixture part %r with the unknown symbol %r is derivable" % (parts[0], sp))
                check_reject(env, s, acc, "accepted-malformed:unknown-symbol:spelled-like-%s:in-mixture-part" % cls,
                             "mixpart-unknown", extra=dict(part=parts[0]))
                n += 1
    acc.count("mixture_part_strings", n)
    return acc


# ------------------------------------------------------------------------------------ (d) malformations
# A dangling or doubled '+' is outside the grammar too, but the property text lists only unknown
# symbols, undefined isotopes/charges and malformed brackets, counts and tags as "rejected with an
# exception"; so it is generated only on request and not judged by default.
JUDGE_DANGLING_PLUS = False
COUNT_MAL = (("count-leading-zero", "02"), ("count-leading-zero", "02.5"), ("count-two-dots", "1..5"),
             ("count-exponent", "1e3"), ("count-negative", "-2"))


def malformations(env, ast):
    """(id, string): every malformation of the fixed list at every slot of the sentence."""
    sl = R.slots(ast)
    s = "".join(t for _, t in sl)

    def put(i, text):
        return "".join(text if j == i else t for j, (_, t) in enumerate(sl))

    sym = None
    for i, (role, text) in enumerate(sl):
        if role == "sym":
            sym = text
            for mid, new in (("unknown-symbol:Xx", "Xx"), ("unknown-symbol:Q", "Q"), ("unknown-symbol:E", "E"),
                             ("unknown-symbol:third-letter", text + "x"), ("symbol-lower-case", text.lower())):
                yield mid, put(i, new)
            yield "paren-unclosed", put(i, "(" + text)
        elif role == "iso":
            alias = sym in R.ALIASES
            isos = env.isotopes("H" if alias else sym)
            a = int(text[1:-1]) if text else isos[0]
            bad = next(x for x in range(1, 400) if x not in isos)
            other = next((x for x in isos if x != a), a)
            if not alias:
                for mid, new in (("isotope-tag:zero", "[0]"), ("isotope-tag:leading-zero", "[0%d]" % a),
                                 ("isotope-tag:decimal", "[%d.5]" % a), ("isotope-tag:empty", "[]"),
                                 ("isotope-tag:after-blank", " [%d]" % a), ("undefined-isotope", "[%d]" % bad),
                                 ("isotope-tag:twice", "[%d][%d]" % (a, other)),
                                 ("bracket-dropped:[", "%d]" % a), ("bracket-dropped:]", "[%d" % a),
                                 ("bracket-doubled:[", "[[%d]" % a), ("bracket-doubled:]", "[%d]]" % a)):
                    yield mid, put(i, new)
        elif role == "ion":
            ions = env.charges(sym)
            q = R.ion_value(text[1:-1]) if text else ions[0]
            t = ion_text(q, True)                       # e.g. '1+', '2-'
            bad = next(x for x in (9, -9, 8, -8, 7, -7) if x not in ions)
            for mid, new in (("ion-tag:zero", "{0%s}" % t[-1]), ("ion-tag:leading-zero", "{0%s}" % t),
                             ("ion-tag:sign-first", "{%s%s}" % (t[-1], t[:-1])), ("ion-tag:no-sign", "{%s}" % t[:-1]),
                             ("ion-tag:two-signs", "{%s%s}" % (t, t[-1])), ("ion-tag:empty", "{}"),
                             ("ion-tag:after-blank", " {%s}" % t), ("undefined-charge", "{%s}" % ion_text(bad)),
                             ("bracket-dropped:{", "%s}" % t), ("bracket-dropped:}", "{%s" % t),
                             ("bracket-doubled:{", "{{%s}" % t), ("bracket-doubled:}", "{%s}}" % t)):
                yield mid, put(i, new)
            if sym not in R.ALIASES and not sl[i - 1][1]:
                yield "isotope-tag:after-ion-tag", put(i, "{%s}[%d]" % (t, env.isotopes(sym)[0]))
        elif role in ("cnt", "gcnt", "lead"):
            for mid, new in COUNT_MAL:
                yield mid + ":" + {"cnt": "element", "gcnt": "group", "lead": "leading"}[role], put(i, new)
            if role == "cnt":
                yield "paren-unopened", put(i, text + ")")
        elif role == "open":
            yield "bracket-dropped:(", put(i, "")
            yield "bracket-doubled:(", put(i, "((")
        elif role == "close":
            yield "bracket-dropped:)", put(i, "")
            yield "bracket-doubled:)", put(i, "))")
        elif role == "sep" and JUDGE_DANGLING_PLUS:
            yield "plus-doubled", put(i, "++")
            yield "plus-doubled", put(i, "+ +")
        elif role == "dens":
            for mid, new in (("density-tag:bad-suffix", "@1x"), ("density-tag:twice", "@1@2"),
                             ("density-tag:negative", "@-1"), ("density-tag:blank-after-at", "@ 1"),
                             # the suffix letters are n and i; N and I are symbols, and nothing follows a tag
                             ("density-tag:suffix-upper-case", "@1N"), ("density-tag:suffix-upper-case", "@1I"),
                             ("density-tag:symbol-after", "@1Na"), ("density-tag:symbol-after", "@1In"),
                             ("density-tag:symbol-after", "@1nO"), ("density-tag:symbol-after", "@1iN")):
                yield mid, put(i, new)
    yield "density-tag:leading", "@1" + s
    if JUDGE_DANGLING_PLUS:
        yield "plus-dangling:trailing", s + "+"
        yield "plus-dangling:trailing", s + " +"
        yield "plus-dangling:leading", "+" + s


def malformed_cases(env, nmax, budget, depth):
    """Deduplicated {string: id} over the base set (first id in enumeration order wins)."""
    gen = Gen(env, counts=("2", "0.5"), gcounts=("2",), leads=("2",), dens=(("1", ""), ("1", "n")))
    out = {}
    nbase = 0
    for ast, nel, cost in gen.compounds(nmax, budget, depth):
        nbase += 1
        for mid, m in malformations(env, ast):
            out.setdefault(m, mid)
    # unknown symbols that look like another token of the grammar (Kg, Ml, NM, Wt, Vol, mg ...): every
    # spelling at every symbol slot of every sentence of the same bound over the one-symbol alphabet {O}
    spell = sorted(token_spellings(env).items())
    gen = Gen(env, **dict(SLIM, syms=("O",)))
    for ast, nel, cost in gen.compounds(nmax, budget, depth):
        sl = R.slots(ast)
        for i, (role, text) in enumerate(sl):
            if role == "sym":
                for sp, cls in spell:
                    m = "".join(sp if j == i else t for j, (_, t) in enumerate(sl))
                    out.setdefault(m, "unknown-symbol:spelled-like-" + cls)
    return out, nbase


def shard_malformed(args):
    private, nmax, budget, depth, part, nparts = args
    env = env_for(private)
    cases, nbase = malformed_cases(env, nmax, budget, depth)
    acc = Acc()
    for m in sorted(cases)[part::nparts]:
        if R.derivable_liberal(m, env.atom_ok_liberal):
            acc.count("malformed_candidates_derivable")
            continue
        check_reject(env, m, acc, "accepted-malformed:" + cases[m], "malformed")
    if part == 0:
        acc.info["malformed_base_sentences"] = nbase
        acc.info["malformed_candidates"] = len(cases)
    return acc


# ------------------------------------------------------------------------------------ driver
def _plan(tier_quick, private, jobs):
    """List of (function, args) shards of one pass over one table."""
    plan = []
    # (a) lexical
    lex = [(1, GAPS6, "all"), (2, GAPS6, "all"), (3, GAPS6, "adjacent")]
    if not tier_quick and not private:
        lex = [(1, GAPS6, "all"), (2, GAPS6, "all"), (3, GAPS6, "simple-gaps"), (4, GAPS2, "none")]
    for n, gapset, deco in lex:
        for firsts in ([LEX] if n == 1 else chunks(LEX, 2) if n == 2 else [(x,) for x in LEX]):
            plan.append((shard_lexical, (private, tuple(firsts), n, gapset, deco)))
    # (b) structural
    # the `only` filters (n_elements, min cost, max cost) keep the passes disjoint
    if tier_quick or private:
        plan += [(shard_structural, (private, "full", 2, 2, 2, p, 2, None)) for p in range(2)]
        plan += [(shard_structural, (private, "full3", 3, 2, 2, p, 16, (3, 0, 2))) for p in range(16)]
        plan += [(shard_structural, (private, "chain", 2, 5, 3, p, 2, (None, 3, 5))) for p in range(2)]
    else:
        plan += [(shard_structural, (private, "full", 3, 2, 2, p, 32, None)) for p in range(32)]
        plan += [(shard_structural, (private, "reduced", 3, 3, 3, p, 64, (None, 3, 3))) for p in range(64)]
        plan += [(shard_structural, (private, "reduced3", 4, 2, 3, p, 48, (4, 0, 2))) for p in range(48)]
        plan += [(shard_structural, (private, "chain", 2, 6, 3, p, 4, (None, 4, 6))) for p in range(4)]
        plan += [(shard_structural, (private, "chain", 3, 4, 3, p, 8, (3, 4, 4))) for p in range(8)]
    # (c) one-atom sweep
    plan += [(shard_atoms, (private, p, 16)) for p in range(16)]
    plan += [(shard_history, (private, s0, 3 if tier_quick else 4)) for s0 in HIST_STRINGS]
    # (e) forced collisions: every symbol of the table x the structural positions; mixture parts
    # (the workers read the symbols from their own table: shards are interleaved slices of the sorted list)
    def sl(which, n):
        return [(which, p, n) for p in range(n)]
    if tier_quick or private:
        plan += [(shard_collision, (private, c, "slim", 2, 2, 2, (None, 2, 2))) for c in sl("coll", 16)]
        plan += [(shard_collision, (private, c, "slim", 2, 1, 1, None)) for c in sl("all", 6)]
        plan += [(shard_collision, (private, c, "slim", 3, 0, 1, (3, 0, 0))) for c in sl("all", 2)]
        plan += [(shard_mix_parts, (private, c, c[1] == 0)) for c in sl("coll+", 2)]
    else:
        plan += [(shard_collision, (private, c, "mid", 2, 2, 2, None)) for c in sl("all", 60)]
        plan += [(shard_collision, (private, c, "slim", 3, 1, 1, (3, 0, 1))) for c in sl("all", 40)]
        plan += [(shard_collision, (private, c, "slim", 2, 3, 2, (None, 3, 3))) for c in sl("coll", 24)]
        plan += [(shard_mix_parts, (private, c, c[1] == 0)) for c in sl("all", 4)]
    plan.append((shard_token_sequences, (private,)))
    # (d) malformations
    if tier_quick or private:
        plan += [(shard_malformed, (private, 2, 1, 1, p, 16)) for p in range(16)]
    else:
        plan += [(shard_malformed, (private, 2, 2, 1, p, 48)) for p in range(48)]
    return plan


def _run_shard(item):
    fn, args = item
    return fn(args)


def run(ctx):
    plan = _plan(ctx.quick, False, ctx.jobs)
    if not ctx.quick:
        plan += _plan(True, True, ctx.jobs)
    else:
        # quick: the small structural set once more on a private table with customised masses
        plan += [(shard_structural, (True, "full", 2, 2, 2, p, 2, None)) for p in range(2)]
    # big shards first (better packing); the seed only rotates the order
    ctx.pmap(_run_shard, rotate(plan, ctx.seed))
    acc = ctx.acc
    acc.info["shards"] = len(plan)
    acc.info.setdefault("ambiguous", 0)
    acc.info.setdefault("duplicate_strings", 0)
    if acc.info["ambiguous"]:
        acc.notes.append("%d generated sentences had more than one reading and were dropped" % acc.info["ambiguous"])


def replay(ctx, case, signature=None):
    env = env_for(case.get("table") == "private")
    kind = case.get("kind")
    if kind == "history":
        from ..histmc import in_fork
        hist = [tuple(e) for e in case["history"]]
        def work():
            sub = Acc()
            ns = dict(first={}, last=None, made=[])
            for i, ev in enumerate(hist):
                if ev[0] == "parse":
                    st, f = env.run(ev[1])
                    ob = _hist_obs(f) if st == "ok" else ("raises", type(f).__name__)
                    if st == "ok":
                        if any(f is g for g in ns["made"]):
                            sub.violation("parse-history:returns-an-object-handed-out-before", case,
                                          "a formula object of its own", "the same object as an earlier parse")
                            break
                        ns["made"].append(f); ns["last"] = f
                    want = ns["first"].setdefault(ev[1], ob)
                    if ob != want:
                        sub.violation("parse-history:result-depends-on-earlier-parses", case, repr(want), repr(ob))
                        break
                else:
                    f = ns["last"]; f += env.parse("NaCl", **env.kw); f.name = "customised"; f.density = 3.21
            return sub
        ctx.acc.merge(in_fork(work))
        return
    s = case["s"]
    if kind == "mixpart":
        check_mix_part(env, s, tuple(case["parts"]), case.get("frame", "part"), case.get("x"), ctx.acc)
        return
    if kind == "mixpart-unknown":
        if not unknown_part_ok(env, s, case["part"]):
            raise MachineryError("replay: the part %r of %r is derivable from the documented grammar" % (case["part"], s))
        check_reject(env, s, ctx.acc, case.get("signature") or signature or "accepted-malformed", kind,
                     extra=dict(part=case["part"]))
        return
    if kind == "valid":
        check_valid(env, s, ctx.acc)
    elif kind == "atom":
        check_one_atom(env, s, case["atom_kind"], tuple(case["key"]), ctx.acc)
    elif kind in ("malformed", "undefined"):
        if R.derivable_liberal(s, env.atom_ok_liberal):
            raise MachineryError("replay string %r is derivable from the documented grammar" % s)
        check_reject(env, s, ctx.acc, case.get("signature") or signature or "accepted-" + kind, kind)
    else:
        raise MachineryError("unknown replay case kind %r" % kind)
